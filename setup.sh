#!/bin/sh
# Build the harness offline from files on disk only.
set -e
export CARGO_NET_OFFLINE=true
export CARGO_TARGET_DIR=/verif/target
export RUSTFLAGS="--cap-lints=allow"
cd /verif/harness
cargo build --release --offline -q
echo "setup ok"
