#![no_main]
// libFuzzer target "game_version": the semantic oracle of the property check runs inside the target (vp::fuzz_entry).
use libfuzzer_sys::fuzz_target;

#[global_allocator]
static GLOBAL: vp::engine::CountingAlloc = vp::engine::CountingAlloc;

static HOOK: std::sync::Once = std::sync::Once::new();

fuzz_target!(|data: &[u8]| {
    // panics of the code under test are caught and judged by the oracle; only a VERIF: panic is a finding
    HOOK.call_once(|| {
        let default = std::panic::take_hook();
        std::panic::set_hook(Box::new(move |info| {
            let msg = info.payload().downcast_ref::<String>().cloned().or_else(|| info.payload().downcast_ref::<&str>().map(|s| s.to_string())).unwrap_or_default();
            if msg.starts_with("VERIF:") {
                default(info);
            } else {
                vp::engine::note_panic(info);
            }
        }));
    });
    vp::fuzz_entry::run_or_panic("game_version", data);
});
