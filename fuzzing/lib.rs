//! placeholder: see fuzz/
