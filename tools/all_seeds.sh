#!/bin/sh
# all_seeds.sh — apply every stored seeded change (in a scratch copy, /repo untouched) and run the quick tier of the checks that
# meta.json says catch it; prints one line per (seed, check): CAUGHT / MISSED.
# VP_SHARD=i/N runs every N-th seed starting at the i-th (several shards side by side need different VP_SLOTs).
cd /verif
k=0
for d in seeded/*/; do
  k=$((k+1))
  if [ -n "$VP_SHARD" ] && [ $((k % ${VP_SHARD#*/})) -ne $((${VP_SHARD%/*} % ${VP_SHARD#*/})) ]; then continue; fi
  s=$(basename $d)
  ids=$(python3 -c "
import json,re
m=json.load(open('$d/meta.json'))
print(' '.join(sorted(set(re.findall(r'C\d\d', ' '.join(m['caught_by']))))))")
  prof=release; trace=; grep -q "dev-profile" $d/meta.json && { prof=dev; trace=1; }
  qs=$(python3 -c "import json;print(json.load(open('$d/meta.json')).get('quick_seed',''))")
  out=$(env ${trace:+VP_TRACE=1} VERIF_SEED=${qs:-${VERIF_SEED:-1}} VP_SLOT=${VP_SLOT:-3} VP_PROFILE=$prof tools/try_seed2.sh /verif/$d/patch.diff $ids 2>&1)
  for id in $ids; do
    if echo "$out" | grep -q "== $id rc=1"; then echo "$s $id CAUGHT"; else echo "$s $id MISSED"; fi
  done
done
