#!/usr/bin/env python3
"""Dump byte->Unicode reference tables for the ten LFS codepages from CPython's stdlib codecs.

Output: data/cp/<cp>.tbl, one entry per line: <hex bytes> <hex code point>.
Retained: every defined single byte 0x80..0xFF and every defined lead/trail pair of the four double-byte
codepages, EXCEPT private-use code points (U+E000..U+F8FF) and, for cp950, the Big5-ETEN zone 0xC6A1..0xC8FE plus
0xF9FE where CPython (BIG5.TXT lineage) is not authoritative for Windows. ASCII (0x00..0x7F) is implied identical.
Usage: gen_cp_tables.py <outdir>   (exit 0; deterministic output)
"""
import sys, os

CPS = ["cp1252", "cp1253", "cp1251", "cp1250", "cp1254", "cp1257", "cp932", "cp936", "cp949", "cp950"]
DBCS = {"cp932", "cp936", "cp949", "cp950"}

def pua(cp):
    return 0xE000 <= cp <= 0xF8FF

def gen(cp):
    out = []
    dropped_pua = 0
    dropped_eten = 0
    leads = set()
    for b in range(0x80, 0x100):
        try:
            s = bytes([b]).decode(cp)
        except UnicodeDecodeError:
            if cp in DBCS:
                leads.add(b)
            continue
        if len(s) != 1:
            continue
        c = ord(s)
        if pua(c):
            dropped_pua += 1
            continue
        out.append((bytes([b]), c))
    if cp in DBCS:
        real_leads = set()
        for l in sorted(leads):
            for t in range(0x40, 0x100):
                bs = bytes([l, t])
                try:
                    s = bs.decode(cp)
                except UnicodeDecodeError:
                    continue
                if len(s) != 1:
                    continue
                c = ord(s)
                real_leads.add(l)
                if pua(c):
                    dropped_pua += 1
                    continue
                if cp == "cp950":
                    v = (l << 8) | t
                    if 0xC6A1 <= v <= 0xC8FE or v == 0xF9FE:
                        dropped_eten += 1
                        continue
                out.append((bs, c))
    return out, dropped_pua, dropped_eten

def main():
    outdir = sys.argv[1]
    os.makedirs(outdir, exist_ok=True)
    total = 0
    for cp in CPS:
        ents, dp, de = gen(cp)
        total += len(ents)
        with open(os.path.join(outdir, cp + ".tbl"), "w") as f:
            f.write(f"# {cp}: {len(ents)} entries; dropped {dp} private-use, {de} ETEN-zone\n")
            for bs, c in ents:
                f.write(f"{bs.hex()} {c:04x}\n")
        print(cp, len(ents), "dropped pua", dp, "eten", de)
    print("total", total)

if __name__ == "__main__":
    main()
