#!/usr/bin/env python3
"""add_regress.py <ID> <part> <name> '<case json>' [note] — save a minimal case for the replay tier."""
import json, sys, os
pid, part, name, case = sys.argv[1:5]
note = sys.argv[5] if len(sys.argv) > 5 else ""
d = f"/verif/regress/{pid}"
os.makedirs(d, exist_ok=True)
json.dump({"property": pid, "part": part, "note": note, "case": json.loads(case)}, open(f"{d}/{name}.json", "w"), indent=1, ensure_ascii=False)
print("saved", f"{d}/{name}.json")
