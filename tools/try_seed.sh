#!/bin/sh
# try_seed.sh <patch.diff> <ID> [ID...] — apply a seeded change to /repo, run the quick checks, undo it.
PATCH=$1; shift
cd /repo && git status --short | grep -v '^??' | head -1 | grep -q . && { echo "/repo not clean"; exit 2; }
git -C /repo apply "$PATCH" || { echo "patch does not apply"; exit 2; }
cd /verif
for id in "$@"; do
  out=$(./check $id quick 2>&1); rc=$?
  echo "== $id rc=$rc"; echo "$out" | grep -a -E "FAIL|VIOLATION|INCONCLUSIVE|HARNESS" | cut -c1-300 | head -4
done
git -C /repo checkout -- . ; git -C /repo status --short | grep -v '^??' | head -2
