#!/bin/sh
# run_all.sh [tier] [seed] — run every registered check once; prints one line per property.
TIER=${1:-quick}
SEED=${2:-1}
cd /verif
fail=0
for id in C01 C02 C03 C04 C05 C06 C07 C08 C09 C10 C11 C12 C13 C14 C15 C16 C17 C18 C19 C20; do
  start=$(date +%s)
  out=$(VERIF_SEED=$SEED ./check $id $TIER 2>&1)
  rc=$?
  end=$(date +%s)
  echo "$id rc=$rc $((end-start))s $(echo "$out" | grep -E '^\[C' | tail -1)"
  if [ $rc -ne 0 ]; then fail=1; echo "$out" | grep -E "FAIL|VIOLATION|INCONCLUSIVE|HARNESS" | head -5; fi
done
exit $fail
