#!/bin/sh
# thorough_extras.sh <ID> <out.json>
# Thorough tier extras: (1) libFuzzer campaigns (coverage-guided, ASan) on the property's fuzz targets with the property's oracle
# inside the target, fixed -runs, seeded corpus; (2) the quick tier re-run in the dev profile (debug assertions, overflow checks).
# Prints VIOLATION lines itself; exit 0 = nothing found, 1 = violation, 2 = inconclusive part (recorded in the json, not fatal).
ID=$1; OUT=$2
ROOT=/verif
VP=$ROOT/target/release/vp
SEED=${VERIF_SEED:-1}; [ "$SEED" = "0" ] && SEED=1
# libFuzzer wants a 32-bit seed
SEED=$(python3 -c "
try:
    print(abs(int('$SEED'.strip())) % 4294967295 + 1)
except Exception:
    print(20260927 % 4294967295 + 1)")
RUNS=${VP_FUZZ_RUNS:-600000}
viol=0
items=""
for t in $($VP fuzz-targets $ID); do
  corpus=$ROOT/target/fuzz-corpus/$t
  rm -rf "$corpus"; mkdir -p "$corpus"
  $VP fuzz-seeds $t "$corpus" >/dev/null
  rm -rf $ROOT/fuzzing/fuzz/artifacts/$t
  log=$ROOT/target/fuzz-$t.log
  maxlen=1100; [ "$t" = "pth" ] || [ "$t" = "smx" ] && maxlen=4096
  start=$(date +%s)
  ( cd $ROOT/fuzzing && cargo +nightly fuzz run $t "$corpus" -- -runs=$RUNS -seed=$SEED -len_control=0 -max_len=$maxlen -timeout=20 -print_final_stats=1 ) >"$log" 2>&1
  rc=$?
  end=$(date +%s)
  runs=$(grep -a -E "^stat::number_of_executed_units" "$log" | awk '{print $2}'); [ -z "$runs" ] && runs=0
  cov=$(grep -a -E "cov: [0-9]+" "$log" | tail -1 | sed -E 's/.*cov: ([0-9]+).*/\1/'); [ -z "$cov" ] && cov=0
  corp=$(ls "$corpus" | wc -l)
  status="clean"
  art=$(ls $ROOT/fuzzing/fuzz/artifacts/$t/* 2>/dev/null | head -1)
  if [ -n "$art" ]; then
    keep=$ROOT/evidence/replay/fuzz-$t-$(basename "$art")
    mkdir -p $ROOT/evidence/replay; cp "$art" "$keep"
    out=$($VP fuzz-replay $t "$keep" 2>&1); rrc=$?
    if [ $rrc -eq 1 ]; then
      echo "$out" | grep -a -E "VIOLATION|fuzz-replay"
      viol=1; status="violation"
    else
      # crash of the target that the oracle does not confirm (sanitizer report, timeout, OOM): inconclusive, never a violation
      status="unconfirmed-artifact:$(basename "$art")"
      echo "NOTE property=$ID fuzz target $t left an artifact the oracle does not confirm: $keep"
    fi
  elif [ $rc -ne 0 ]; then
    status="fuzzer-exit-$rc"
  fi
  items="$items{\"target\":\"$t\",\"engine\":\"libFuzzer (cargo-fuzz, ASan)\",\"runs\":$runs,\"seed\":$SEED,\"final_cov\":$cov,\"corpus_files\":$corp,\"wall_s\":$((end-start)),\"status\":\"$status\"},"
done
# dev profile re-run of the quick tier (arithmetic overflow / debug assertions become visible)
devstatus="not-run"
if ( cd $ROOT/harness && cargo build --offline -q ) >$ROOT/target/dev-build.log 2>&1; then
  out=$(VP_NO_EVIDENCE=1 $ROOT/target/debug/vp $ID quick 2>&1); drc=$?
  if [ $drc -eq 1 ]; then echo "$out" | grep -a -E "FAIL|VIOLATION"; viol=1; devstatus="violation"; elif [ $drc -eq 0 ]; then devstatus="held"; else devstatus="inconclusive-exit-$drc"; fi
else
  devstatus="dev-build-failed"
fi
echo "{\"fuzzing\":[${items%,}],\"dev_profile_rerun\":\"$devstatus\"}" > "$OUT"
exit $viol
