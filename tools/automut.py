#!/usr/bin/env python3
"""automut.py <slot> <n> <seed> — crude syntactic mutation testing of /repo against the quick tier, in an isolated slot.

For each sampled mutant (one token of one line changed: comparison operators, small integer literals +-1, hex constants with a
bit flipped, && <-> ||, true <-> false, `as u8/u16/u32` widened/narrowed) it
  1. applies the change to a scratch worktree of /repo (/tmp/repo<slot>),
  2. builds the workspace and runs the 58 baseline tests there (mutants that do not build, or that the baseline suite already
     kills, are uninteresting and skipped),
  3. builds a scratch copy of the harness against it and runs the quick tier of the checks that the file maps to.
One JSON line per mutant goes to /tmp/automut-<slot>.jsonl: status in {nobuild, killed-by-baseline, caught, SURVIVED}.
Survivors are either equivalent mutants or holes in the checks; they are read by hand.
/repo itself is never touched."""
import json, os, random, re, subprocess, sys, time

slot, n, seed = sys.argv[1], int(sys.argv[2]), int(sys.argv[3])
REPO = f"/tmp/repo{slot}"
H = f"/tmp/h{slot}"
OUT = f"/tmp/automut-{slot}.jsonl"
rnd = random.Random(seed)

def sh(cmd, cwd=None, timeout=1800, env=None):
    e = dict(os.environ)
    e.update({"CARGO_NET_OFFLINE": "true"})
    if env:
        e.update(env)
    try:
        p = subprocess.run(cmd, shell=True, cwd=cwd, capture_output=True, text=True, timeout=timeout, env=e)
        return p.returncode, p.stdout + p.stderr
    except subprocess.TimeoutExpired:
        return 124, "timeout"

if not os.path.isdir(REPO):
    sh(f"git -C /repo worktree add -q --detach {REPO} HEAD")
head = subprocess.check_output("git -C /repo rev-parse HEAD", shell=True, text=True).strip()
sh(f"git -C {REPO} checkout -q --detach {head}; git -C {REPO} checkout -q -- .; git -C {REPO} clean -qfd")

# file -> checks
def checks_for(path):
    if path.startswith("insim/src/net/tokio_impl/websocket"):
        return ["C20", "C19", "C05"]
    if path.startswith("insim/src/net/tokio_impl/udp") or path.startswith("insim/src/net/blocking_impl/udp"):
        return ["C08", "C19"]
    if path.startswith("insim/src/net/tokio_impl/framed"):
        return ["C05", "C06", "C07", "C09", "C19", "C20", "C08"]
    if path.startswith("insim/src/net/blocking_impl/framed"):
        return ["C05", "C06", "C07", "C09", "C08"]
    if path.startswith("insim/src/net/"):
        return ["C03", "C04", "C05", "C01", "C07"]
    if path.startswith("insim/src/builder"):
        return ["C18"]
    if path.startswith("insim/src/packet"):
        return ["C07", "C09", "C02", "C01"]
    if path.startswith("insim/src/relay") or path.startswith("insim/src/insim") or path.startswith("insim/src/identifiers"):
        return ["C02", "C01", "C03", "C15", "C11"]
    if path.startswith("insim_core/src/string/codepages"):
        return ["C10", "C12", "C11"]
    if path.startswith("insim_core/src/string/"):
        return ["C12", "C11", "C10", "C02"]
    if path.startswith("insim_core/src/vehicle"):
        return ["C13", "C02"]
    if path.startswith("insim_core/src/track"):
        return ["C14", "C02"]
    if path.startswith("insim_core/src/game_version"):
        return ["C16", "C03"]
    if path.startswith("insim_core/src/duration"):
        return ["C15", "C02"]
    if path.startswith("insim_core/"):
        return ["C02", "C01"]
    if path.startswith("insim_pth") or path.startswith("insim_smx"):
        return ["C17"]
    return ["C01", "C02"]

files = subprocess.check_output(
    "git -C /repo ls-files 'insim/src/**.rs' 'insim_core/src/**.rs' 'insim_pth/src/*.rs' 'insim_smx/src/*.rs'", shell=True, text=True).split()
files = [f for f in files if not f.endswith("track.rs")]  # a generated 1300-line table
if os.environ.get("AUTOMUT_FILES"):
    files = [f for f in files if re.search(os.environ["AUTOMUT_FILES"], f)]

OPS = [
    (r"<=", "<"), (r">=", ">"), (r"(?<![<>=!-])<(?![<=])", "<="), (r"(?<![<>=!-])>(?![>=])", ">="),
    (r"==", "!="), (r"!=", "=="), (r"&&", "||"), (r"\|\|", "&&"), (r"\btrue\b", "false"), (r"\bfalse\b", "true"),
    (r"\bas u8\b", "as u16"), (r"\bas u16\b", "as u8"), (r"\bas u32\b", "as u16"),
]

def mutants_of(path):
    src = open(f"/repo/{path}").read().split("\n")
    out = []
    in_tests = False
    for i, line in enumerate(src):
        s = line.strip()
        if s.startswith("#[cfg(test)]"):
            in_tests = True
        if in_tests or s.startswith("//") or s.startswith("use ") or s.startswith("///") or not s:
            continue
        code = line.split("//")[0]
        # comparison / boolean operators
        for pat, rep in OPS:
            for m in re.finditer(pat, code):
                if "->" in code[max(0, m.start() - 1):m.end() + 1] or "=>" in code[max(0, m.start() - 1):m.end() + 1]:
                    continue
                # skip generics like Vec<u8>
                if rep in ("<=", ">=") and re.search(r"[A-Za-z_:]\s*<[A-Za-z_&'\[(]", code):
                    continue
                out.append((i, m.start(), m.end(), rep, f"{m.group(0)} -> {rep}"))
        # integer literals
        for m in re.finditer(r"(?<![A-Za-z_0-9.x])(\d{1,5})(?![A-Za-z_0-9.]*x)(?![0-9])", code):
            v = int(m.group(1))
            if re.search(r"[ui](8|16|32|64|128|size)$", code[:m.start()] + m.group(1)):
                continue
            for nv in ([v + 1] + ([v - 1] if v > 0 else [])):
                out.append((i, m.start(), m.end(), str(nv), f"{v} -> {nv}"))
        for m in re.finditer(r"0x([0-9a-fA-F_]{1,10})", code):
            digits = m.group(1).replace("_", "")
            v = int(digits, 16)
            bit = 1 << rnd.randrange(max(1, v.bit_length() or 1))
            out.append((i, m.start(), m.end(), hex(v ^ bit), f"{m.group(0)} -> {hex(v ^ bit)}"))
    return src, out

pool = []
for f in files:
    try:
        src, ms = mutants_of(f)
    except Exception:
        continue
    for m in ms:
        pool.append((f, m))
rnd.shuffle(pool)
print(f"{len(pool)} candidate mutants in {len(files)} files; sampling {n}", flush=True)

done = 0
for (path, (li, a, b, rep, desc)) in pool:
    if done >= n:
        break
    src = open(f"/repo/{path}").read().split("\n")
    line = src[li]
    new = line[:a] + rep + line[b:]
    if new == line:
        continue
    src[li] = new
    sh(f"git -C {REPO} checkout -q -- .")
    open(f"{REPO}/{path}", "w").write("\n".join(src))
    rec = {"file": path, "line": li + 1, "change": desc, "before": line.strip(), "after": new.strip()}
    t0 = time.time()
    rc, out = sh("cargo test --workspace --no-fail-fast --offline 2>&1 | grep -E '^test result|^error' ", cwd=REPO, env={"CARGO_TARGET_DIR": f"{REPO}/target"})
    if "error" in out and "test result" not in out:
        rec["status"] = "nobuild"
    else:
        passed = sum(int(x) for x in re.findall(r"ok\. (\d+) passed", out))
        if "FAILED" in out or passed != 58:
            rec["status"] = "killed-by-baseline"
        else:
            ids = checks_for(path)
            sh(f"mkdir -p {H}; rsync -a --delete --exclude target /verif/harness /verif/spec /verif/data {H}/")
            sh(f"sed -i 's#path = \"/repo/#path = \"{REPO}/#' {H}/harness/Cargo.toml")
            rc, out = sh("cargo build --release --offline -q", cwd=f"{H}/harness", env={"VP_REPO": REPO, "CARGO_TARGET_DIR": f"{H}/target", "RUSTFLAGS": "--cap-lints=allow"})
            if rc != 0:
                rec["status"] = "harness-nobuild"
            else:
                caught = []
                for cid in ids:
                    rc, out = sh(f"{H}/target/release/vp {cid} quick", cwd="/verif", env={"VP_NO_EVIDENCE": "1"}, timeout=900)
                    if rc == 1:
                        caught.append(cid)
                        break
                    if rc not in (0, 1):
                        rec.setdefault("inconclusive", []).append(cid)
                rec["status"] = "caught" if caught else "SURVIVED"
                rec["caught_by"] = caught
                rec["checks_run"] = ids
    rec["secs"] = round(time.time() - t0)
    open(OUT, "a").write(json.dumps(rec) + "\n")
    print(rec["status"], path, li + 1, desc, flush=True)
    if rec["status"] in ("caught", "SURVIVED"):
        done += 1
sh(f"git -C {REPO} checkout -q -- .")
