#!/bin/sh
# try_seed2.sh <patch.diff> <ID> [ID...] — like try_seed.sh but WITHOUT touching /repo: the patch is applied to a scratch
# worktree (/tmp/repo$SLOT; VP_PROFILE=dev builds the harness copy in the dev profile, as the thorough tier's re-run does) and a scratch copy of the harness (/tmp/h$SLOT) is built against it. Evidence files are not written.
PATCH=$1; shift
SLOT=${VP_SLOT:-2}   # several trials can run side by side in different slots
set -e
if [ ! -d /tmp/repo$SLOT ]; then git -C /repo worktree add -q --detach /tmp/repo$SLOT HEAD; fi
git -C /tmp/repo$SLOT checkout -q --detach $(git -C /repo rev-parse HEAD)
git -C /tmp/repo$SLOT checkout -q -- . ; git -C /tmp/repo$SLOT clean -qfd
git -C /tmp/repo$SLOT apply "$PATCH"
mkdir -p /tmp/h$SLOT
rsync -a --delete --exclude target /verif/harness /verif/spec /verif/data /tmp/h$SLOT/
sed -i "s#path = \"/repo/#path = \"/tmp/repo$SLOT/#" /tmp/h$SLOT/harness/Cargo.toml
set +e
( cd /tmp/h$SLOT/harness && VP_REPO=/tmp/repo$SLOT CARGO_TARGET_DIR=/tmp/h$SLOT/target RUSTFLAGS=--cap-lints=allow CARGO_NET_OFFLINE=true cargo build $( [ "$VP_PROFILE" = dev ] || echo --release ) --offline -q ) 2>/tmp/h$SLOT/build.log || { echo "build failed"; tail -5 /tmp/h$SLOT/build.log; exit 2; }
cd /verif
for id in "$@"; do
  out=$(VP_NO_EVIDENCE=1 /tmp/h$SLOT/target/$( [ "$VP_PROFILE" = dev ] && echo debug || echo release )/vp $id quick 2>&1); rc=$?
  echo "== $id rc=$rc"; echo "$out" | grep -a -E "FAIL|VIOLATION|INCONCLUSIVE|HARNESS" | cut -c1-300 | head -4
done
git -C /tmp/repo$SLOT checkout -q -- .
