#!/usr/bin/env python3
"""Regenerates /verif/MANIFEST.json from the table below and validates it against the schema."""
import json, sys, os

ROOT = "/verif"

# id -> (technique, level text, level note, design ref)
CLAIMED = {
    "C01": (
        "round-trip property testing (proptest) over typed packets of all 73 kinds obtained from reference images, hand constructors and text generators",
        "encode(p0) must succeed, decode must consume the frame and render identically, re-encode must be byte-identical, in both size modes; p0 ranges over every wire-representable value of every kind (entropy-tape driven reference codec), hand-built packets for hand-written codecs / counted kinds, and caret-free multi-codepage text in each of the 30 text fields.",
        "Trusted: Debug rendering as the equality observer (sets compared order-insensitively); the in-domain definition for text (worst-case encoded size within the field). Sampled exploration.",
        "DESIGN.md §3 C01",
    ),
    "C03": (
        "complete enumeration of element counts 0..255 and ASCII text lengths 0..2N per field and mode, plus proptest over decoded-origin packets (conformant, mutated, extended frames)",
        "Every frame the encoder emits is checked for length % 4, range, size byte, count byte == elements following == typed length, and complete self-decoding to the same kind; packets obtained by decoding are re-encoded in both modes and must never panic the encoder.",
        "Trusted: header/element sizes of the counted kinds from the spec transcription. Err and panic both count as 'refused loudly' for user-built packets.",
        "DESIGN.md §3 C03",
    ),
    "C04": (
        "framing-model oracle over complete enumerations (all size/type header pairs, every byte value in every enum/count/identifier position) and proptest-generated random / mutated buffers, with a counting allocator",
        "No panic; Ok(None) only without a complete announced frame and with the buffer untouched; otherwise exactly the announced bytes removed, same result as the frame alone; announced < 4 is a framing error; peak allocation bounded by 64 KiB + 64 x input.",
        "Trusted: framing model (10 lines), classification of insim::Error::IO as framing error. Coverage-guided fuzzing of the same oracle is in /verif/fuzz (thorough tier).",
        "DESIGN.md §2.3, §3 C04",
    ),
    "C11": (
        "complete sweep of ASCII text lengths 0..2N+2 for every text field and mode + proptest multi-codepage text; byte-range oracle from the spec table",
        "The text field's byte range in every encoded frame equals the encoded text cut to the field and NUL-padded; variable fields are 4-aligned and bounded; MST/MSX/MSL/MTC end in NUL for every text; decoding stops at the first NUL.",
        "Trusted: field offsets/widths from spec/insim9.spec; to_lossy_bytes as the definition of 'encoded text' (C10 checks it).",
        "DESIGN.md §3 C11",
    ),
    "C15": (
        "complete enumeration of all 16-bit time values and all 256 race-length bytes, Laps/Hours 0..2000; proptest boundary-biased 32-bit values and Durations; reference arithmetic model",
        "Wire value w decodes to w x scale and re-encodes to w; a Duration encodes as floor(d / resolution) or is refused when out of range; race lengths follow the reference mapping or fall back to practice / an error.",
        "Trusted: scales and offsets from spec/insim9.spec (SMALL_SSP/SSG scale taken from the crate, ?unit).",
        "DESIGN.md §3 C15",
    ),
    "C02": (
        "differential testing against an independent table-driven reference codec (systematic one-hot enumeration + proptest-generated full assignments)",
        "Every packet kind, field, enumerant, flag bit and boundary value of the specification transcription is exercised one-hot in both size modes, then random full assignments; the decoder must show the specified value at each typed field and the encoder must reproduce the reference image byte for byte. Catches symmetric reader/writer deviations that round-trip perfectly.",
        "Trusted: spec/insim9.spec (hand transcription of InSim.txt v9 / InSim-Relay, self-checked by an offset tiling checksum; ?unit/?opaque fields not asserted), CPython-derived codepage tables, the Debug-rendering observer. Exploration is sampled for multi-field interactions; one-hot coverage of single fields is complete.",
        "DESIGN.md §2.1, §3 C02",
    ),
    "C05": (
        "model-based testing of read histories over a scripted transport: complete enumeration of all partitions of short streams + proptest sessions with fault injection, blocking vs tokio vs reference model",
        "Every segmentation of three 16/20-byte multi-frame streams (2^(n-1) partitions each, both modes) and generated sessions up to tens of KB (buffer reclaim cycles measured via the slice sizes offered to the transport) with injected WouldBlock/Interrupted/TimedOut, Pending polls, 90 s stalls on a paused clock and mid-frame EOF must produce exactly the model's result list on both connection types.",
        "Trusted: the 30-line reference model of the read loop; the codec's verdict per isolated frame; the transport is simulated (real sockets only in C08/C18/C20).",
        "DESIGN.md §2.4, §3 C05",
    ),
    "C06": (
        "fault-injection on the write path of a scripted transport: complete enumeration of acceptance patterns for an 8-byte frame + proptest packet sequences and acceptance policies",
        "For every way a transport may accept bytes piecewise (and defer with Pending), the bytes it accumulates must equal the concatenated frames and each write must return Ok, on the blocking and the tokio connection.",
        "Trusted: scripted transport; Codec::encode as the definition of a packet's frame.",
        "DESIGN.md §3 C06",
    ),
    "C07": (
        "history invariant over the scripted transport's event trace: complete enumeration of TINY sub-types x request ids + proptest histories",
        "Between two delivered results the connection must have written exactly one TINY_NONE frame iff the result is a keep-alive; all 30x256 TINY variants embedded between other packets, and generated histories with several keep-alives per read, split keep-alives, faults and piecewise write acceptance, on both connection types and both modes.",
        "Trusted: scripted transport trace; independent keep-alive count over the byte stream.",
        "DESIGN.md §3 C07",
    ),
    "C09": (
        "complete enumeration of 256 versions x gate on/off x position x mode x segmentation on both connection types; proptest for non-version kinds and mixed sessions",
        "A VER packet is delivered iff verification is off or its InSim version is 9, otherwise IncompatibleVersion(v); neighbours and all other kinds are unaffected by the gate.",
        "Trusted: scripted transport; the gate's reference model restated in the harness.",
        "DESIGN.md §3 C09",
    ),
    "C10": (
        "complete table sweep + proptest round trips with a differential reference decoder built from CPython codepage tables",
        "All 60 973 reference table entries behind their markers and all 11x65536 byte pairs after every marker are enumerated completely; constructed multi-codepage wire strings, faithful round trips, unrepresentable characters and random bytes/Unicode are generated with proptest and judged by an independent reference decoder.",
        "Trusted: CPython's Windows codepage codecs outside private-use / Big5-ETEN zones; marker->codepage assignment as stated by the property; `^^` atomic.",
        "DESIGN.md §2.2, §3 C10",
    ),
    "C12": (
        "complete enumeration over a character-class alphabet (length <= 5/6) + proptest random strings; round-trip and token-model oracles",
        "unescape(escape(s)) == s, no raw reserved characters, survival through the codepage path and strip == token model / idempotent are checked for every string over 16 class representatives up to length 5 (quick) or 6 (thorough) and for random longer strings.",
        "Trusted: the token model of colour stripping and the reserved-character list from the property text.",
        "DESIGN.md §3 C12",
    ),
    "C13": (
        "complete enumeration of all 2^32 identifiers against a reference classifier (generated-input search, exhaustive)",
        "Every one of the 2^32 four-byte values is decoded, classified by an independent reference written from the InSim v9 rule, re-encoded and compared byte for byte; Display / is_mod are checked for each. The input space is finite and fully enumerated in both tiers, so for this property exploration is complete.",
        "Trusted: the 20-name table transcribed from InSim.txt, the harness' reference classifier, binrw Cursor I/O. Observes Vehicle through its public BinRead/BinWrite/Display impls.",
        "DESIGN.md §3 C13",
    ),
    "C14": (
        "complete enumeration of all variants and of the 15.76 M shaped 6-byte strings, plus perturbations and proptest random bytes",
        "All configurations (variant list extracted from the enum at build time) against every accessor table; every string of the wire shape decodes iff it is a configuration's wire form (injectivity); every single-byte perturbation of every wire form; random 6-byte values.",
        "Trusted: short code = upper-cased variant name (how scripts/combos.py generates both).",
        "DESIGN.md §3 C14",
    ),
    "C16": (
        "complete enumeration over a 10-symbol alphabet and of all 6.3 M VER wire forms; proptest random strings; all-pairs / sampled-triples order axioms",
        "Totality, print/re-parse, case-insensitivity and agreement of cmp with a reference lexicographic order are checked for every string over the alphabet up to length 6/7, every 8-byte wire form D.D[D]L[D[D]] through a VER frame, random version-like and Unicode strings, all ordered pairs and millions of triples from a 2 112-version pool.",
        "Trusted: reference order (f32 partial_cmp, char order, revision-or-0).",
        "DESIGN.md §3 C16",
    ),
    "C08": (
        "proptest-generated datagram sessions on real loopback UDP sockets (lock-step), blocking and tokio adaptors, frame-in-isolation oracle",
        "Sessions of up to 400 datagrams (1..4 frames each, 4..1020 bytes, tens to hundreds of KB in total, i.e. many receive-buffer cycles) must deliver every packet intact and in order; every written packet must arrive as exactly one datagram equal to its frame.",
        "Trusted: loopback UDP neither drops nor reorders in lock-step use; the 2 s read timeout is only a truncation detector (never fires in a passing run).",
        "DESIGN.md §3 C08",
    ),
    "C17": (
        "proptest-generated structured files from an independent writer, every truncation point, hostile count injection, random bytes, counting allocator",
        "Generated PTH/SMX files must parse, re-serialise identically and re-parse equal; every cut inside the declared content must be rejected (all cut points of fixed files and of the first 4 KB of the shipped files, random cut points of generated files); hostile counts (-1, i32::MIN, 2^31-1, count+1) and random bytes must neither panic nor allocate beyond 64 KiB + 64 x input; the file API must agree with the in-memory reader.",
        "Trusted: the independent file writer in the harness; thread-local counting allocator. A libFuzzer target with the same oracle is in /verif/fuzz.",
        "DESIGN.md §3 C17",
    ),
    "C18": (
        "model-based testing of builder call sequences (proptest) + complete enumeration of the 1024 flag states + loopback capture of the handshake",
        "Random setter sequences are applied to the builder and to a plain struct model; isi() must not panic and must equal the model's ISI. connect_blocking / connect_async against a loopback TCP listener / UDP peer must send exactly one frame equal to Codec(mode).encode(model ISI).",
        "Trusted: the struct model (later calls override earlier ones, documented defaults); loopback sockets.",
        "DESIGN.md §3 C18",
    ),
    "C19": (
        "schedule exploration with a harness-owned scheduler: manual polling of the read future on a paused-clock runtime, complete enumeration of drop subsets for small sessions + proptest drop schedules",
        "The read future is polled by hand and dropped at chosen Pending polls; every subset of the first 14 polls for three scripts x 2 modes is enumerated, plus generated sessions with read/write Pending scripts, piecewise write acceptance and interleaved application writes. Delivered results must equal the uninterrupted run; the outgoing stream must consist of whole frames with one reply per keep-alive.",
        "Trusted: dropping between polls is the only cancellation mechanism; scripted transport. OS-level timing is not modelled.",
        "DESIGN.md §3 C19",
    ),
    "C20": (
        "proptest-generated message partitions served by a loopback tokio-tungstenite server; differential against the TCP stream model",
        "Frame sequences are cut into binary messages (one / several / split frames, empty and oversized messages) with Text/Ping/Pong interleaved and a close handshake; packets delivered through the crate's WebsocketStream must equal the TCP model's list and end in Disconnected; raw reads with caller buffers of 1..2048 bytes must return exactly the payload; every write must be one binary message.",
        "Trusted: tokio-tungstenite on loopback; the C05 stream model. The 10 s session limit only detects lost data.",
        "DESIGN.md §3 C20",
    ),
}

NOT_YET = {
}

def main():
    props = [json.loads(l) for l in open(f"{ROOT}/properties.jsonl")]
    checks = []
    na = []
    for p in props:
        pid = p["id"]
        if pid in CLAIMED:
            tech, text, note, ref = CLAIMED[pid]
            checks.append({
                "property_id": pid,
                "quick_cmd": f"./check {pid} quick",
                "thorough_cmd": f"./check {pid} thorough",
                "evidence_file": f"/verif/evidence/{pid}.json",
                "replay_cmd_template": f"./check {pid} --replay {{path}}",
                "engine": "vp",
                "level_claimed": {"category": "exploration", "text": text, "design_ref": ref},
                "level_note": note,
                "technique": tech,
            })
        else:
            na.append({"property_id": pid, "reason": NOT_YET.get(pid, "check not built yet in this session (work in progress; the technique applies, see DESIGN.md §3)")})
    m = {
        "version": 1,
        "setup_cmd": "./setup.sh",
        "hooks": {
            "guard": "--cfg insim_rs_verif",
            "enable": "not needed: every observation goes through public API; the harness path-depends on /repo's crates and cargo rebuilds them from the working tree",
            "baseline_off_cmd": "cd /repo && cargo test --workspace --no-fail-fast --offline",
            "source_commits": [],
            "add_only": True,
        },
        "engines": [
            {"name": "vp", "path": "/verif/harness", "serves_properties": sorted(CLAIMED.keys()),
             "kind_free_text": "Rust binary: proptest TestRunner (fixed seeds, shrinking) + complete enumerators over 16 threads, explicit oracles (reference models, round trips, differential tables, history invariants), replay files"},
        ],
        "checks": checks,
        "not_applicable": na,
        "notes": "exit 0 = held, 1 = VIOLATION line, 2 = inconclusive (build failure / harness error). VERIF_SEED seeds every proptest runner. known_findings.txt lists recorded/fixed defects.",
    }
    json.dump(m, open(f"{ROOT}/MANIFEST.json", "w"), indent=1)
    try:
        import jsonschema
        jsonschema.validate(m, json.load(open("/root/.vp/MANIFEST.schema.json")))
        print("MANIFEST.json valid;", len(checks), "checks,", len(na), "not_applicable")
    except ImportError:
        print("jsonschema missing; not validated")

if __name__ == "__main__":
    main()
