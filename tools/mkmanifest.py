#!/usr/bin/env python3
"""Regenerates /verif/MANIFEST.json from the table below and validates it against the schema."""
import json, sys, os

ROOT = "/verif"

# id -> (technique, level text, level note, design ref)
CLAIMED = {
    "C13": (
        "complete enumeration of all 2^32 identifiers against a reference classifier (generated-input search, exhaustive)",
        "Every one of the 2^32 four-byte values is decoded, classified by an independent reference written from the InSim v9 rule, re-encoded and compared byte for byte; Display / is_mod are checked for each. The input space is finite and fully enumerated in both tiers, so for this property exploration is complete.",
        "Trusted: the 20-name table transcribed from InSim.txt, the harness' reference classifier, binrw Cursor I/O. Observes Vehicle through its public BinRead/BinWrite/Display impls.",
        "DESIGN.md §3 C13",
    ),
}

NOT_YET = {
}

def main():
    props = [json.loads(l) for l in open(f"{ROOT}/properties.jsonl")]
    checks = []
    na = []
    for p in props:
        pid = p["id"]
        if pid in CLAIMED:
            tech, text, note, ref = CLAIMED[pid]
            checks.append({
                "property_id": pid,
                "quick_cmd": f"./check {pid} quick",
                "thorough_cmd": f"./check {pid} thorough",
                "evidence_file": f"/verif/evidence/{pid}.json",
                "replay_cmd_template": f"./check {pid} --replay {{path}}",
                "engine": "vp",
                "level_claimed": {"category": "exploration", "text": text, "design_ref": ref},
                "level_note": note,
                "technique": tech,
            })
        else:
            na.append({"property_id": pid, "reason": NOT_YET.get(pid, "check not built yet in this session (work in progress; the technique applies, see DESIGN.md §3)")})
    m = {
        "version": 1,
        "setup_cmd": "./setup.sh",
        "hooks": {
            "guard": "--cfg insim_rs_verif",
            "enable": "not needed: every observation goes through public API; the harness path-depends on /repo's crates and cargo rebuilds them from the working tree",
            "baseline_off_cmd": "cd /repo && cargo test --workspace --no-fail-fast --offline",
            "source_commits": [],
            "add_only": True,
        },
        "engines": [
            {"name": "vp", "path": "/verif/harness", "serves_properties": sorted(CLAIMED.keys()),
             "kind_free_text": "Rust binary: proptest TestRunner (fixed seeds, shrinking) + complete enumerators over 16 threads, explicit oracles (reference models, round trips, differential tables, history invariants), replay files"},
        ],
        "checks": checks,
        "not_applicable": na,
        "notes": "exit 0 = held, 1 = VIOLATION line, 2 = inconclusive (build failure / harness error). VERIF_SEED seeds every proptest runner. known_findings.txt lists recorded/fixed defects.",
    }
    json.dump(m, open(f"{ROOT}/MANIFEST.json", "w"), indent=1)
    try:
        import jsonschema
        jsonschema.validate(m, json.load(open("/root/.vp/MANIFEST.schema.json")))
        print("MANIFEST.json valid;", len(checks), "checks,", len(na), "not_applicable")
    except ImportError:
        print("jsonschema missing; not validated")

if __name__ == "__main__":
    main()
