#!/bin/sh
# usage: repo_fix_commit.sh <message file>   — runs the baseline tests, commits /repo if they pass
set -e
cd /repo
OUT=$(cargo test --workspace --no-fail-fast --offline 2>&1 || true)
PASS=$(echo "$OUT" | grep -E "^test result: ok" | sed -E 's/.*ok\. ([0-9]+) passed.*/\1/' | paste -sd+ | bc)
FAIL=$(echo "$OUT" | grep -cE "^test result: FAILED|^error" || true)
echo "passed=$PASS failed_markers=$FAIL"
if [ "$PASS" != "58" ] || [ "$FAIL" != "0" ]; then echo "$OUT" | grep -E "FAILED|panicked|^error" -A5 | head -40; echo "NOT COMMITTED"; exit 1; fi
git commit -qa -F "$1"
git log --oneline | head -1
