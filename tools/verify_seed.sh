#!/bin/sh
# verify_seed.sh <ID> [name] — in the scratch worktree /tmp/wt/<ID>: confirm (1) with the patch: builds, 58 baseline tests pass, demo FAILS;
# (2) without the patch: demo PASSES. Then store the seed under /verif/seeded/<name>/.
ID=$1; NAME=${2:-$1}
WT=/tmp/wt/$ID
export CARGO_TARGET_DIR=$WT/target CARGO_NET_OFFLINE=true
cd $WT || exit 2
DEMO=$(ls insim/tests/seeded_demo.rs insim_core/tests/seeded_demo.rs insim_pth/tests/seeded_demo.rs insim_smx/tests/seeded_demo.rs 2>/dev/null | head -1)
[ -z "$DEMO" ] && { echo "no demo wired"; exit 2; }
CRATE=$(echo $DEMO | cut -d/ -f1)
# make sure the patch is applied exactly once
git checkout -q -- insim insim_core insim_pth insim_smx 2>/dev/null
git apply seeded/patch.diff || { echo "patch does not apply"; exit 2; }
mv $DEMO /tmp/wt/$ID.demo.rs
BASE=$(cargo test --workspace --no-fail-fast --offline 2>&1 | grep -E "^test result" | sed -E 's/.*ok\. ([0-9]+) passed.*/\1/;t;s/.*/FAILED/' | paste -sd+ )
mv /tmp/wt/$ID.demo.rs $DEMO
WITH=$(cargo test -p $CRATE --test seeded_demo --offline 2>&1 | grep -E "^test result" | tail -1)
git apply -R seeded/patch.diff
WITHOUT=$(cargo test -p $CRATE --test seeded_demo --offline 2>&1 | grep -E "^test result" | tail -1)
git apply seeded/patch.diff
echo "baseline-with-patch: $BASE"
echo "demo with patch:    $WITH"
echo "demo without patch: $WITHOUT"
mkdir -p /verif/seeded/$NAME
cp seeded/patch.diff /verif/seeded/$NAME/patch.diff
cp seeded/demo_test.rs /verif/seeded/$NAME/demo_test.rs
echo "$DEMO" > /verif/seeded/$NAME/demo_location.txt
