#!/bin/sh
# harvest.sh <ID> — run the check in keep-going mode against the ORIGINAL /repo sources (temporarily checked out),
# save one regress case per distinct signature, restore /repo.
ID=$1
cd /repo && git checkout -q 84a4f58 -- insim insim_core insim_pth insim_smx
cd /verif && rm -rf evidence/replay && VP_KEEP_GOING=1 ./check $ID quick 2>&1 | grep -cE "FAIL"
cd /repo && git checkout -q HEAD -- insim insim_core insim_pth insim_smx && git status --short | head -3
cd /verif && python3 - "$ID" <<'PY'
import json,glob,os,re,sys
pid=sys.argv[1]
os.makedirs(f'/verif/regress/{pid}',exist_ok=True)
seen=set()
for f in sorted(glob.glob(f'/verif/evidence/replay/{pid}-*.json')):
    j=json.load(open(f))
    sig=j['signature']
    if sig in seen or j['case'] is None: continue
    seen.add(sig)
    name=re.sub(r'[^A-Za-z0-9]+','-',sig.split(':',1)[1]).strip('-').lower()[:80]
    json.dump({"property":pid,"part":j['part'],"note":"found on the unrepaired tree: "+j['message'][:240],"case":j['case']},open(f'/verif/regress/{pid}/{name}.json','w'),indent=1,ensure_ascii=False)
print("saved",len(seen),"regress cases")
PY
