//! Entry points shared by the libFuzzer targets (/verif/fuzzing/fuzz) and `vp fuzz-replay`: each decodes the raw
//! fuzz input into structured arguments and applies the SAME oracle as the corresponding property check.

use insim::net::Mode;

use crate::engine::{Fail, Local};
use crate::props::{c01, c02, c03, c04, c10, c12, c16, c17};
use crate::refs::image;
use crate::refs::spec::spec;

/// (target name, property id)
pub const TARGETS: &[(&str, &str)] = &[
    ("decode", "C04"),
    ("reencode", "C03"),
    ("frames", "C02"),
    ("roundtrip", "C01"),
    ("codepages", "C10"),
    ("escaping", "C12"),
    ("game_version", "C16"),
    ("pth", "C17"),
    ("smx", "C17"),
];

pub fn run(target: &str, data: &[u8]) -> Result<(), Fail> {
    let mut ev = Local::new();
    ev.frozen = true;
    match target {
        // C04: first byte selects the size mode, the rest is the receive buffer
        "decode" => {
            if data.is_empty() {
                return Ok(());
            }
            let mode = if data[0] & 1 == 1 { Mode::Compressed } else { Mode::Uncompressed };
            c04::judge(&data[1..], &mode).map(|_| ())
        },
        // C03: whatever the decoder accepts must re-encode to a well-formed frame (or be refused without a panic)
        "reencode" => {
            if data.is_empty() {
                return Ok(());
            }
            use crate::engine::Part;
            c03::AcceptedFrames.check(&c03::MutCase { compressed: data[0] & 1 == 1, frame: data[1..].to_vec() }, &mut ev)
        },
        // C02: byte 0 = mode, byte 1 = packet kind, rest = entropy tape for the reference codec
        "frames" | "roundtrip" => {
            if data.len() < 2 {
                return Ok(());
            }
            let compressed = data[0] & 1 == 1;
            let p = &spec().packets[data[1] as usize % spec().packets.len()];
            let case = c02::TapeCase { variant: p.variant.clone(), compressed, tape: data[2..].to_vec() };
            use crate::engine::Part;
            if target == "frames" {
                let mode = if compressed { Mode::Compressed } else { Mode::Uncompressed };
                let inst = image::from_tape(p, &mode, &case.tape, true);
                c02::judge_inst(&inst, &mode, "c02")
            } else {
                c01::Route1.check(&case, &mut ev)
            }
        },
        // C10: the input as wire bytes (decode side) and, when it is UTF-8, as text (encode side)
        "codepages" => {
            use crate::engine::Part;
            c10::RandomBytes.check(&data.to_vec(), &mut ev)?;
            if let Ok(s) = std::str::from_utf8(data) {
                c10::RandomUnicode.check(&s.to_string(), &mut ev)?;
                if !s.contains('^') && s.chars().all(crate::refs::cp::in_any_table) {
                    c10::Faithful.check(&s.to_string(), &mut ev)?;
                }
            }
            Ok(())
        },
        "escaping" => {
            use crate::engine::Part;
            let s = String::from_utf8_lossy(data).to_string();
            let encodable = s.chars().all(crate::refs::cp::in_any_table);
            c12::RandomText.check(&(s, encodable), &mut ev)
        },
        "game_version" => {
            use crate::engine::Part;
            let s = String::from_utf8_lossy(data).to_string();
            c16::RandomStrings.check(&s, &mut ev)
        },
        "pth" | "smx" => {
            let fmt = if target == "pth" { c17::Format::Pth } else { c17::Format::Smx };
            c17::judge(&c17::FileCase { fmt, bytes: data.to_vec(), canonical: false, cut_inside: false, label: "fuzz: raw input".into() }, &mut ev)
        },
        other => Err(Fail::new("harness:unknown-fuzz-target", other.to_string())),
    }
}

/// used inside fuzz_target!: panic with a recognisable message on a violation
pub fn run_or_panic(target: &str, data: &[u8]) {
    if let Err(f) = run(target, data) {
        if f.sig.starts_with("harness:") {
            return;
        }
        panic!("VERIF:{}:{}: {}", TARGETS.iter().find(|t| t.0 == target).map(|t| t.1).unwrap_or("?"), f.sig, f.msg);
    }
}

/// a small valid seed corpus for a target (reference frames of every kind, shipped files, golden strings)
pub fn seeds(target: &str) -> Vec<Vec<u8>> {
    let mut out: Vec<Vec<u8>> = vec![];
    match target {
        "decode" | "reencode" => {
            for (mi, mode) in [Mode::Uncompressed, Mode::Compressed].iter().enumerate() {
                for p in &spec().packets {
                    for tape in [&[][..], &[0x55u8; 64][..], &[0xffu8; 48][..]] {
                        let mut v = vec![mi as u8];
                        v.extend_from_slice(&image::from_tape(p, mode, tape, true).image);
                        out.push(v);
                    }
                }
            }
        },
        "frames" | "roundtrip" => {
            for k in 0..spec().packets.len() {
                for m in 0..2u8 {
                    out.push(vec![m, k as u8]);
                    let mut v = vec![m, k as u8];
                    v.extend((0..96u32).map(|i| (i.wrapping_mul(37) ^ k as u32) as u8));
                    out.push(v);
                }
            }
        },
        "codepages" => {
            for s in ["Hello", "^7Player ^Eě ^7: ^8cršč", "ﾏ美 16", "ÿþabc", "^^L", "^Jタ^L", "Árvíztűrő tükörfúrógép"] {
                out.push(s.as_bytes().to_vec());
            }
            out.push(vec![b'^', b'J', 0x83, 0x5e, b'L']);
            out.push(vec![b'^', b'H', 0xa4, 0x40, b'^', b'S', 0x81, 0x40]);
        },
        "escaping" => {
            for s in ["^|*:\\/?\"<>#123^945", "^L", "ł^8ł", "^^1234^56789", "a^"] {
                out.push(s.as_bytes().to_vec());
            }
        },
        "game_version" => {
            for s in ["0.7F", "0.6W43", "0.04k", "0.7E15", "1", "0.7F0", "a4k"] {
                out.push(s.as_bytes().to_vec());
            }
        },
        "pth" => {
            if let Ok(b) = std::fs::read("/repo/insim_pth/tests/AS1.pth") {
                out.push(b[..b.len().min(16 + 40 * 6)].to_vec());
            }
            out.push(c17::write_pth(&c17::PthFile { version: 0, revision: 0, finish: 1, nodes: vec![[1, 2, 3, 0x3f80_0000, 0, 0, 4, 5, 6, 7]; 2] }));
        },
        "smx" => {
            if let Ok(b) = std::fs::read("/repo/insim_smx/tests/Autocross_3DH.smx") {
                out.push(b[..b.len().min(600)].to_vec());
            }
            out.push(c17::write_smx(&c17::SmxFile {
                head: [0, 6, 0, 3, 1, 1],
                track: "Blackwood".into(),
                ground: [1, 2, 3],
                objects: vec![c17::SmxObject { header: [1, 2, 3, 4], points: vec![[1, 2, 3, 4]; 2], tris: vec![[0, 1, 2]] }],
                checkpoints: vec![0],
            }));
        },
        _ => {},
    }
    out
}
