//! Entry points shared by the libFuzzer targets (/verif/fuzzing/fuzz) and `vp fuzz-replay`: each decodes the raw
//! fuzz input into structured arguments and applies the SAME oracle as the corresponding property check.

use insim::net::Mode;

use crate::engine::{Fail, Local};
use crate::props::{c01, c02, c03, c04, c10, c12, c16, c17};
use crate::refs::image;
use crate::refs::spec::spec;

/// (target name, property id)
pub const TARGETS: &[(&str, &str)] = &[
    ("decode", "C04"),
    ("reencode", "C03"),
    ("frames", "C02"),
    ("roundtrip", "C01"),
    ("codepages", "C10"),
    ("escaping", "C12"),
    ("game_version", "C16"),
    ("pth", "C17"),
    ("smx", "C17"),
];

pub fn run(target: &str, data: &[u8]) -> Result<(), Fail> {
    let mut ev = Local::new();
    ev.frozen = true;
    match target {
        // C04: first byte selects the size mode, the rest is the receive buffer
        "decode" => {
            if data.is_empty() {
                return Ok(());
            }
            let mode = if data[0] & 1 == 1 { Mode::Compressed } else { Mode::Uncompressed };
            c04::judge(&data[1..], &mode).map(|_| ())
        },
        // C03: whatever the decoder accepts must re-encode to a well-formed frame (or be refused without a panic)
        "reencode" => {
            if data.is_empty() {
                return Ok(());
            }
            use crate::engine::Part;
            c03::AcceptedFrames.check(&c03::MutCase { compressed: data[0] & 1 == 1, frame: data[1..].to_vec() }, &mut ev)
        },
        // C02: byte 0 = mode, byte 1 = packet kind, rest = entropy tape for the reference codec
        "frames" | "roundtrip" => {
            if data.len() < 2 {
                return Ok(());
            }
            let compressed = data[0] & 1 == 1;
            let p = &spec().packets[data[1] as usize % spec().packets.len()];
            let case = c02::TapeCase { variant: p.variant.clone(), compressed, tape: data[2..].to_vec() };
            use crate::engine::Part;
            if target == "frames" {
                let mode = if compressed { Mode::Compressed } else { Mode::Uncompressed };
                let inst = image::from_tape(p, &mode, &case.tape, true);
                c02::judge_inst(&inst, &mode, "c02")
            } else {
                c01::Route1.check(&case, &mut ev)
            }
        },
        // C10: the input as wire bytes (decode side) and, when it is UTF-8, as text (encode side)
        "codepages" => {
            use crate::engine::Part;
            c10::RandomBytes.check(&data.to_vec(), &mut ev)?;
            if let Ok(s) = std::str::from_utf8(data) {
                c10::RandomUnicode.check(&s.to_string(), &mut ev)?;
                if !s.contains('^') && s.chars().all(crate::refs::cp::in_any_table) {
                    c10::Faithful.check(&s.to_string(), &mut ev)?;
                }
            }
            Ok(())
        },
        "escaping" => {
            use crate::engine::Part;
            let s = String::from_utf8_lossy(data).to_string();
            let encodable = s.chars().all(crate::refs::cp::in_any_table);
            c12::RandomText.check(&(s, encodable), &mut ev)
        },
        "game_version" => {
            use crate::engine::Part;
            let s = String::from_utf8_lossy(data).to_string();
            c16::RandomStrings.check(&s, &mut ev)
        },
        "pth" | "smx" => {
            let fmt = if target == "pth" { c17::Format::Pth } else { c17::Format::Smx };
            c17::judge(&c17::FileCase { fmt, bytes: data.to_vec(), canonical: false, cut_inside: false, label: "fuzz: raw input".into() }, &mut ev)
        },
        other => Err(Fail::new("harness:unknown-fuzz-target", other.to_string())),
    }
}

/// used inside fuzz_target!: panic with a recognisable message on a violation
pub fn run_or_panic(target: &str, data: &[u8]) {
    if let Err(f) = run(target, data) {
        if f.sig.starts_with("harness:") {
            return;
        }
        panic!("VERIF:{}:{}: {}", TARGETS.iter().find(|t| t.0 == target).map(|t| t.1).unwrap_or("?"), f.sig, f.msg);
    }
}
