//! vp — property-based testing / fuzzing harness for theangryangel/insim.rs (library part, shared by the
//! `vp` binary and the libFuzzer targets in /verif/fuzzing/fuzz).

#[macro_use]
pub mod engine;
pub mod fuzz_entry;
pub mod generated;
pub mod noise;
pub mod props;
pub mod refs;
pub mod transport;
