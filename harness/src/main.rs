//! vp — property-based testing / fuzzing harness for theangryangel/insim.rs
//!
//!   vp <ID> <quick|thorough>          run the check, write evidence/<ID>.json
//!   vp <ID> --replay <file>           re-judge one saved case
//!
//! exit 0 = held on everything explored, 1 = VIOLATION line printed, 2 = inconclusive.

use vp::engine::{self, Run, Tier};
use vp::props;

#[global_allocator]
static GLOBAL: engine::CountingAlloc = engine::CountingAlloc;

fn main() {
    engine::install_panic_hook();
    engine::maybe_install_trace_subscriber();
    let args: Vec<String> = std::env::args().collect();
    if args.len() < 3 {
        eprintln!("usage: vp <ID> <quick|thorough> | vp <ID> --replay <file>");
        std::process::exit(2);
    }
    if args[1] == "fuzz-targets" {
        // vp fuzz-targets <ID>: the libFuzzer targets that serve a property
        let id = args[2].to_uppercase();
        for (t, p) in vp::fuzz_entry::TARGETS {
            if *p == id {
                println!("{t}");
            }
        }
        std::process::exit(0);
    }
    if args[1] == "fuzz-seeds" {
        // vp fuzz-seeds <target> <dir>: write the seed corpus
        let (Some(target), Some(dir)) = (args.get(2), args.get(3)) else {
            eprintln!("usage: vp fuzz-seeds <target> <dir>");
            std::process::exit(2);
        };
        let _ = std::fs::create_dir_all(dir);
        let seeds = vp::fuzz_entry::seeds(target);
        for (i, s) in seeds.iter().enumerate() {
            let _ = std::fs::write(format!("{dir}/seed-{i:04}"), s);
        }
        println!("{} seeds", seeds.len());
        std::process::exit(0);
    }
    if args[1] == "fuzz-replay" {
        // vp fuzz-replay <target> <file>: re-judge a raw libFuzzer input with the property's oracle
        let (Some(target), Some(path)) = (args.get(2), args.get(3)) else {
            eprintln!("usage: vp fuzz-replay <target> <file>");
            std::process::exit(2);
        };
        let Ok(data) = std::fs::read(path) else {
            eprintln!("cannot read {path}");
            std::process::exit(2);
        };
        let id = vp::fuzz_entry::TARGETS.iter().find(|t| t.0 == target.as_str()).map(|t| t.1).unwrap_or("?");
        match vp::fuzz_entry::run(target, &data) {
            Ok(()) => {
                println!("fuzz-replay {target} {path}: property holds on this input");
                std::process::exit(0);
            },
            Err(f) => {
                let known = engine::load_known(id);
                if known.iter().any(|k| k.sig == f.sig) {
                    println!("KNOWN-FINDING: property={id} signature={} {}", f.sig, f.msg);
                    std::process::exit(0);
                }
                println!("fuzz-replay {target}: {}: {}", f.sig, f.msg);
                println!("VIOLATION property={id} replay={path}");
                std::process::exit(1);
            },
        }
    }
    let id = args[1].to_uppercase();
    let Some(prop) = props::ALL.iter().find(|p| p.id == id) else {
        eprintln!("unknown property {id}");
        std::process::exit(2);
    };
    if args[2] == "--replay" {
        let Some(path) = args.get(3) else {
            eprintln!("--replay needs a file");
            std::process::exit(2);
        };
        let parts = (prop.parts)();
        let refs: Vec<&dyn engine::DynPart> = parts.iter().map(|b| b.as_ref()).collect();
        std::process::exit(engine::replay_file(prop.id, path, &refs));
    }
    let tier = match args[2].as_str() {
        "quick" => Tier::Quick,
        "thorough" => Tier::Thorough,
        other => {
            eprintln!("unknown tier {other}");
            std::process::exit(2);
        },
    };
    let seed = std::env::var("VERIF_SEED")
        .ok()
        .and_then(|s| s.trim().parse::<i64>().ok())
        .map(|v| v as u64)
        .unwrap_or(20260927);
    let mut run = Run::new(prop.id, tier, seed);
    {
        let parts = (prop.parts)();
        let refs: Vec<&dyn engine::DynPart> = parts.iter().map(|b| b.as_ref()).collect();
        run.regress(&refs);
    }
    (prop.run)(&mut run);
    std::process::exit(run.finish());
}
