//! Lists extracted from /repo by build.rs.
include!(concat!(env!("OUT_DIR"), "/gen.rs"));
