//! C12 — escaping makes arbitrary text wire-safe; colour stripping is exact.

use insim_core::string::{codepages, colours, escaping};
use proptest::prelude::*;
use serde_json::{json, Value};

use crate::engine::*;

const RESERVED: [char; 10] = ['|', '*', ':', '\\', '/', '?', '"', '<', '>', '#'];

/// token model of colour stripping: `^^` is one atomic token (kept), `^d` is removed, the rest is kept
pub fn strip_model(s: &str) -> String {
    let cs: Vec<char> = s.chars().collect();
    let mut out = String::new();
    let mut i = 0;
    while i < cs.len() {
        if cs[i] == '^' && i + 1 < cs.len() {
            if cs[i + 1] == '^' {
                out.push('^');
                out.push('^');
                i += 2;
                continue;
            }
            if cs[i + 1].is_ascii_digit() {
                i += 2;
                continue;
            }
        }
        out.push(cs[i]);
        i += 1;
    }
    out
}

fn has_colour_token(s: &str) -> bool {
    strip_model(s) != s
}

/// the raw reserved characters must not appear in escaped output, except as the second half of an escape pair —
/// none of the pair letters is itself reserved, so "contains none of them" is literal.
fn judge(s: &str, ev: &mut Local, codepage_leg: bool) -> Result<(), Fail> {
    let esc = guard(|| escaping::escape(s).into_owned()).map_err(|p| Fail::new("c12:escape-panic", format!("{s:?}: {p}")))?;
    if let Some(c) = esc.chars().find(|c| RESERVED.contains(c)) {
        fail!("c12:reserved-char-survives-escape", "escape({s:?}) = {esc:?} contains raw {c:?}");
    }
    let un = guard(|| escaping::unescape(&esc).into_owned()).map_err(|p| Fail::new("c12:unescape-panic", format!("{esc:?}: {p}")))?;
    ensure!(un == s, "c12:unescape-escape-differs", "{s:?} -> escape {esc:?} -> unescape {un:?}");

    if codepage_leg {
        let bytes = guard(|| codepages::to_lossy_bytes(&esc).into_owned())
            .map_err(|p| Fail::new("c12:encode-panic", format!("{esc:?}: {p}")))?;
        let text = guard(|| codepages::to_lossy_string(&bytes).into_owned())
            .map_err(|p| Fail::new("c12:decode-panic", format!("{:02x?}: {p}", bytes)))?;
        let back = escaping::unescape(&text).into_owned();
        if back != s {
            // classify the root cause: an escaped caret directly followed by a codepage letter
            let sig = if text != esc && esc.contains("^^") {
                "c12:escaped-caret-before-marker-letter"
            } else {
                "c12:codepage-path-differs"
            };
            fail!(sig, "{s:?} -> escape {esc:?} -> wire {} -> decode {text:?} -> unescape {back:?}", hex(&bytes));
        }
    }

    // strip
    let st = guard(|| colours::strip(s).into_owned()).map_err(|p| Fail::new("c12:strip-panic", format!("{s:?}: {p}")))?;
    let model = strip_model(s);
    ensure!(st == model, "c12:strip-differs-from-token-model", "strip({s:?}) = {st:?}, model {model:?}");
    let st2 = colours::strip(&st).into_owned();
    ensure!(st2 == st, "c12:strip-not-idempotent", "strip({s:?}) = {st:?}, again {st2:?}");
    if !has_colour_token(s) {
        ensure!(st == s, "c12:strip-changes-colourless-text", "{s:?} -> {st:?}");
    }
    // stripping the escaped form leaves escaped carets alone: unescape(strip(escape(s))) has the same
    // non-colour content as s
    let carets = s.chars().filter(|c| *c == '^').count();
    if carets >= 2 || (carets == 1 && s.chars().any(|c| c.is_ascii_alphabetic())) {
        ev.class("multi-caret-or-caret-letter");
    } else if carets == 1 {
        ev.class("single-caret");
    } else {
        ev.class("no-caret");
    }
    Ok(())
}

fn nontrivial(s: &str) -> bool {
    let cs: Vec<char> = s.chars().collect();
    let carets = cs.iter().filter(|c| **c == '^').count();
    carets >= 2 || cs.windows(2).any(|w| w[0] == '^' && w[1].is_alphabetic())
}

const ALPHABET: [char; 16] = ['^', '0', '8', '9', 'v', 'h', 'a', '|', '#', '?', '"', 'L', 'J', 'x', 'é', '美'];

fn nth(mut i: u64, maxlen: u32) -> Option<String> {
    let mut len = 0u32;
    let mut block = 1u64;
    loop {
        if i < block {
            break;
        }
        i -= block;
        len += 1;
        block *= 16;
        if len > maxlen {
            return None;
        }
    }
    let mut s: Vec<char> = vec![];
    for _ in 0..len {
        s.push(ALPHABET[(i % 16) as usize]);
        i /= 16;
    }
    s.reverse();
    Some(s.into_iter().collect())
}

pub struct Alphabet;
impl Part for Alphabet {
    type Case = String;
    fn name(&self) -> &'static str {
        "class-alphabet-strings"
    }
    fn check(&self, s: &String, ev: &mut Local) -> Result<(), Fail> {
        judge(s, ev, true)?;
        if nontrivial(s) {
            ev.nontrivial_distinct();
            if s.chars().count() >= 4 {
                ev.sample(|| json!({"s": s, "escape": escaping::escape(s), "strip": colours::strip(s)}));
            }
        }
        Ok(())
    }
    fn to_json(&self, c: &String) -> Value {
        json!({"s": c})
    }
    fn from_json(&self, v: &Value) -> Option<String> {
        Some(v.get("s")?.as_str()?.to_string())
    }
}

/// random Unicode strings; the codepage leg only runs when every character is encodable
pub struct RandomText;
impl Part for RandomText {
    type Case = (String, bool);
    fn name(&self) -> &'static str {
        "random-text"
    }
    fn check(&self, c: &(String, bool), ev: &mut Local) -> Result<(), Fail> {
        judge(&c.0, ev, c.1)?;
        if nontrivial(&c.0) {
            ev.nontrivial(&c.0);
            ev.sample(|| json!({"s": c.0, "codepage_leg": c.1, "escape": escaping::escape(&c.0)}));
        }
        Ok(())
    }
    fn to_json(&self, c: &(String, bool)) -> Value {
        json!({"s": c.0, "codepage_leg": c.1})
    }
    fn from_json(&self, v: &Value) -> Option<(String, bool)> {
        Some((v.get("s")?.as_str()?.to_string(), v.get("codepage_leg")?.as_bool()?))
    }
}

fn random_strategy() -> impl Strategy<Value = (String, bool)> {
    // encodable repertoire: ASCII + characters present in the reference tables (a fixed sample per codepage)
    let tables = crate::refs::cp::tables();
    let awkward: Vec<char> = tables
        .iter()
        .flat_map(|t| t.entries.iter())
        .filter(|(w, _)| w.len() == 2 && (w[1] == 0x5E || w[1] >= 0x81))
        .map(|(_, c)| *c)
        .step_by(37)
        .collect();
    let encodable: Vec<char> = "éüßñÿ€ωλΞшюЖěšłűışğūņķ美日本ﾏ한글가漢字你好".chars().collect();
    let enc = proptest::collection::vec(
        prop_oneof![
            6 => Just('^'),
            3 => proptest::char::range('0', '9'),
            4 => prop::sample::select("vacdsqtlrhLGCETBJHSK8".chars().collect::<Vec<_>>()),
            3 => prop::sample::select(RESERVED.to_vec()),
            3 => proptest::char::range(' ', '~'),
            3 => prop::sample::select(encodable),
            // any character of the ten reference repertoires (double-byte characters with every lead / trail byte shape,
            // e.g. a trail byte that is a caret or lies in the lead-byte range)
            3 => (0..tables.len(), any::<prop::sample::Index>()).prop_map(move |(t, ix)| {
                let e = &tables[t].entries;
                e[ix.index(e.len())].1
            }),
            // double-byte characters whose trail byte is '^' (0x5E) or a lead byte, next to carets and codepage letters
            2 => prop::sample::select(awkward),
        ],
        0..64,
    )
    .prop_map(|v| (v.into_iter().collect::<String>(), true));
    let any = proptest::collection::vec(
        prop_oneof![
            6 => Just('^'),
            3 => proptest::char::range('0', '9'),
            3 => prop::sample::select(RESERVED.to_vec()),
            6 => any::<char>(),
        ],
        0..64,
    )
    .prop_map(|v| (v.into_iter().collect::<String>(), false));
    prop_oneof![2 => enc, 1 => any]
}

// ------------------------------------------------------------------ the sender / receiver path through packets
/// "unescaping what the receiver decodes gives back exactly what the sender wrote": the escaped text is sent in a text field of
/// a packet (encode, decode) and the received text unescaped. Texts are padded with leading ASCII so that their encoded form
/// fills the field exactly, or leaves one byte (what is cut or dropped at the end of a full field is the risk); a text whose
/// encoded form does not fit the field is out of scope here (C11 covers truncation).
#[derive(Clone, Debug)]
pub struct FieldCase {
    pub s: String,
    pub field: usize,
    /// 0: as it is, 1: padded to the field's capacity, 2: to one byte less
    pub fill: u8,
    pub compressed: bool,
}

pub struct ThroughPackets;
impl Part for ThroughPackets {
    type Case = FieldCase;
    fn name(&self) -> &'static str {
        "escaped-text-through-packet-fields"
    }
    fn check(&self, c: &FieldCase, ev: &mut Local) -> Result<(), Fail> {
        use crate::refs::build;
        use crate::refs::compare::{decode_one, encode_one, mode_name};
        let (variant, path) = build::TEXT_FIELDS[c.field % build::TEXT_FIELDS.len()];
        let (cap, raw) = crate::props::c01::text_capacity(variant, path);
        if raw || variant == "Mso" {
            ev.class("raw or composite field: skipped");
            return Ok(());
        }
        let mode = if c.compressed { insim::net::Mode::Compressed } else { insim::net::Mode::Uncompressed };
        let wire_len = |t: &str| codepages::to_lossy_bytes(&escaping::escape(t)).len();
        let mut s = c.s.clone();
        let target = match c.fill {
            1 => cap,
            2 => cap.saturating_sub(1),
            _ => 0,
        };
        let have = wire_len(&s);
        if have < target {
            s = format!("{}{s}", "a".repeat(target - have));
        }
        let esc = escaping::escape(&s).into_owned();
        let bytes = codepages::to_lossy_bytes(&esc).into_owned();
        if bytes.len() > cap {
            ev.class("does not fit the field: skipped");
            return Ok(());
        }
        // what the receiver's decoder makes of these bytes (part 1 / 2 check that unescaping it gives s)
        let text = codepages::to_lossy_string(&bytes).into_owned();
        if escaping::unescape(&text) != s {
            ev.class("not an encodable text: skipped");
            return Ok(());
        }
        let name = format!("{variant}.{path}");
        let sent = build::text_packet(variant, path, &esc, 1).ok_or_else(|| Fail::new("harness:builder", name.clone()))?;
        let want = build::text_packet(variant, path, &text, 1).ok_or_else(|| Fail::new("harness:builder", name.clone()))?;
        let frame = encode_one(&sent, &mode).map_err(|e| Fail::new(format!("c12:packet-refused:{name}"), format!("{name} ({}): {esc:?} ({} encoded bytes, capacity {cap}): {e}", mode_name(&mode), bytes.len())))?;
        let got = decode_one(&frame, &mode).map_err(|e| Fail::new(format!("c12:own-frame-rejected:{name}"), format!("{name}: {esc:?}: {e}")))?;
        ensure!(
            format!("{got:?}") == format!("{want:?}"),
            format!("c12:sender-receiver-path-differs:{name}"),
            "{name} ({}): the sender wrote {s:?}, escaped {esc:?} ({} encoded bytes in a field of capacity {cap}); frame {}; the receiver got {} - unescaped, that is not what was written (expected {})",
            mode_name(&mode),
            bytes.len(),
            hex(&frame[..frame.len().min(140)]),
            format!("{got:?}").chars().take(300).collect::<String>(),
            format!("{want:?}").chars().take(300).collect::<String>()
        );
        ev.class(if bytes.len() == cap { "fills the field exactly" } else if bytes.len() + 1 == cap { "one byte short of the field" } else { "shorter" });
        ev.class(&name);
        if !s.is_ascii() || s.contains('^') {
            ev.nontrivial(&(c.field, &s, c.compressed));
        }
        Ok(())
    }
    fn to_json(&self, c: &FieldCase) -> Value {
        json!({"s": c.s, "field": c.field, "fill": c.fill, "compressed": c.compressed})
    }
    fn from_json(&self, v: &Value) -> Option<FieldCase> {
        Some(FieldCase { s: v.get("s")?.as_str()?.to_string(), field: v.get("field")?.as_u64()? as usize, fill: v.get("fill")?.as_u64()? as u8, compressed: v.get("compressed")?.as_bool()? })
    }
}

fn field_strategy() -> impl Strategy<Value = FieldCase> {
    // short encodable texts (the padding brings them to the field's size): carets, codepage letters, double-byte characters
    // whose trail byte is a caret or lead-like - mostly at the END of the text, where a full field is cut
    let tables = crate::refs::cp::tables();
    let awkward: Vec<char> = tables.iter().flat_map(|t| t.entries.iter()).filter(|(w, _)| w.len() == 2 && (w[1] == 0x5E || w[1] >= 0x81)).map(|(_, c)| *c).step_by(11).collect();
    let ch = prop_oneof![
        4 => Just('^'),
        2 => proptest::char::range('0', '9'),
        2 => prop::sample::select("LGCETBJHSK8".chars().collect::<Vec<_>>()),
        2 => prop::sample::select(RESERVED.to_vec()),
        2 => proptest::char::range(' ', '~'),
        3 => prop::sample::select("éüßñ€ωшюěłış美日本ﾏ한글漢字".chars().collect::<Vec<_>>()),
        4 => prop::sample::select(awkward),
    ];
    (proptest::collection::vec(ch, 0..8), 0usize..crate::refs::build::TEXT_FIELDS.len(), 0u8..3, any::<bool>()).prop_map(|(v, field, fill, compressed)| FieldCase { s: v.into_iter().collect(), field, fill, compressed })
}

/// long runs: strings whose number of reserved characters / carets / colour tokens sits at and around 255, 256, 257, 511, 512,
/// 513, 65 535, 65 536, 65 537 (a counter narrower than usize, a capacity threshold)
pub struct LongRuns;
impl Part for LongRuns {
    /// (unit string, repetitions, filler between units)
    type Case = (String, usize, String);
    fn name(&self) -> &'static str {
        "long-runs-of-reserved-characters"
    }
    fn check(&self, c: &(String, usize, String), ev: &mut Local) -> Result<(), Fail> {
        let mut s = String::with_capacity((c.0.len() + c.2.len()) * c.1);
        for _ in 0..c.1 {
            s.push_str(&c.0);
            s.push_str(&c.2);
        }
        let mut scratch = Local::new();
        scratch.frozen = true;
        // the long string is not echoed into the failure message
        judge(&s, &mut scratch, c.1 <= 600).map_err(|f| Fail::new(f.sig.clone(), format!("{:?} x {} (filler {:?}): {}", c.0, c.1, c.2, f.msg.chars().take(160).collect::<String>())))?;
        ev.nontrivial(c);
        Ok(())
    }
    fn to_json(&self, c: &(String, usize, String)) -> Value {
        json!({"unit": c.0, "repetitions": c.1, "filler": c.2})
    }
    fn from_json(&self, v: &Value) -> Option<(String, usize, String)> {
        Some((v.get("unit")?.as_str()?.to_string(), v.get("repetitions")?.as_u64()? as usize, v.get("filler")?.as_str()?.to_string()))
    }
}

pub fn parts() -> Vec<Box<dyn DynPart>> {
    vec![Box::new(Alphabet), Box::new(RandomText), Box::new(ThroughPackets), Box::new(LongRuns)]
}

pub fn run(run: &mut Run) {
    let maxlen = run.budget(5, 6) as u32;
    run.rule = format!(
        "All strings of length <= {maxlen} over 16 character-class representatives {ALPHABET:?} (complete), plus runs of 254..65 537 reserved characters / carets / colour tokens, plus random strings \
         of up to 64 characters with ~25% carets (proptest). Oracles: unescape(escape(s)) == s; escape(s) contains no raw \
         reserved character; unescape(decode(encode(escape(s)))) == s for encodable text; strip == token model, idempotent, \
         identity on colourless text. Sender / receiver path: the escaped text is sent in a text field of a packet, padded so that its encoded form fills the field exactly or leaves one byte, and what the receiver decodes is unescaped. Non-trivial = >= 2 carets or a caret followed by a letter."
    );
    run.assumptions = vec!["token model of strip: `^^` atomic and kept, `^0`..`^9` removed, everything else kept".into()];
    let total: u64 = (0..=maxlen).map(|k| 16u64.pow(k)).sum();
    run.enumerate(&Alphabet, total, true, |i| nth(i, maxlen));
    let n = run.budget(400_000, 30_000_000);
    run.prop(&RandomText, random_strategy(), n);
    // the sender / receiver path through the text fields of packets, texts filling the field exactly
    let n = run.budget(150_000, 5_000_000);
    run.prop(&ThroughPackets, field_strategy(), n);
    // long runs around the widths of a narrow counter
    let mut runs: Vec<(String, usize, String)> = vec![];
    for unit in ["^", "/", "|", "*", ":", "\\", "?", "\"", "<", ">", "#", "^1", "^^", "^h", "a^"] {
        for n in [254usize, 255, 256, 257, 258, 511, 512, 513, 1024, 65_535, 65_536, 65_537] {
            for filler in ["", "x"] {
                runs.push((unit.to_string(), n, filler.to_string()));
            }
        }
    }
    run.list(&LongRuns, "long-runs-of-reserved-characters", runs);
}
