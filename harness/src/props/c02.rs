//! C02 — wire layout conforms to the InSim v9 / relay specification (independent table-driven reference codec).

use insim::net::Mode;
use proptest::prelude::*;
use serde_json::{json, Value};

use crate::engine::*;
use crate::refs::compare::*;
use crate::refs::image::{self, Inst};
use crate::refs::spec::{coverage_problem, spec};

/// judge one reference instance in both directions
pub fn judge_inst(inst: &Inst, mode: &Mode, prefix: &str) -> Result<(), Fail> {
    // decode direction: a specification-conformant frame must decode, completely, to the values it carries
    let pkt = match decode_one(&inst.image, mode) {
        Ok(p) => p,
        Err(e) => {
            return Err(Fail::new(
                format!("{prefix}:conformant-frame-rejected:{}", inst.variant),
                format!("{} ({}): {e}; frame {}", inst.variant, inst.label, hex(&inst.image)),
            ))
        },
    };
    check_decoded(inst, &pkt, prefix)?;
    // encode direction: the typed value must go back to exactly the specification's image
    if inst.encode_comparable {
        match encode_one(&pkt, mode) {
            Ok(out) => check_encoded(inst, &out, prefix)?,
            Err(e) => {
                return Err(Fail::new(
                    format!("{prefix}:encode-refused:{}", inst.variant),
                    format!("{} decoded from a conformant frame cannot be encoded: {e}; frame {}", inst.variant, hex(&inst.image)),
                ))
            },
        }
    }
    Ok(())
}

#[derive(Clone, Debug)]
pub struct HotCase {
    pub variant: String,
    pub compressed: bool,
    pub target: Option<(String, usize)>,
}

pub struct OneHot;
impl Part for OneHot {
    type Case = HotCase;
    fn name(&self) -> &'static str {
        "one-hot-sweep"
    }
    fn check(&self, c: &HotCase, ev: &mut Local) -> Result<(), Fail> {
        let p = spec().packet(&c.variant).ok_or_else(|| Fail::new("harness:variant", c.variant.clone()))?;
        let mode = if c.compressed { Mode::Compressed } else { Mode::Uncompressed };
        let inst = image::one_hot(p, &mode, c.target.as_ref().map(|(p, k)| (p.as_str(), *k)));
        judge_inst(&inst, &mode, "c02")?;
        if inst.image[3..].iter().any(|b| *b != 0) {
            ev.nontrivial_distinct();
        }
        ev.class(&c.variant);
        if c.target.is_some() && ev.wants_sample() && c.variant.len() % 3 == 0 {
            ev.sample(|| json!({"kind": c.variant, "mode": mode_name(&mode), "field": c.target.as_ref().map(|t| t.0.clone()), "choice": c.target.as_ref().map(|t| t.1), "frame": hex(&inst.image)}));
        }
        Ok(())
    }
    fn to_json(&self, c: &HotCase) -> Value {
        json!({"kind": c.variant, "compressed": c.compressed, "field": c.target.as_ref().map(|t| t.0.clone()), "choice": c.target.as_ref().map(|t| t.1)})
    }
    fn from_json(&self, v: &Value) -> Option<HotCase> {
        let target = match (v.get("field").and_then(|f| f.as_str()), v.get("choice").and_then(|c| c.as_u64())) {
            (Some(f), Some(k)) => Some((f.to_string(), k as usize)),
            _ => None,
        };
        Some(HotCase { variant: v.get("kind")?.as_str()?.to_string(), compressed: v.get("compressed")?.as_bool()?, target })
    }
}

#[derive(Clone, Debug)]
pub struct TapeCase {
    pub variant: String,
    pub compressed: bool,
    pub tape: Vec<u8>,
}

pub struct RandomImages;
impl Part for RandomImages {
    type Case = TapeCase;
    fn name(&self) -> &'static str {
        "random-images"
    }
    fn check(&self, c: &TapeCase, ev: &mut Local) -> Result<(), Fail> {
        let p = spec().packet(&c.variant).ok_or_else(|| Fail::new("harness:variant", c.variant.clone()))?;
        let mode = if c.compressed { Mode::Compressed } else { Mode::Uncompressed };
        let inst = image::from_tape(p, &mode, &c.tape, true);
        judge_inst(&inst, &mode, "c02")?;
        if inst.image[3..].iter().any(|b| *b != 0) {
            ev.nontrivial(&inst.image);
        }
        ev.class(&c.variant);
        if !inst.label.is_empty() {
            ev.class(&format!("shape:{}", inst.label.split(',').next().unwrap()));
        }
        ev.max("frame-length", inst.image.len() as u64);
        if ev.wants_sample() && inst.image.len() > 8 && inst.image.len() < 60 {
            ev.sample(|| json!({"kind": c.variant, "mode": mode_name(&mode), "frame": hex(&inst.image), "fields_asserted": inst.expects.len()}));
        }
        Ok(())
    }
    fn to_json(&self, c: &TapeCase) -> Value {
        json!({"kind": c.variant, "compressed": c.compressed, "tape": hex(&c.tape)})
    }
    fn from_json(&self, v: &Value) -> Option<TapeCase> {
        Some(TapeCase { variant: v.get("kind")?.as_str()?.to_string(), compressed: v.get("compressed")?.as_bool()?, tape: unhex(v.get("tape")?.as_str()?)? })
    }
}

pub fn tape_strategy() -> impl Strategy<Value = TapeCase> {
    let n = spec().packets.len();
    (0..n, any::<bool>(), proptest::collection::vec(any::<u8>(), 0..600)).prop_map(|(k, compressed, tape)| TapeCase {
        variant: spec().packets[k].variant.clone(),
        compressed,
        tape,
    })
}

pub fn hot_cases() -> Vec<HotCase> {
    let mut v = vec![];
    for p in &spec().packets {
        for compressed in [false, true] {
            v.push(HotCase { variant: p.variant.clone(), compressed, target: None });
            for (path, n) in image::targets(p) {
                for k in 0..n {
                    v.push(HotCase { variant: p.variant.clone(), compressed, target: Some((path.clone(), k)) });
                }
            }
        }
    }
    v
}

pub fn parts() -> Vec<Box<dyn DynPart>> {
    vec![Box::new(OneHot), Box::new(RandomImages), Box::new(crate::props::c03::OneCodec("c02"))]
}

pub fn run(run: &mut Run) {
    if let Some(p) = coverage_problem() {
        eprintln!("HARNESS OUT OF DATE: {p}");
        std::process::exit(2);
    }
    let s = spec();
    let fields: usize = s.packets.iter().map(|p| image::targets(p).len()).sum();
    run.rule = format!(
        "Frames are built by an independent table-driven reference codec from spec/insim9.spec ({} packet kinds, {fields} leaf fields, \
         transcribed from InSim.txt v9 / InSim-Relay with explicit offsets that must tile each packet exactly). (1) systematic one-hot \
         sweep: for every kind, every field, every enumerant / single flag bit / boundary integer / text shape with all other fields \
         zero, both size modes; (2) random full assignments from an entropy tape (proptest, shrinkable). Oracle: decode(reference \
         image) shows the expected rendering at every `sure` field's path; encode(decode(image)) == image byte for byte (non-ASCII \
         text ranges compared through the reference codepage decoder). Non-trivial = some byte after the header is non-zero.",
        s.packets.len()
    );
    run.assumptions = vec![
        "spec/insim9.spec is a faithful transcription of InSim.txt v9 / the InSim-Relay page (written from memory; fields tagged ?unit/?opaque are not asserted against it)".into(),
        "typed values are observed through the packets' derived Debug rendering (public fields) plus bits() for the LCS/LCL flag words".into(),
    ];
    let hot = hot_cases();
    run.extra.insert("kinds".into(), json!(s.packets.len()));
    run.extra.insert("leaf_fields".into(), json!(fields));
    let n = hot.len() as u64;
    run.enumerate(&OneHot, n, false, |i| Some(hot[i as usize].clone()));
    let n = run.budget(73 * 2 * 500, 73 * 2 * 20_000);
    run.prop(&RandomImages, tape_strategy(), n);
    // the layout must not depend on what the codec was asked to encode before (a connection keeps one codec): sequences with
    // refused packets among them, every frame compared with a fresh codec's
    let n = run.budget(30_000, 1_500_000);
    run.prop(&crate::props::c03::OneCodec("c02"), crate::props::c03::seq_strategy(), n);
}
