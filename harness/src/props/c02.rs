//! C02 — wire layout conforms to the InSim v9 / relay specification (independent table-driven reference codec).

use insim::net::Mode;
use proptest::prelude::*;
use serde_json::{json, Value};

use crate::engine::*;
use crate::refs::compare::*;
use crate::refs::image::{self, Inst};
use crate::refs::spec::{coverage_problem, spec};

/// judge one reference instance in both directions
pub fn judge_inst(inst: &Inst, mode: &Mode, prefix: &str) -> Result<(), Fail> {
    // decode direction: a specification-conformant frame must decode, completely, to the values it carries
    let pkt = match decode_one(&inst.image, mode) {
        Ok(p) => p,
        Err(e) => {
            return Err(Fail::new(
                format!("{prefix}:conformant-frame-rejected:{}", inst.variant),
                format!("{} ({}): {e}; frame {}", inst.variant, inst.label, hex(&inst.image)),
            ))
        },
    };
    check_decoded(inst, &pkt, prefix)?;
    // encode direction: the typed value must go back to exactly the specification's image
    if inst.encode_comparable {
        match encode_one(&pkt, mode) {
            Ok(out) => check_encoded(inst, &out, prefix)?,
            Err(e) => {
                return Err(Fail::new(
                    format!("{prefix}:encode-refused:{}", inst.variant),
                    format!("{} decoded from a conformant frame cannot be encoded: {e}; frame {}", inst.variant, hex(&inst.image)),
                ))
            },
        }
    }
    Ok(())
}

#[derive(Clone, Debug)]
pub struct HotCase {
    pub variant: String,
    pub compressed: bool,
    pub target: Option<(String, usize)>,
}

pub struct OneHot;
impl Part for OneHot {
    type Case = HotCase;
    fn name(&self) -> &'static str {
        "one-hot-sweep"
    }
    fn check(&self, c: &HotCase, ev: &mut Local) -> Result<(), Fail> {
        let p = spec().packet(&c.variant).ok_or_else(|| Fail::new("harness:variant", c.variant.clone()))?;
        let mode = if c.compressed { Mode::Compressed } else { Mode::Uncompressed };
        let inst = image::one_hot(p, &mode, c.target.as_ref().map(|(p, k)| (p.as_str(), *k)));
        judge_inst(&inst, &mode, "c02")?;
        // the layout must not depend on the sink either: the packet written directly (the public BinWrite entry point) into a
        // sink that accepts 1 / 3,2 bytes per call gives the bytes the codec gives; a write that fails half-way leaves nothing
        // behind that changes the next encoding
        if let Ok(pkt) = decode_one(&inst.image, &mode) {
            use insim_core::binrw::BinWrite;
            if let Ok(reference) = encode_one(&pkt, &mode) {
                for pattern in [&[1usize][..], &[3, 2]] {
                    let mut sink = TrickleSink::new(pattern);
                    let r = guard(|| pkt.write(&mut sink).map_err(|e| e.to_string())).map_err(|p| Fail::new(format!("c02:panic:{}", inst.variant), p))?;
                    ensure!(
                        r.is_ok() && sink.bytes() == &reference[1..],
                        format!("c02:layout-depends-on-the-sink:{}", inst.variant),
                        "{}: written into a sink accepting {pattern:?} bytes per call: {:?}, {} bytes {} (codec: {} bytes {})",
                        inst.variant,
                        r,
                        sink.bytes().len(),
                        hex(&sink.bytes()[..sink.bytes().len().min(24)]),
                        reference.len() - 1,
                        hex(&reference[1..reference.len().min(25)])
                    );
                }
                let mut full = TrickleSink::failing_after(reference.len() / 2);
                let _ = guard(|| pkt.write(&mut full).map_err(|e| e.to_string()));
                let again = encode_one(&pkt, &mode).map_err(|e| Fail::new(format!("c02:encode-refused:{}", inst.variant), e))?;
                ensure!(again == reference, format!("c02:layout-depends-on-the-sink:{}", inst.variant), "{}: after a write that failed half-way the packet encodes to {} instead of {}", inst.variant, hex(&again[..again.len().min(32)]), hex(&reference[..reference.len().min(32)]));
            }
        }
        if inst.image[3..].iter().any(|b| *b != 0) {
            ev.nontrivial_distinct();
        }
        ev.class(&c.variant);
        if c.target.is_some() && ev.wants_sample() && c.variant.len() % 3 == 0 {
            ev.sample(|| json!({"kind": c.variant, "mode": mode_name(&mode), "field": c.target.as_ref().map(|t| t.0.clone()), "choice": c.target.as_ref().map(|t| t.1), "frame": hex(&inst.image)}));
        }
        Ok(())
    }
    fn to_json(&self, c: &HotCase) -> Value {
        json!({"kind": c.variant, "compressed": c.compressed, "field": c.target.as_ref().map(|t| t.0.clone()), "choice": c.target.as_ref().map(|t| t.1)})
    }
    fn from_json(&self, v: &Value) -> Option<HotCase> {
        let target = match (v.get("field").and_then(|f| f.as_str()), v.get("choice").and_then(|c| c.as_u64())) {
            (Some(f), Some(k)) => Some((f.to_string(), k as usize)),
            _ => None,
        };
        Some(HotCase { variant: v.get("kind")?.as_str()?.to_string(), compressed: v.get("compressed")?.as_bool()?, target })
    }
}

#[derive(Clone, Debug)]
pub struct TapeCase {
    pub variant: String,
    pub compressed: bool,
    pub tape: Vec<u8>,
}

pub struct RandomImages;
impl Part for RandomImages {
    type Case = TapeCase;
    fn name(&self) -> &'static str {
        "random-images"
    }
    fn check(&self, c: &TapeCase, ev: &mut Local) -> Result<(), Fail> {
        let p = spec().packet(&c.variant).ok_or_else(|| Fail::new("harness:variant", c.variant.clone()))?;
        let mode = if c.compressed { Mode::Compressed } else { Mode::Uncompressed };
        let inst = image::from_tape(p, &mode, &c.tape, true);
        judge_inst(&inst, &mode, "c02")?;
        // the layout must not depend on the reader: the public BinRead entry point, given readers that deliver 1 / 3,2 / 7 bytes
        // per call, yields the packet it yields from a slice
        {
            use insim_core::binrw::BinRead;
            let body = &inst.image[1..];
            let whole = guard(|| insim::Packet::read(&mut std::io::Cursor::new(body)).map(|p| format!("{p:?}")).map_err(|_| ())).map_err(|p| Fail::new(format!("c02:panic:{}", inst.variant), p))?;
            for pattern in [&[1usize][..], &[3, 2], &[7]] {
                let got = guard(|| {
                    let mut t = Trickle::new(body, pattern);
                    insim::Packet::read(&mut t).map(|p| format!("{p:?}")).map_err(|_| ())
                })
                .map_err(|p| Fail::new(format!("c02:panic:{}", inst.variant), p))?;
                ensure!(
                    got == whole,
                    format!("c02:layout-depends-on-the-reader:{}", inst.variant),
                    "{} frame {}: from a slice {}, from a reader delivering {pattern:?} bytes per call {}",
                    inst.variant,
                    hex(&inst.image[..inst.image.len().min(48)]),
                    whole.as_ref().map(|s| s.chars().take(200).collect::<String>()).unwrap_or("rejected".into()),
                    got.as_ref().map(|s| s.chars().take(200).collect::<String>()).unwrap_or("rejected".into())
                );
            }
        }
        if inst.image[3..].iter().any(|b| *b != 0) {
            ev.nontrivial(&inst.image);
        }
        ev.class(&c.variant);
        if !inst.label.is_empty() {
            ev.class(&format!("shape:{}", inst.label.split(',').next().unwrap()));
        }
        ev.max("frame-length", inst.image.len() as u64);
        if ev.wants_sample() && inst.image.len() > 8 && inst.image.len() < 60 {
            ev.sample(|| json!({"kind": c.variant, "mode": mode_name(&mode), "frame": hex(&inst.image), "fields_asserted": inst.expects.len()}));
        }
        Ok(())
    }
    fn to_json(&self, c: &TapeCase) -> Value {
        json!({"kind": c.variant, "compressed": c.compressed, "tape": hex(&c.tape)})
    }
    fn from_json(&self, v: &Value) -> Option<TapeCase> {
        Some(TapeCase { variant: v.get("kind")?.as_str()?.to_string(), compressed: v.get("compressed")?.as_bool()?, tape: unhex(v.get("tape")?.as_str()?)? })
    }
}

pub fn tape_strategy() -> impl Strategy<Value = TapeCase> {
    let n = spec().packets.len();
    (0..n, any::<bool>(), proptest::collection::vec(any::<u8>(), 0..600)).prop_map(|(k, compressed, tape)| TapeCase {
        variant: spec().packets[k].variant.clone(),
        compressed,
        tape,
    })
}

pub fn hot_cases() -> Vec<HotCase> {
    let mut v = vec![];
    for p in &spec().packets {
        for compressed in [false, true] {
            v.push(HotCase { variant: p.variant.clone(), compressed, target: None });
            for (path, n) in image::targets(p) {
                for k in 0..n {
                    v.push(HotCase { variant: p.variant.clone(), compressed, target: Some((path.clone(), k)) });
                }
            }
        }
    }
    v
}



// ------------------------------------------------------------------ every pair of leaf fields, each at each of its choices
/// (packet kind index, size mode, pair index within the kind): decoded on the fly into two (leaf, choice) targets
#[derive(Clone, Debug)]
pub struct PairCase {
    pub variant: String,
    pub compressed: bool,
    pub a: (String, usize),
    pub b: (String, usize),
}

pub struct PairSweep;
impl Part for PairSweep {
    type Case = PairCase;
    fn name(&self) -> &'static str {
        "pairwise-sweep"
    }
    fn check(&self, c: &PairCase, ev: &mut Local) -> Result<(), Fail> {
        let p = spec().packet(&c.variant).ok_or_else(|| Fail::new("harness:variant", c.variant.clone()))?;
        let mode = if c.compressed { Mode::Compressed } else { Mode::Uncompressed };
        let inst = image::two_hot(p, &mode, (c.a.0.as_str(), c.a.1), (c.b.0.as_str(), c.b.1));
        judge_inst(&inst, &mode, "c02")?;
        ev.nontrivial_distinct();
        if c.a.1 == 0 && c.b.1 == 0 {
            ev.class(&c.variant);
        }
        Ok(())
    }
    fn to_json(&self, c: &PairCase) -> Value {
        json!({"kind": c.variant, "compressed": c.compressed, "field_a": c.a.0, "choice_a": c.a.1, "field_b": c.b.0, "choice_b": c.b.1})
    }
    fn from_json(&self, v: &Value) -> Option<PairCase> {
        Some(PairCase {
            variant: v.get("kind")?.as_str()?.to_string(),
            compressed: v.get("compressed")?.as_bool()?,
            a: (v.get("field_a")?.as_str()?.to_string(), v.get("choice_a")?.as_u64()? as usize),
            b: (v.get("field_b")?.as_str()?.to_string(), v.get("choice_b")?.as_u64()? as usize),
        })
    }
}

// ------------------------------------------------------------------ every value of every plain integer / time field
/// A plain integer or time field (u8 / u16 / i16 / u32 / i32 / duration, not an enumerant, flag word or count) at `off` of a
/// conformant frame: every wire value is meaningful, so decoding must succeed and writing the packet back must reproduce
/// the bytes. 8- and 16-bit fields are swept completely, 32-bit fields over round values (decimal and binary, whole
/// seconds / minutes / hours in ms and 1/100 s) with their neighbours.
#[derive(Clone, Debug)]
pub struct IntCase {
    pub field: usize,
    pub compressed: bool,
    pub value: u32,
}

/// (variant, path, offset in the frame, width, element path to instantiate when the field lives in a counted collection)
pub fn int_fields() -> &'static Vec<(String, String, usize, usize, Option<String>)> {
    static F: std::sync::OnceLock<Vec<(String, String, usize, usize, Option<String>)>> = std::sync::OnceLock::new();
    F.get_or_init(|| {
        use crate::refs::spec::{Field, Kind};
        fn walk(fields: &[Field], base: usize, prefix: &str, variant: &str, elem: Option<String>, out: &mut Vec<(String, String, usize, usize, Option<String>)>) {
            for f in fields {
                let path = if prefix.is_empty() { f.path.clone() } else if f.path == "." { prefix.to_string() } else { format!("{prefix}.{}", f.path) };
                let off = base + f.off;
                let width = match &f.kind {
                    Kind::U8 { max: None } | Kind::Id(_) => 1,
                    Kind::U16 | Kind::I16 => 2,
                    Kind::U32 | Kind::I32 => 4,
                    Kind::Dur { bytes, .. } => *bytes,
                    Kind::Struct { fields } => {
                        walk(fields, off, &path, variant, elem.clone(), out);
                        0
                    },
                    Kind::Array { fields, .. } => {
                        walk(fields, off, &format!("{path}[0]"), variant, elem.clone(), out);
                        0
                    },
                    Kind::Counted { fields, .. } => {
                        walk(fields, off, &format!("{path}[0]"), variant, Some(format!("{path}[0]")), out);
                        0
                    },
                    _ => 0,
                };
                if width > 0 {
                    out.push((variant.to_string(), path, off, width, elem.clone()));
                }
            }
        }
        let mut out = vec![];
        for p in &spec().packets {
            walk(&p.fields, 0, "", &p.variant, None, &mut out);
        }
        out
    })
}

pub struct IntSweep;
impl Part for IntSweep {
    type Case = IntCase;
    fn name(&self) -> &'static str {
        "integer-field-sweeps"
    }
    fn check(&self, c: &IntCase, ev: &mut Local) -> Result<(), Fail> {
        let (variant, path, off, width, elem) = &int_fields()[c.field];
        let mode = if c.compressed { Mode::Compressed } else { Mode::Uncompressed };
        let p = spec().packet(variant).unwrap();
        // base: everything zero / first enumerant; a counted collection holds one element
        let base = match elem {
            Some(e) => {
                let t = image::targets(p);
                match t.iter().find(|(tp, _)| tp.starts_with(e.as_str())) {
                    Some((tp, _)) => image::one_hot(p, &mode, Some((tp, 0))).image,
                    None => return Ok(()),
                }
            },
            None => image::one_hot(p, &mode, None).image,
        };
        if off + width > base.len() {
            return Ok(());
        }
        let mut frame = base.clone();
        frame[*off..off + width].copy_from_slice(&c.value.to_le_bytes()[..*width]);
        let name = format!("{variant}.{}", image::generic_path(path));
        let pkt = match decode_one(&frame, &mode) {
            Ok(p) => p,
            Err(e) => {
                // the all-zero base itself must be acceptable, or this field is not one the sweep can judge
                if decode_one(&base, &mode).is_err() {
                    ev.class("base-frame-not-decodable: skipped");
                    return Ok(());
                }
                fail!(format!("c02:decode:{name}"), "{name}: wire value {} ({width} bytes at offset {off}) makes the frame undecodable: {e}", c.value)
            },
        };
        let back = encode_one(&pkt, &mode).map_err(|e| Fail::new(format!("c02:encode:{name}"), format!("{name}: wire value {} decodes to a packet that cannot be written: {e}", c.value)))?;
        ensure!(
            back == frame,
            format!("c02:decode:{name}"),
            "{name}: wire value {} ({width} bytes at offset {off}) is written back as {} (bytes {} -> {})",
            c.value,
            back.get(*off..off + width).map(|b| b.iter().rev().fold(0u64, |a, x| a << 8 | *x as u64).to_string()).unwrap_or("?".into()),
            hex(&frame[..frame.len().min(32)]),
            hex(&back[..back.len().min(32)])
        );
        ev.nontrivial_distinct();
        if c.value % 4099 == 0 {
            ev.class(&name);
        }
        Ok(())
    }
    fn to_json(&self, c: &IntCase) -> Value {
        let f = &int_fields()[c.field];
        json!({"field": format!("{}.{}", f.0, f.1), "compressed": c.compressed, "value": c.value})
    }
    fn from_json(&self, v: &Value) -> Option<IntCase> {
        let name = v.get("field")?.as_str()?;
        let field = int_fields().iter().position(|f| format!("{}.{}", f.0, f.1) == name)?;
        Some(IntCase { field, compressed: v.get("compressed")?.as_bool()?, value: v.get("value")?.as_u64()? as u32 })
    }
}

/// round 32-bit values and their neighbours
pub fn round_u32() -> Vec<u32> {
    let mut round: Vec<u64> = vec![];
    for k in 0..=7200u64 {
        round.push(k * 1000);
        round.push(k * 100);
    }
    for k in 0..=1440u64 {
        round.push(k * 60_000);
        round.push(k * 6_000);
    }
    for k in 0..=1193u64 {
        round.push(k * 3_600_000);
        round.push(k * 360_000);
    }
    for e in 0..=9u32 {
        for d in 1..=9u64 {
            round.push(d * 10u64.pow(e));
        }
    }
    for e in 0..=32u32 {
        round.push(1u64 << e);
        round.push((1u64 << e) * 3);
    }
    for k in 0..=255u64 {
        round.push(k << 8);
        round.push(k << 16);
        round.push(k << 24);
        round.push(0xffff_ff00 | k);
        round.push(0x8000_0000u64.wrapping_sub(128) + k);
    }
    let mut v: Vec<u32> = round.iter().flat_map(|v| [v.saturating_sub(1), *v, v + 1]).filter(|v| *v <= 0xffff_ffff).map(|v| v as u32).collect();
    v.sort();
    v.dedup();
    v
}

pub fn parts() -> Vec<Box<dyn DynPart>> {
    vec![Box::new(OneHot), Box::new(RandomImages), Box::new(crate::props::c03::OneCodec("c02")), Box::new(crate::props::c03::SameTextSeq("c02")), Box::new(IntSweep), Box::new(PairSweep)]
}

pub fn run(run: &mut Run) {
    if let Some(p) = coverage_problem() {
        eprintln!("HARNESS OUT OF DATE: {p}");
        std::process::exit(2);
    }
    let s = spec();
    let fields: usize = s.packets.iter().map(|p| image::targets(p).len()).sum();
    run.rule = format!(
        "Frames are built by an independent table-driven reference codec from spec/insim9.spec ({} packet kinds, {fields} leaf fields, \
         transcribed from InSim.txt v9 / InSim-Relay with explicit offsets that must tile each packet exactly). (1) systematic one-hot \
         sweep: for every kind, every field, every enumerant / single flag bit / boundary integer / text shape with all other fields \
         zero, both size modes; (2) random full assignments from an entropy tape (proptest, shrinkable). Oracle: decode(reference \
         image) shows the expected rendering at every `sure` field's path; encode(decode(image)) == image byte for byte (non-ASCII \
         text ranges compared through the reference codepage decoder). Further parts: every pair of leaf fields of a kind at each of their choices; 295 plain integer / time fields swept (8 and 16 bits completely, 32 bits at round values); every image also through the public BinRead / BinWrite entry points with readers that deliver and sinks that accept 1 / 3,2 / 7 bytes per call or fail half-way; sequences on two long-lived codecs; one text through several fields in a row against a fresh thread. Non-trivial = some byte after the header is non-zero.",
        s.packets.len()
    );
    run.assumptions = vec![
        "spec/insim9.spec is a faithful transcription of InSim.txt v9 / the InSim-Relay page (written from memory; fields tagged ?unit/?opaque are not asserted against it)".into(),
        "typed values are observed through the packets' derived Debug rendering (public fields) plus bits() for the LCS/LCL flag words".into(),
    ];
    let hot = hot_cases();
    run.extra.insert("kinds".into(), json!(s.packets.len()));
    run.extra.insert("leaf_fields".into(), json!(fields));
    let n = hot.len() as u64;
    run.enumerate(&OneHot, n, false, |i| Some(hot[i as usize].clone()));
    let n = run.budget(73 * 2 * 500, 73 * 2 * 20_000);
    run.prop(&RandomImages, tape_strategy(), n);
    // every pair of leaf fields of a kind, each at each of its choices (a special case keyed on two fields at once)
    {
        // per (kind, mode): leaves with their choice counts; the pair (i < j, ki, kj) is decoded from a running index
        let mut blocks: Vec<(String, bool, Vec<(String, usize)>, u64, u64)> = vec![]; // variant, mode, leaves, first index, count
        let mut total = 0u64;
        for p in &spec().packets {
            let leaves: Vec<(String, usize)> = image::targets(p).into_iter().filter(|(_, n)| *n > 0).collect();
            let sum: u64 = leaves.iter().map(|(_, n)| *n as u64).sum();
            let sq: u64 = leaves.iter().map(|(_, n)| (*n as u64) * (*n as u64)).sum();
            let pairs = (sum * sum - sq) / 2;
            for compressed in [false, true] {
                blocks.push((p.variant.clone(), compressed, leaves.clone(), total, pairs));
                total += pairs;
            }
        }
        run.extra.insert("pairwise_cases".into(), json!(total));
        run.enumerate(&PairSweep, total, false, |i| {
            let k = blocks.partition_point(|b| b.3 <= i) - 1;
            let (variant, compressed, leaves, first, _) = &blocks[k];
            let mut r = i - first;
            for x in 0..leaves.len() {
                for y in x + 1..leaves.len() {
                    let n = (leaves[x].1 * leaves[y].1) as u64;
                    if r < n {
                        let (ka, kb) = ((r / leaves[y].1 as u64) as usize, (r % leaves[y].1 as u64) as usize);
                        return Some(PairCase { variant: variant.clone(), compressed: *compressed, a: (leaves[x].0.clone(), ka), b: (leaves[y].0.clone(), kb) });
                    }
                    r -= n;
                }
            }
            None
        });
    }
    // every value of every plain integer / time field: 8 and 16 bits completely, 32 bits over round values
    let fields = int_fields();
    let r32 = round_u32();
    let mut index: Vec<(usize, u64, u64)> = vec![]; // (field, first case index, number of values)
    let mut total = 0u64;
    for (i, f) in fields.iter().enumerate() {
        let n = match f.3 {
            1 => 256u64,
            2 => 65_536,
            _ => r32.len() as u64,
        };
        index.push((i, total, n));
        total += n;
    }
    run.extra.insert("integer_fields_swept".into(), json!(fields.len()));
    run.enumerate(&IntSweep, total, false, |i| {
        let k = index.partition_point(|(_, first, _)| *first <= i) - 1;
        let (field, first, _) = index[k];
        let j = i - first;
        let value = match fields[field].3 {
            1 | 2 => j as u32,
            _ => r32[j as usize],
        };
        // the two size modes alternate: the body of a frame does not depend on the mode
        Some(IntCase { field, compressed: j % 2 == 0, value })
    });
    // the layout must not depend on what the codec was asked to encode before (a connection keeps one codec): sequences with
    // refused packets among them, every frame compared with a fresh codec's
    let n = run.budget(30_000, 1_500_000);
    run.prop(&crate::props::c03::OneCodec("c02"), crate::props::c03::seq_strategy(), n);
    let n = run.budget(30_000, 1_000_000);
    run.prop(&crate::props::c03::SameTextSeq("c02"), crate::props::c03::same_text_strategy(), n);
}
