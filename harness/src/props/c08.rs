//! C08 — UDP datagrams are delivered intact for arbitrarily long sessions (real loopback sockets).

use std::time::Duration;

use insim::net::{Codec, Mode};
use proptest::prelude::*;
use serde_json::{json, Value};

use crate::engine::*;
use crate::props::session::*;
use crate::refs::compare::{decode_one, mode_name};

#[derive(Clone, Debug)]
pub struct UdpCase {
    pub compressed: bool,
    /// each datagram is a list of whole frames
    pub datagrams: Vec<Vec<Vec<u8>>>,
    /// frames whose packets are written afterwards
    pub writes: Vec<Vec<u8>>,
    /// indices of datagrams before which the connection is read while the peer is idle (the read times out), as happens in
    /// every real session between bursts
    pub gaps: Vec<usize>,
}

const GAP_TIMEOUT: Duration = Duration::from_millis(15);

const READ_TIMEOUT: Duration = Duration::from_secs(2);

/// what each frame decodes to in isolation (the expected delivery)
fn expected(c: &UdpCase, mode: &Mode) -> Vec<String> {
    c.datagrams.iter().flatten().map(|f| crate::transport::render(&decode_one_result(f, mode))).collect()
}

fn decode_one_result(f: &[u8], mode: &Mode) -> Result<insim::Packet, insim::Error> {
    let codec = Codec::new(mode.clone());
    let mut b = bytes::BytesMut::from(f);
    match codec.decode(&mut b) {
        Ok(Some(p)) => Ok(p),
        Ok(None) => Err(insim::Error::BinRw("incomplete".into())),
        Err(e) => Err(e),
    }
}

struct Observed {
    results: Vec<String>,
    /// datagrams the peer received for the written packets
    received: Vec<Vec<u8>>,
    error: Option<String>,
}

fn run_blocking(c: &UdpCase, mode: &Mode) -> Observed {
    let mut o = Observed { results: vec![], received: vec![], error: None };
    let r: Result<(), String> = (|| {
        let a = std::net::UdpSocket::bind("127.0.0.1:0").map_err(|e| format!("bind: {e}"))?;
        let peer = std::net::UdpSocket::bind("127.0.0.1:0").map_err(|e| format!("bind: {e}"))?;
        a.connect(peer.local_addr().unwrap()).map_err(|e| e.to_string())?;
        peer.connect(a.local_addr().unwrap()).map_err(|e| e.to_string())?;
        a.set_read_timeout(Some(READ_TIMEOUT)).unwrap();
        peer.set_read_timeout(Some(READ_TIMEOUT)).unwrap();
        let handle = a.try_clone().map_err(|e| format!("bind: clone: {e}"))?;
        let mut framed = insim::net::blocking_impl::Framed::new(Box::new(insim::net::blocking_impl::UdpStream::from(a)), Codec::new(mode.clone()));
        for (k, d) in c.datagrams.iter().enumerate() {
            if c.gaps.contains(&k) {
                // idle peer: this read can only time out
                handle.set_read_timeout(Some(GAP_TIMEOUT)).unwrap();
                let r = guard(|| framed.read()).map_err(|p| format!("panic: {p}"))?;
                handle.set_read_timeout(Some(READ_TIMEOUT)).unwrap();
                let s = crate::transport::render(&r);
                if !s.starts_with("Err(transient") {
                    o.results.push(format!("<read on an idle socket returned {s}>"));
                    return Ok(());
                }
            }
            let bytes: Vec<u8> = d.concat();
            let _ = peer.send(&bytes).map_err(|e| format!("peer send: {e}"))?;
            for _ in d {
                let r = guard(|| framed.read()).map_err(|p| format!("panic: {p}"))?;
                let s = crate::transport::render(&r);
                // a transport-level error (incl. the 2 s timeout) means data was lost: the rest of the session would only wait
                let lost = s.starts_with("Err(transient") || s.starts_with("Err(framing") || s.starts_with("Err(Disconnected") || s.starts_with("Err(other");
                o.results.push(s);
                if lost {
                    return Ok(());
                }
            }
        }
        // keep-alive replies: exactly one datagram per delivered keep-alive
        let mut scratch = [0u8; 2048];
        let keepalives = o.results.iter().filter(|r| r.as_str() == "Ok(Tiny(Tiny { reqi: RequestId(0), subt: None }))").count();
        for _ in 0..keepalives {
            match peer.recv(&mut scratch) {
                Ok(n) if scratch[..n] == [crate::props::session::size_byte(mode, 4), 3, 0, 0] => {},
                other => return Err(format!("keep-alive reply missing or malformed: {other:?}")),
            }
        }
        for f in &c.writes {
            let Some(p) = crate::props::c03::seq_packet(f, mode) else { continue };
            let refused = Codec::new(mode.clone()).encode(&p).is_err();
            let w = guard(|| framed.write(p)).map_err(|p| format!("panic: {p}"))?;
            if let Err(e) = w {
                if !refused {
                    o.received.push(format!("write error: {e}").into_bytes());
                }
                continue;
            }
            if refused {
                o.received.push(b"a packet the encoder refuses was reported written".to_vec());
            }
            match peer.recv(&mut scratch) {
                Ok(n) => o.received.push(scratch[..n].to_vec()),
                Err(e) => return Err(format!("peer received nothing for a written packet: {e}")),
            }
        }
        // nothing else may be pending
        peer.set_nonblocking(true).unwrap();
        if let Ok(n) = peer.recv(&mut scratch) {
            o.received.push(scratch[..n].to_vec());
        }
        Ok(())
    })();
    o.error = r.err();
    o
}

fn run_tokio(c: &UdpCase, mode: &Mode) -> Observed {
    let rt = tokio::runtime::Builder::new_current_thread().enable_all().build().expect("runtime");
    let mode = mode.clone();
    let out = guard(|| {
        rt.block_on(async {
            let mut o = Observed { results: vec![], received: vec![], error: None };
            let r: Result<(), String> = async {
                let a = tokio::net::UdpSocket::bind("127.0.0.1:0").await.map_err(|e| format!("bind: {e}"))?;
                let peer = tokio::net::UdpSocket::bind("127.0.0.1:0").await.map_err(|e| format!("bind: {e}"))?;
                a.connect(peer.local_addr().unwrap()).await.map_err(|e| e.to_string())?;
                peer.connect(a.local_addr().unwrap()).await.map_err(|e| e.to_string())?;
                let mut framed = insim::net::tokio_impl::Framed::new(Box::new(insim::net::tokio_impl::UdpStream::from(a)), Codec::new(mode.clone()));
                for (k, d) in c.datagrams.iter().enumerate() {
                    if c.gaps.contains(&k) {
                        // idle peer: the read future is dropped by the timeout
                        if let Ok(r) = tokio::time::timeout(GAP_TIMEOUT, framed.read()).await {
                            o.results.push(format!("<read on an idle socket returned {}>", crate::transport::render(&r)));
                            return Ok(());
                        }
                    }
                    let bytes: Vec<u8> = d.concat();
                    let _ = peer.send(&bytes).await.map_err(|e| format!("peer send: {e}"))?;
                    for _ in d {
                        match tokio::time::timeout(READ_TIMEOUT, framed.read()).await {
                            Ok(r) => {
                                let s = crate::transport::render(&r);
                                let lost = s.starts_with("Err(transient") || s.starts_with("Err(framing") || s.starts_with("Err(Disconnected") || s.starts_with("Err(other");
                                o.results.push(s);
                                if lost {
                                    return Ok(());
                                }
                            },
                            Err(_) => {
                                o.results.push("<nothing delivered within 2 s>".into());
                                return Ok(());
                            },
                        }
                    }
                }
                let mut scratch = [0u8; 2048];
                // keep-alive replies: exactly one datagram per delivered keep-alive (tokio's try_recv depends on cached
                // readiness, so the replies are awaited by count rather than drained)
                let keepalives = o.results.iter().filter(|r| r.as_str() == "Ok(Tiny(Tiny { reqi: RequestId(0), subt: None }))").count();
                for _ in 0..keepalives {
                    match tokio::time::timeout(READ_TIMEOUT, peer.recv(&mut scratch)).await {
                        Ok(Ok(n)) if scratch[..n] == [crate::props::session::size_byte(&mode, 4), 3, 0, 0] => {},
                        other => return Err(format!("keep-alive reply missing or malformed: {other:?}")),
                    }
                }
                for f in &c.writes {
                    let Some(p) = crate::props::c03::seq_packet(f, &mode) else { continue };
                    let refused = Codec::new(mode.clone()).encode(&p).is_err();
                    if let Err(e) = framed.write(p).await {
                        if !refused {
                            o.received.push(format!("write error: {e}").into_bytes());
                        }
                        continue;
                    }
                    if refused {
                        o.received.push(b"a packet the encoder refuses was reported written".to_vec());
                    }
                    match tokio::time::timeout(READ_TIMEOUT, peer.recv(&mut scratch)).await {
                        Ok(Ok(n)) => o.received.push(scratch[..n].to_vec()),
                        _ => return Err("peer received nothing for a written packet".into()),
                    }
                }
                if let Ok(n) = peer.try_recv(&mut scratch) {
                    o.received.push(scratch[..n].to_vec());
                }
                Ok(())
            }
            .await;
            o.error = r.err();
            o
        })
    });
    match out {
        Ok(o) => o,
        Err(p) => Observed { results: vec![], received: vec![], error: Some(format!("panic: {p}")) },
    }
}

pub fn judge(c: &UdpCase, ev: &mut Local) -> Result<(), Fail> {
    let mode = if c.compressed { Mode::Compressed } else { Mode::Uncompressed };
    let want = expected(c, &mode);
    // a fresh codec per packet: the expected datagrams are independent encodings
    let want_out: Vec<Vec<u8>> = c.writes.iter().filter_map(|f| crate::props::c03::seq_packet(f, &mode)).filter_map(|p| Codec::new(mode.clone()).encode(&p).ok().map(|b| b.to_vec())).collect();
    let m = mode_name(&mode);
    for (which, o) in [("blocking", run_blocking(c, &mode)), ("tokio", run_tokio(c, &mode))] {
        if let Some(e) = &o.error {
            if e.starts_with("bind") || e.starts_with("peer send") {
                // environment problem, not a verdict
                eprintln!("INCONCLUSIVE: loopback UDP unavailable: {e}");
                std::process::exit(2);
            }
            if e.starts_with("panic") {
                fail!("c08:panic", "{which} ({m}): {e}");
            }
        }
        if o.results != want {
            let i = (0..want.len().max(o.results.len())).find(|i| o.results.get(*i) != want.get(*i)).unwrap();
            // which datagram was that, and how much traffic preceded it?
            let mut count = 0usize;
            let mut bytes_before = 0usize;
            let mut dgram_no = 0usize;
            let mut dgram_len = 0usize;
            for (k, d) in c.datagrams.iter().enumerate() {
                if count + d.len() > i {
                    dgram_no = k;
                    dgram_len = d.iter().map(|f| f.len()).sum();
                    break;
                }
                count += d.len();
                bytes_before += d.iter().map(|f| f.len()).sum::<usize>();
            }
            fail!(
                format!("c08:{which}-datagram-not-delivered-intact"),
                "{which} ({m}): packet #{i} (in datagram #{dgram_no} of {dgram_len} bytes, after {bytes_before} bytes of traffic): got {} expected {}",
                o.results.get(i).map(|s| s.chars().take(80).collect::<String>()).unwrap_or("<nothing>".into()),
                want.get(i).map(|s| s.chars().take(80).collect::<String>()).unwrap_or("<nothing>".into())
            );
        }
        if let Some(e) = &o.error {
            fail!(format!("c08:{which}-write-not-one-datagram"), "{which} ({m}): {e}");
        }
        ensure!(
            o.received == want_out,
            format!("c08:{which}-write-not-one-datagram"),
            "{which} ({m}): {} packets written, peer saw {} datagrams; first difference at #{:?}",
            want_out.len(),
            o.received.len(),
            (0..want_out.len().max(o.received.len())).find(|i| o.received.get(*i) != want_out.get(*i))
        );
    }
    let total: usize = c.datagrams.iter().flatten().map(|f| f.len()).sum();
    let mut before = 0usize;
    let mut crossed = false;
    for d in &c.datagrams {
        let l: usize = d.iter().map(|f| f.len()).sum();
        if before + l > 6120 {
            crossed = true;
        }
        before += l;
    }
    if crossed {
        ev.nontrivial(&(c.compressed, total, c.datagrams.len(), c.datagrams.first().map(|d| d.concat())));
        ev.class("traffic-beyond-receive-buffer");
    } else {
        ev.class("short-session");
    }
    if c.datagrams.iter().any(|d| d.len() > 1) {
        ev.class("several-packets-per-datagram");
    }
    if !c.gaps.is_empty() {
        ev.class("idle-gaps-with-timed-out-reads");
    }
    if c.writes.iter().any(|f| f.len() == 1) {
        ev.class("refused-packet-among-the-writes");
    }
    ev.max("session-bytes", total as u64);
    ev.max("datagrams", c.datagrams.len() as u64);
    ev.max("largest-datagram", c.datagrams.iter().map(|d| d.iter().map(|f| f.len()).sum::<usize>()).max().unwrap_or(0) as u64);
    Ok(())
}

fn case_json(c: &UdpCase) -> Value {
    json!({
        "compressed": c.compressed,
        "datagrams": c.datagrams.iter().map(|d| d.iter().map(|f| hex(f)).collect::<Vec<_>>()).collect::<Vec<_>>(),
        "writes": c.writes.iter().map(|f| hex(f)).collect::<Vec<_>>(),
        "gaps": c.gaps,
    })
}
fn case_from(v: &Value) -> Option<UdpCase> {
    Some(UdpCase {
        compressed: v.get("compressed")?.as_bool()?,
        datagrams: v.get("datagrams")?.as_array()?.iter().map(|d| d.as_array()?.iter().map(|f| unhex(f.as_str()?)).collect::<Option<Vec<_>>>()).collect::<Option<Vec<_>>>()?,
        writes: v.get("writes")?.as_array()?.iter().map(|f| unhex(f.as_str()?)).collect::<Option<Vec<_>>>()?,
        gaps: v.get("gaps").and_then(|g| g.as_array()).map(|a| a.iter().filter_map(|x| x.as_u64().map(|x| x as usize)).collect()).unwrap_or_default(),
    })
}

pub struct UdpSessions;
impl Part for UdpSessions {
    type Case = UdpCase;
    fn name(&self) -> &'static str {
        "loopback-udp-sessions"
    }
    fn check(&self, c: &UdpCase, ev: &mut Local) -> Result<(), Fail> {
        judge(c, ev)?;
        if ev.wants_sample() {
            ev.sample(|| json!({"mode": if c.compressed { "compressed" } else { "uncompressed" }, "datagrams": c.datagrams.len(), "bytes": c.datagrams.iter().flatten().map(|f| f.len()).sum::<usize>(), "first_datagram": c.datagrams.first().map(|d| hex(&d.concat()[..d.concat().len().min(24)])), "writes": c.writes.len()}));
        }
        Ok(())
    }
    fn to_json(&self, c: &UdpCase) -> Value {
        case_json(c)
    }
    fn from_json(&self, v: &Value) -> Option<UdpCase> {
        case_from(v)
    }
}

pub fn udp_strategy(max_datagrams: usize) -> impl Strategy<Value = UdpCase> {
    // frames other than keep-alives; big frames are common so that the spare capacity is crossed early
    let frame = prop_oneof![
        6 => (any::<usize>(), proptest::collection::vec(any::<u8>(), 0..300)).prop_map(|(k, t)| FrameSpec::Kind(k, t)),
        2 => (any::<u8>(), any::<u8>()).prop_map(|(a, b)| FrameSpec::UnknownType(a, b)),
        3 => (any::<u8>(), 50u8..255).prop_map(|(a, b)| FrameSpec::UnknownType(a, b)),
        2 => any::<u8>().prop_map(FrameSpec::Big),
        1 => (1u8..30, any::<u8>()).prop_map(|(a, b)| FrameSpec::Tiny(a, b)),
    ];
    let gaps = prop_oneof![3 => Just(vec![]), 1 => proptest::collection::vec(any::<prop::sample::Index>(), 1..3)];
    (any::<bool>(), proptest::collection::vec(proptest::collection::vec(frame.clone(), 1..14), 1..max_datagrams), proptest::collection::vec(frame, 0..6), gaps).prop_map(|(compressed, dgrams, writes, gaps)| {
        let mode = if compressed { Mode::Compressed } else { Mode::Uncompressed };
        // a datagram may carry up to 1020 bytes in either size mode (each frame within it obeys the mode's own limit)
        let limit = 1020;
        let datagrams: Vec<Vec<Vec<u8>>> = dgrams
            .iter()
            .map(|d| {
                let mut frames: Vec<Vec<u8>> = vec![];
                let mut len = 0;
                for f in d {
                    let b = frame_bytes(f, &mode);
                    if len + b.len() <= limit || frames.is_empty() {
                        len += b.len();
                        frames.push(b);
                    }
                }
                frames
            })
            .collect();
        let gaps = gaps.iter().map(|ix| ix.index(datagrams.len())).collect();
        // packets the encoder must refuse (one-byte pseudo frames, see c03::seq_packet) go between the written packets of
        // every third session: a refusal must leave no trace in the datagrams that follow
        let mut w: Vec<Vec<u8>> = writes.iter().map(|f| frame_bytes(f, &mode)).collect();
        if !w.is_empty() && datagrams.len() % 3 == 0 {
            let at = datagrams.len() % w.len();
            w.insert(at, vec![0xFC + (datagrams.len() % 4) as u8]);
        }
        UdpCase { compressed, datagrams, writes: w, gaps }
    })
}


// ------------------------------------------------------------------ a send that the kernel refuses, then more writes
/// The peer's port is closed for a moment (the application started before LFS): one datagram is lost, the ICMP answer makes the
/// next send fail with ECONNREFUSED. When the peer is back, every further written packet must again leave as exactly one
/// datagram holding exactly its frame - nothing of the refused packet may ride along.
#[derive(Clone, Debug)]
pub struct RefusedCase {
    pub compressed: bool,
    pub tokio: bool,
    /// frames of the packets written while the port is closed / after it is open again
    pub during: Vec<Vec<u8>>,
    pub after: Vec<Vec<u8>>,
}

pub struct RefusedSend;
impl Part for RefusedSend {
    type Case = RefusedCase;
    fn name(&self) -> &'static str {
        "writes-after-a-refused-send"
    }
    fn check(&self, c: &RefusedCase, ev: &mut Local) -> Result<(), Fail> {
        let mode = if c.compressed { Mode::Compressed } else { Mode::Uncompressed };
        let pk = |f: &Vec<u8>| decode_one(f, &mode).ok().filter(|p| Codec::new(mode.clone()).encode(p).is_ok());
        let during: Vec<insim::Packet> = c.during.iter().filter_map(pk).collect();
        let after: Vec<insim::Packet> = c.after.iter().filter_map(pk).collect();
        if after.is_empty() {
            return Ok(());
        }
        let want: Vec<Vec<u8>> = after.iter().map(|p| Codec::new(mode.clone()).encode(p).unwrap().to_vec()).collect();
        // returns (datagrams the re-opened peer received, how many writes failed while the port was closed)
        let outcome: Result<Result<(Vec<Vec<u8>>, usize), String>, String> = if c.tokio {
            let rt = tokio::runtime::Builder::new_current_thread().enable_all().build().expect("runtime");
            guard(|| {
                rt.block_on(async {
                    let peer = tokio::net::UdpSocket::bind("127.0.0.1:0").await.map_err(|e| format!("env: {e}"))?;
                    let addr = peer.local_addr().unwrap();
                    let a = tokio::net::UdpSocket::bind("127.0.0.1:0").await.map_err(|e| format!("env: {e}"))?;
                    a.connect(addr).await.map_err(|e| format!("env: {e}"))?;
                    let mut framed = insim::net::tokio_impl::Framed::new(Box::new(insim::net::tokio_impl::UdpStream::from(a)), Codec::new(mode.clone()));
                    drop(peer);
                    let mut failed = 0;
                    for p in &during {
                        if framed.write(p.clone()).await.is_err() {
                            failed += 1;
                        }
                        tokio::time::sleep(Duration::from_millis(2)).await;
                    }
                    let peer = tokio::net::UdpSocket::bind(addr).await.map_err(|e| format!("env: rebind: {e}"))?;
                    for p in &after {
                        // a stale ICMP error may still fail the first of these: retry once, as an application would
                        if framed.write(p.clone()).await.is_err() {
                            framed.write(p.clone()).await.map_err(|e| format!("write after the peer came back: {e}"))?;
                        }
                    }
                    let mut got = vec![];
                    let mut buf = [0u8; 2048];
                    while got.len() < after.len() + 2 {
                        match tokio::time::timeout(Duration::from_millis(100), peer.recv(&mut buf)).await {
                            Ok(Ok(n)) => got.push(buf[..n].to_vec()),
                            _ => break,
                        }
                    }
                    Ok((got, failed))
                })
            })
        } else {
            guard(|| {
                let peer = std::net::UdpSocket::bind("127.0.0.1:0").map_err(|e| format!("env: {e}"))?;
                let addr = peer.local_addr().unwrap();
                let a = std::net::UdpSocket::bind("127.0.0.1:0").map_err(|e| format!("env: {e}"))?;
                a.connect(addr).map_err(|e| format!("env: {e}"))?;
                let mut framed = insim::net::blocking_impl::Framed::new(Box::new(insim::net::blocking_impl::UdpStream::from(a)), Codec::new(mode.clone()));
                drop(peer);
                let mut failed = 0;
                for p in &during {
                    if framed.write(p.clone()).is_err() {
                        failed += 1;
                    }
                    std::thread::sleep(Duration::from_millis(2));
                }
                let peer = std::net::UdpSocket::bind(addr).map_err(|e| format!("env: rebind: {e}"))?;
                peer.set_read_timeout(Some(Duration::from_millis(100))).unwrap();
                for p in &after {
                    if framed.write(p.clone()).is_err() {
                        framed.write(p.clone()).map_err(|e| format!("write after the peer came back: {e}"))?;
                    }
                }
                let mut got = vec![];
                let mut buf = [0u8; 2048];
                while got.len() < after.len() + 2 {
                    match peer.recv(&mut buf) {
                        Ok(n) => got.push(buf[..n].to_vec()),
                        Err(_) => break,
                    }
                }
                Ok((got, failed))
            })
        };
        let which = if c.tokio { "tokio" } else { "blocking" };
        match outcome {
            Err(p) => fail!("c08:panic", "{which}: {p}"),
            Ok(Err(e)) if e.starts_with("env:") => {
                ev.class("skipped: loopback socket could not be (re)bound");
                return Ok(());
            },
            Ok(Err(e)) => fail!(format!("c08:{which}-write-not-one-datagram"), "{which}: {e}"),
            Ok(Ok((got, failed))) => {
                ensure!(
                    got == want,
                    format!("c08:{which}-write-not-one-datagram"),
                    "{which} ({}): {} writes while the peer's port was closed ({failed} of them reported an error), then {} writes: the peer received {:?}, expected {:?}",
                    mode_name(&mode),
                    during.len(),
                    after.len(),
                    got.iter().map(|d| hex(&d[..d.len().min(24)])).collect::<Vec<_>>(),
                    want.iter().map(|d| hex(&d[..d.len().min(24)])).collect::<Vec<_>>()
                );
                ev.nontrivial(&(c.compressed, c.tokio, &c.during, &c.after));
                ev.class(if failed > 0 { "a send was refused (ECONNREFUSED)" } else { "no send was refused" });
            },
        }
        Ok(())
    }
    fn to_json(&self, c: &RefusedCase) -> Value {
        json!({"compressed": c.compressed, "tokio": c.tokio, "during": c.during.iter().map(|f| hex(f)).collect::<Vec<_>>(), "after": c.after.iter().map(|f| hex(f)).collect::<Vec<_>>()})
    }
    fn from_json(&self, v: &Value) -> Option<RefusedCase> {
        let fr = |k: &str| -> Option<Vec<Vec<u8>>> { v.get(k)?.as_array()?.iter().map(|f| unhex(f.as_str()?)).collect() };
        Some(RefusedCase { compressed: v.get("compressed")?.as_bool()?, tokio: v.get("tokio")?.as_bool()?, during: fr("during")?, after: fr("after")? })
    }
}

pub fn parts() -> Vec<Box<dyn DynPart>> {
    vec![Box::new(UdpSessions), Box::new(RefusedSend)]
}

pub fn run(run: &mut Run) {
    run.rule = "Sessions of up to 400 datagrams on a real loopback UDP socket pair, each datagram 1..13 whole frames (up to 1020 bytes in either size mode) (all kinds, unknown types, \
        maximum-size frames; 4..1020 bytes), cumulative traffic far beyond the 6120-byte receive buffer, sent in lock-step (send one \
        datagram, read its packets) to a blocking and a tokio connection built over the crate's UDP adaptors; in a quarter of the sessions one or two reads happen while the peer is idle (15 ms read timeout \
        resp. a dropped read future) and the session goes on; then packets are written (in every third session a packet the encoder must refuse among them) and observed by the peer. Oracle: the packets read equal the frames sent, in order (each frame's verdict in isolation); every \
        written packet arrives as exactly one datagram equal to its encoded frame. The 2 s read timeout only detects truncation; it \
        never fires in a passing run. Non-trivial = cumulative traffic before some datagram exceeds 6120 bytes minus that datagram."
        .into();
    run.assumptions = vec!["loopback UDP does not drop or reorder in lock-step use".into()];
    run.max_shrink_iters = 40;
    let n = run.budget(400, 6_000);
    run.prop(&UdpSessions, udp_strategy(120), n);
    let n = run.budget(100, 1_500);
    run.prop(&UdpSessions, udp_strategy(400), n);
    let n = run.budget(60, 600);
    run.prop(&RefusedSend, refused_strategy(), n);
}

pub fn refused_strategy() -> impl Strategy<Value = RefusedCase> {
    let frame = || prop_oneof![
        6 => (any::<usize>(), proptest::collection::vec(any::<u8>(), 0..300)).prop_map(|(k, t)| FrameSpec::Kind(k, t)),
        1 => (1u8..30, any::<u8>()).prop_map(|(a, b)| FrameSpec::Tiny(a, b)),
    ];
    (any::<bool>(), any::<bool>(), proptest::collection::vec(frame(), 2..5), proptest::collection::vec(frame(), 1..5)).prop_map(|(compressed, tokio, during, after)| {
        let mode = if compressed { Mode::Compressed } else { Mode::Uncompressed };
        RefusedCase { compressed, tokio, during: during.iter().map(|f| frame_bytes(f, &mode)).collect(), after: after.iter().map(|f| frame_bytes(f, &mode)).collect() }
    })
}
