//! C09 — the InSim version gate accepts version 9 only, and only when enabled.

use insim::net::Mode;
use serde_json::{json, Value};

use crate::engine::*;
use crate::props::c05::judge_session;
use crate::props::session::*;
use crate::refs::image;
use crate::refs::spec::spec;
use crate::transport::*;

/// (compressed, verify, insim version, position of the VER in a 3-packet history, one read or byte-wise)
#[derive(Clone, Debug)]
pub struct GateCase {
    pub compressed: bool,
    pub verify: bool,
    pub version: u8,
    pub position: usize,
    /// which version / product texts the IS_VER carries (FrameSpec::VerText; 0 = "0.7F" / "S3")
    pub text: u8,
}

pub struct AllVersions;
impl Part for AllVersions {
    type Case = GateCase;
    fn name(&self) -> &'static str {
        "all-256-versions"
    }
    fn check(&self, c: &GateCase, ev: &mut Local) -> Result<(), Fail> {
        let mode = if c.compressed { Mode::Compressed } else { Mode::Uncompressed };
        let others = [FrameSpec::Tiny(3, 1), FrameSpec::Tiny(4, 2)];
        let mut frames: Vec<FrameSpec> = others.to_vec();
        frames.insert(c.position.min(2), FrameSpec::VerText(c.version, c.text));
        let mut stream = vec![];
        for f in &frames {
            stream.extend_from_slice(&frame_bytes(f, &mode));
        }
        for cutting in [Cutting::OneRead, Cutting::Chunks(5)] {
            let steps: Vec<ReadStep> = cut_stream(&stream, &mode, &cutting).into_iter().map(ReadStep::Data).collect();
            let sc = SessionCase { compressed: c.compressed, verify: c.verify, steps, writes: vec![], label: String::new() };
            let mut scratch = Local::new();
            scratch.frozen = true;
            // spelled-out oracle (independent of transport::model_results' gate)
            let (b, t, _) = judge_session(&sc, &mut scratch).map_err(|f| Fail::new(f.sig.replace("c05:", "c09:"), f.msg))?;
            for (which, s) in [("blocking", &b), ("tokio", &t)] {
                ensure!(s.results.len() == 4, "c09:history-length", "{which}: {} results for 3 packets + end of stream: {:?}", s.results.len(), s.results);
                let at = c.position.min(2);
                let r = &s.results[at];
                let delivered = r.starts_with("Ok(Ver(") && r.contains(&format!("insimver: {}", c.version));
                let rejected = *r == format!("Err(IncompatibleVersion({}))", c.version);
                if c.verify && c.version != 9 {
                    ensure!(rejected, "c09:incompatible-version-not-rejected", "{which}: verification on, version {}: got {r}", c.version);
                } else {
                    ensure!(delivered, "c09:version-packet-not-delivered", "{which}: verification {}, version {}: got {r}", c.verify, c.version);
                }
                for (i, r) in s.results.iter().enumerate().take(3) {
                    if i != at {
                        ensure!(r.starts_with("Ok(Tiny("), "c09:neighbour-disturbed", "{which}: packet #{i} next to the VER came back as {r}");
                    }
                }
                ensure!(s.results[3] == "Err(Disconnected)", "c09:history-length", "{which}: {:?}", s.results);
            }
        }
        ev.add_evals(3);
        ev.nontrivial_distinct();
        ev.class(match (c.verify, c.version == 9) {
            (true, true) => "verify-on/version-9",
            (true, false) => "verify-on/other-version",
            (false, _) => "verify-off",
        });
        if c.version % 50 == 9 {
            ev.sample(|| json!({"compressed": c.compressed, "verify": c.verify, "version": c.version, "position": c.position}));
        }
        Ok(())
    }
    fn to_json(&self, c: &GateCase) -> Value {
        json!({"compressed": c.compressed, "verify": c.verify, "version": c.version, "position": c.position, "text": c.text})
    }
    fn from_json(&self, v: &Value) -> Option<GateCase> {
        Some(GateCase { compressed: v.get("compressed")?.as_bool()?, verify: v.get("verify")?.as_bool()?, version: v.get("version")?.as_u64()? as u8, position: v.get("position")?.as_u64()? as usize, text: v.get("text").and_then(|t| t.as_u64()).unwrap_or(0) as u8 })
    }
}

/// every non-version kind must pass the gate untouched, whatever its bytes
pub struct OtherKinds;
impl Part for OtherKinds {
    type Case = (usize, bool, Vec<u8>);
    fn name(&self) -> &'static str {
        "non-version-kinds"
    }
    fn check(&self, c: &(usize, bool, Vec<u8>), ev: &mut Local) -> Result<(), Fail> {
        let p = &spec().packets[c.0 % spec().packets.len()];
        if p.variant == "Ver" {
            return Ok(());
        }
        let mode = if c.1 { Mode::Compressed } else { Mode::Uncompressed };
        let frame = image::from_tape(p, &mode, &c.2, false).image;
        let mut results = vec![];
        for verify in [false, true] {
            let sc = SessionCase { compressed: c.1, verify, steps: vec![ReadStep::Data(frame.clone())], writes: vec![], label: String::new() };
            let mut scratch = Local::new();
            scratch.frozen = true;
            let (b, t, _) = judge_session(&sc, &mut scratch).map_err(|f| Fail::new(f.sig.replace("c05:", "c09:"), f.msg))?;
            ensure!(!b.results[0].contains("IncompatibleVersion") && !t.results[0].contains("IncompatibleVersion"), "c09:gate-rejects-other-kind", "{}: {}", p.variant, b.results[0]);
            results.push((b.results, t.results));
        }
        ensure!(results[0] == results[1], "c09:gate-changes-other-kind", "{}: with verification off {:?}, on {:?}", p.variant, results[0].0, results[1].0);
        ev.nontrivial(&(c.0 % spec().packets.len(), &frame));
        ev.class(&p.variant);
        Ok(())
    }
    fn to_json(&self, c: &(usize, bool, Vec<u8>)) -> Value {
        json!({"kind": c.0 % spec().packets.len(), "compressed": c.1, "tape": hex(&c.2)})
    }
    fn from_json(&self, v: &Value) -> Option<(usize, bool, Vec<u8>)> {
        Some((v.get("kind")?.as_u64()? as usize, v.get("compressed")?.as_bool()?, unhex(v.get("tape")?.as_str()?)?))
    }
}

pub struct GateSessions;
impl Part for GateSessions {
    type Case = SessionCase;
    fn name(&self) -> &'static str {
        "generated-sessions-with-version-packets"
    }
    fn check(&self, c: &SessionCase, ev: &mut Local) -> Result<(), Fail> {
        let (b, _, _) = judge_session(c, ev).map_err(|f| Fail::new(f.sig.replace("c05:", "c09:"), f.msg))?;
        let vers = b.results.iter().filter(|r| r.starts_with("Ok(Ver(") || r.contains("IncompatibleVersion")).count();
        if vers > 0 {
            ev.nontrivial(&session_json(c).to_string());
            ev.class(if c.verify { "verify-on-with-ver" } else { "verify-off-with-ver" });
        }
        Ok(())
    }
    fn to_json(&self, c: &SessionCase) -> Value {
        session_json(c)
    }
    fn from_json(&self, v: &Value) -> Option<SessionCase> {
        session_from(v)
    }
}


/// Sessions in which the application also calls `handshake()` (with an ISI of any version) and `write()` between reads:
/// nothing the application sends may move the gate.
#[derive(Clone, Debug)]
pub struct AppSessionCase {
    pub session: SessionCase,
    pub app: Vec<(usize, AppOp)>,
}

pub struct GateWithAppCalls;
impl Part for GateWithAppCalls {
    type Case = AppSessionCase;
    fn name(&self) -> &'static str {
        "sessions-with-handshake-and-writes"
    }
    fn check(&self, c: &AppSessionCase, ev: &mut Local) -> Result<(), Fail> {
        let s = &c.session;
        let mode = s.mode();
        let stream = s.stream();
        let max_reads = boundaries(&stream, &mode).len() + s.steps.len() + 6;
        // every read attempt returns exactly one result, so result #i is judged by the gate setting in force at attempt #i
        // (a refused version packet consumes its frame like a delivered one: both reference runs stay aligned)
        let on = model_results(&mode, true, &s.steps, true, max_reads);
        let off = model_results(&mode, false, &s.steps, true, max_reads);
        ensure!(on.len() == off.len(), "harness:model-alignment", "reference runs differ in length");
        let mut gate = s.verify;
        let mut model = vec![];
        for i in 0..on.len() {
            for (_, op) in c.app.iter().filter(|(k, _)| *k == i) {
                if let AppOp::SetVerify(v) = op {
                    gate = *v;
                }
            }
            model.push(if gate { on[i].clone() } else { off[i].clone() });
        }
        let b = run_blocking_app(&mode, s.verify, s.steps.clone(), vec![], max_reads, &c.app);
        let t = run_tokio_app(&mode, s.verify, s.steps.clone(), vec![], max_reads, &c.app);
        for (which, r) in [("blocking", &b), ("tokio", &t)] {
            if let Some(p) = &r.panic {
                fail!("c09:panic", "{which} connection panicked: {p}");
            }
            if r.results != model {
                let i = (0..r.results.len().max(model.len())).find(|i| r.results.get(*i) != model.get(*i)).unwrap_or(0);
                let cut = |s: Option<&String>| s.map(|s| s.chars().take(110).collect::<String>()).unwrap_or("<nothing>".into());
                let gate = model.get(i).map(|m| m.contains("IncompatibleVersion")).unwrap_or(false) || r.results.get(i).map(|m| m.contains("IncompatibleVersion")).unwrap_or(false);
                fail!(
                    if gate { "c09:application-calls-move-the-gate" } else { "c09:application-calls-change-what-reads-deliver" },
                    "{which}, verification {}: after the application calls {:?} result #{i} is {} (the reference gate says {})",
                    s.verify,
                    c.app,
                    cut(r.results.get(i)),
                    cut(model.get(i))
                );
            }
        }
        let vers = model.iter().filter(|r| r.starts_with("Ok(Ver(") || r.contains("IncompatibleVersion")).count();
        if vers > 0 && !c.app.is_empty() {
            ev.nontrivial(&format!("{:?}{}", c.app, session_json(s)));
            ev.class(if s.verify { "verify-on-with-ver" } else { "verify-off-with-ver" });
        }
        if c.app.iter().any(|(_, o)| matches!(o, AppOp::SetVerify(_))) {
            ev.class("gate-switched-during-the-session");
        }
        if c.app.iter().any(|(_, o)| matches!(o, AppOp::Handshake(v) if *v != 9)) {
            ev.class("handshake-with-another-isi-version");
        }
        Ok(())
    }
    fn to_json(&self, c: &AppSessionCase) -> Value {
        let app: Vec<Value> = c
            .app
            .iter()
            .map(|(k, o)| match o {
                AppOp::Handshake(v) => json!({"before_read": k, "handshake_isi_version": v}),
                AppOp::Write(f) => json!({"before_read": k, "write": hex(f)}),
                AppOp::SetVerify(v) => json!({"before_read": k, "verify_version": v}),
            })
            .collect();
        json!({"session": session_json(&c.session), "app": app})
    }
    fn from_json(&self, v: &Value) -> Option<AppSessionCase> {
        let mut app = vec![];
        for o in v.get("app")?.as_array()? {
            let k = o.get("before_read")?.as_u64()? as usize;
            if let Some(h) = o.get("handshake_isi_version") {
                app.push((k, AppOp::Handshake(h.as_u64()? as u8)));
            } else if let Some(v) = o.get("verify_version") {
                app.push((k, AppOp::SetVerify(v.as_bool()?)));
            } else {
                app.push((k, AppOp::Write(unhex(o.get("write")?.as_str()?)?)));
            }
        }
        Some(AppSessionCase { session: session_from(v.get("session")?)?, app })
    }
}

pub fn parts() -> Vec<Box<dyn DynPart>> {
    vec![Box::new(AllVersions), Box::new(OtherKinds), Box::new(GateSessions), Box::new(GateWithAppCalls)]
}

pub fn run(run: &mut Run) {
    use proptest::prelude::*;
    run.claims_exhaustive = false;
    run.rule = "Complete: 256 InSim versions x {verification on, off} x {first, middle, last of a 3-packet history} x 2 size modes x 2 \
        segmentations, blocking and tokio: delivered iff verification is off or the version is 9, otherwise IncompatibleVersion carrying \
        the value, neighbours untouched. Random frames of every non-version kind must give identical results with the gate on and off. \
        Generated sessions mixing VER packets with all other kinds are compared with the reference model, also while the application \
        calls handshake() (ISI of any version), write() and verify_version(on/off) between reads (each result judged by the \
        setting in force at its read). Non-trivial = the history \
        contains a version packet (all enumerated cases)."
        .into();
    run.assumptions = vec!["the reference gate: a VER packet with InSim version != 9 is rejected when verification is enabled, nothing else ever is".into()];
    let mut cases = vec![];
    for compressed in [false, true] {
        for verify in [false, true] {
            for position in 0..3 {
                for version in 0..=255u8 {
                    // texts: the usual short one; a version text that fills its 8 bytes; version and product both filling theirs
                    for text in [0u8, 2, 15] {
                        cases.push(GateCase { compressed, verify, version, position, text });
                    }
                }
            }
        }
    }
    let n = cases.len() as u64;
    run.enumerate(&AllVersions, n, true, |i| Some(cases[i as usize].clone()));
    let n = run.budget(20_000, 1_000_000);
    run.prop(&OtherKinds, (any::<usize>(), any::<bool>(), proptest::collection::vec(any::<u8>(), 0..200)), n);
    let n = run.budget(20_000, 1_000_000);
    run.prop(&GateSessions, session_strategy(10, 1, 6, true, None), n);
    // long histories: the gate after hundreds of packets and many version packets
    let n = run.budget(400, 20_000);
    run.prop(&GateSessions, session_strategy(400, 1, 6, true, None), n);
    // histories in which the application also sends: handshake() with an ISI of any version, write() of version requests / ISIs
    let app_op = prop_oneof![
        3 => prop_oneof![Just(9u8), 0u8..12, any::<u8>()].prop_map(AppOp::Handshake),
        2 => any::<bool>().prop_map(|_| AppOp::Write(vec![])),
        2 => any::<bool>().prop_map(AppOp::SetVerify),
    ];
    let strat = (session_strategy(8, 1, 6, false, None), proptest::collection::vec((0usize..6, app_op), 0..4)).prop_map(|(session, app)| {
        let mode = session.mode();
        let app = app
            .into_iter()
            .map(|(k, o)| match o {
                // TINY_VER request (the call that makes LFS send a version packet)
                AppOp::Write(_) => (k, AppOp::Write(frame_bytes(&FrameSpec::Tiny(1, 1), &mode))),
                h => (k, h),
            })
            .collect();
        AppSessionCase { session, app }
    });
    let n = run.budget(20_000, 1_000_000);
    run.prop(&GateWithAppCalls, strat, n);
}
