use crate::engine::{DynPart, Run};

pub struct Prop {
    pub id: &'static str,
    pub run: fn(&mut Run),
    pub parts: fn() -> Vec<Box<dyn DynPart>>,
}

pub mod c13;

pub const ALL: &[Prop] = &[
    Prop { id: "C13", run: c13::run, parts: c13::parts },
];
