use crate::engine::{DynPart, Run};

pub struct Prop {
    pub id: &'static str,
    pub run: fn(&mut Run),
    pub parts: fn() -> Vec<Box<dyn DynPart>>,
}

pub mod c01;
pub mod c02;
pub mod c03;
pub mod c04;
pub mod c05;
pub mod c06;
pub mod c07;
pub mod c08;
pub mod c09;
pub mod session;
pub mod c10;
pub mod c11;
pub mod c12;
pub mod c13;
pub mod c14;
pub mod c15;
pub mod c16;
pub mod c17;
pub mod c18;
pub mod c19;
pub mod c20;

pub const ALL: &[Prop] = &[
    Prop { id: "C01", run: c01::run, parts: c01::parts },
    Prop { id: "C02", run: c02::run, parts: c02::parts },
    Prop { id: "C03", run: c03::run, parts: c03::parts },
    Prop { id: "C04", run: c04::run, parts: c04::parts },
    Prop { id: "C05", run: c05::run, parts: c05::parts },
    Prop { id: "C06", run: c06::run, parts: c06::parts },
    Prop { id: "C07", run: c07::run, parts: c07::parts },
    Prop { id: "C08", run: c08::run, parts: c08::parts },
    Prop { id: "C09", run: c09::run, parts: c09::parts },
    Prop { id: "C10", run: c10::run, parts: c10::parts },
    Prop { id: "C11", run: c11::run, parts: c11::parts },
    Prop { id: "C12", run: c12::run, parts: c12::parts },
    Prop { id: "C13", run: c13::run, parts: c13::parts },
    Prop { id: "C14", run: c14::run, parts: c14::parts },
    Prop { id: "C15", run: c15::run, parts: c15::parts },
    Prop { id: "C16", run: c16::run, parts: c16::parts },
    Prop { id: "C17", run: c17::run, parts: c17::parts },
    Prop { id: "C18", run: c18::run, parts: c18::parts },
    Prop { id: "C19", run: c19::run, parts: c19::parts },
    Prop { id: "C20", run: c20::run, parts: c20::parts },
];
