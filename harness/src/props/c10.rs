//! C10 — codepage text conversion is faithful, total and uses LFS's tables.

use insim_core::string::codepages::{to_lossy_bytes, to_lossy_string};
use proptest::prelude::*;
use proptest::sample::Index;
use serde_json::{json, Value};

use crate::engine::*;
use crate::refs::cp::{self, ref_decode, MARKERS};

fn decode(b: &[u8]) -> Result<String, Fail> {
    guard(|| to_lossy_string(b).into_owned()).map_err(|p| Fail::new("c10:decode-panic", format!("{} ({} bytes): {p}", hex(&b[..b.len().min(64)]), b.len())))
}
fn encode(s: &str) -> Result<Vec<u8>, Fail> {
    guard(|| to_lossy_bytes(s).into_owned()).map_err(|p| Fail::new("c10:encode-panic", format!("{:?} ({} characters): {p}", s.chars().take(64).collect::<String>(), s.chars().count())))
}

/// classify a decode mismatch on a constructed wire string by root cause
fn classify_decode(wire: &[u8], got: &str, want: &str) -> &'static str {
    // BOM-like start of a segment
    let mut seg_starts = vec![0usize];
    let mut i = 0;
    while i + 1 < wire.len() {
        if wire[i] == b'^' && cp::table_for_marker(wire[i + 1]).is_some() {
            seg_starts.push(i + 2);
        }
        i += 1;
    }
    for s in seg_starts {
        let r = &wire[s..];
        if r.starts_with(&[0xFF, 0xFE]) || r.starts_with(&[0xFE, 0xFF]) || r.starts_with(&[0xEF, 0xBB, 0xBF]) {
            return "c10:bom-sniffing";
        }
    }
    // a double-byte trail byte 0x5E followed by a marker letter
    let _ = (got, want);
    let mut cur = cp::table("cp1252");
    let mut i = 0;
    while i < wire.len() {
        let b = wire[i];
        if b == b'^' && i + 1 < wire.len() {
            if let Some(t) = cp::table_for_marker(wire[i + 1]) {
                cur = t;
                i += 2;
                continue;
            }
        }
        if b >= 0x80 && cur.dbcs && cur.is_lead(b) && i + 1 < wire.len() {
            if wire[i + 1] == b'^' && i + 2 < wire.len() && cp::table_for_marker(wire[i + 2]).is_some() {
                return "c10:dbcs-trail-caret-marker";
            }
            i += 2;
            continue;
        }
        i += 1;
    }
    "c10:marker-table"
}

// ---------------------------------------------------------------------------------------
// A. decode table sweep (complete)
// ---------------------------------------------------------------------------------------

#[derive(Clone, Debug)]
pub struct TableCase {
    pub marker: u8,
    pub bytes: Vec<u8>,
}

pub struct DecodeSweep;
impl Part for DecodeSweep {
    type Case = TableCase;
    fn name(&self) -> &'static str {
        "decode-table-sweep"
    }
    fn check(&self, c: &TableCase, ev: &mut Local) -> Result<(), Fail> {
        let t = cp::table_for_marker(c.marker).ok_or_else(|| Fail::new("harness:marker", "unknown marker"))?;
        let want_c = match c.bytes.len() {
            1 => t.single[c.bytes[0] as usize],
            2 => t.double.get(&(c.bytes[0], c.bytes[1])).copied(),
            _ => None,
        }
        .ok_or_else(|| Fail::new("harness:entry", "not a table entry"))?;
        let mut wire = vec![b'^', c.marker];
        wire.extend_from_slice(&c.bytes);
        let mut want = String::new();
        if c.marker == b'8' {
            want.push_str("^8");
        }
        want.push(want_c);
        let got = decode(&wire)?;
        if got != want {
            let sig = classify_decode(&wire, &got, &want);
            fail!(
                sig,
                "^{} + {} ({}) decodes to {got:?}, LFS codepage {} says {want:?}",
                c.marker as char,
                hex(&c.bytes),
                t.name,
                t.name
            );
        }
        // ... and with ASCII neighbours, which must be untouched
        let mut wire2 = b"a".to_vec();
        wire2.extend_from_slice(&wire);
        wire2.push(b'z');
        let got2 = decode(&wire2)?;
        let want2 = format!("a{want}z");
        if got2 != want2 {
            let sig = classify_decode(&wire2, &got2, &want2);
            fail!(sig, "{} decodes to {got2:?}, expected {want2:?}", hex(&wire2));
        }
        ev.nontrivial_distinct();
        ev.class(t.name);
        if c.bytes.len() == 2 && c.bytes[1] == 0x5E {
            ev.class("trail-byte-is-caret");
        }
        Ok(())
    }
    fn to_json(&self, c: &TableCase) -> Value {
        json!({"marker": (c.marker as char).to_string(), "bytes": hex(&c.bytes)})
    }
    fn from_json(&self, v: &Value) -> Option<TableCase> {
        Some(TableCase {
            marker: v.get("marker")?.as_str()?.as_bytes()[0],
            bytes: unhex(v.get("bytes")?.as_str()?)?,
        })
    }
}

// ---------------------------------------------------------------------------------------
// B. constructed wire strings (proptest)
// ---------------------------------------------------------------------------------------

#[derive(Clone, Debug)]
pub struct WireCase {
    pub wire: Vec<u8>,
    pub expected: String,
    pub shape: String,
}

#[derive(Clone, Debug)]
enum Item {
    /// table entry chosen by index
    Entry(Index),
    /// entry whose trail byte is 0x5E, if the codepage has any (else any entry)
    CaretTrail(Index),
    Ascii(u8),
    /// an ASCII marker letter (L G C E T B J S K H 8) as plain text
    MarkerLetter(Index),
    /// a character that several codepages share
    Shared(Index),
}

#[derive(Clone, Debug)]
struct Seg {
    /// None = no marker (only meaningful for the first segment: default Latin-1)
    marker: Option<usize>,
    /// BOM-look-alike prefix in this segment's codepage (only emitted if all its chars are encodable there)
    bom: Option<u8>,
    items: Vec<Item>,
}

fn caret_trail_entries(t: &cp::Table) -> Vec<usize> {
    t.entries
        .iter()
        .enumerate()
        .filter(|(_, e)| e.0.len() == 2 && e.0[1] == 0x5E)
        .map(|(i, _)| i)
        .collect()
}

fn shared_chars() -> &'static Vec<char> {
    static S: std::sync::OnceLock<Vec<char>> = std::sync::OnceLock::new();
    S.get_or_init(|| {
        let mut count: std::collections::HashMap<char, u32> = std::collections::HashMap::new();
        for t in cp::tables() {
            for c in t.encode.keys() {
                *count.entry(*c).or_insert(0) += 1;
            }
        }
        let mut v: Vec<char> = count.into_iter().filter(|(_, n)| *n >= 3).map(|(c, _)| c).collect();
        v.sort();
        v
    })
}

fn build_wire(segs: &[Seg]) -> WireCase {
    let mut wire = vec![];
    let mut expected = String::new();
    let mut shapes: Vec<&str> = vec![];
    let mut cur = cp::table("cp1252");
    for (si, s) in segs.iter().enumerate() {
        match s.marker {
            Some(m) => {
                let (letter, name) = MARKERS[m];
                wire.push(b'^');
                wire.push(letter);
                if letter == b'8' {
                    expected.push_str("^8");
                }
                if cp::table(name).name == cur.name && si > 0 {
                    shapes.push("redundant-marker");
                }
                cur = cp::table(name);
            },
            None => {
                if si > 0 {
                    // a marker-less later segment simply continues the previous one
                }
            },
        }
        if let Some(b) = s.bom {
            let text: &[char] = match b % 3 {
                0 => &['ÿ', 'þ'],
                1 => &['þ', 'ÿ'],
                _ => &['ï', '»', '¿'],
            };
            if text.iter().all(|c| cur.encode.get(c).map(|e| e.len() == 1).unwrap_or(false)) {
                for c in text {
                    wire.extend_from_slice(&cur.encode[c]);
                    expected.push(*c);
                }
                shapes.push("bom-lookalike");
            }
        }
        for it in &s.items {
            match it {
                Item::Entry(ix) => {
                    let e = &cur.entries[ix.index(cur.entries.len())];
                    wire.extend_from_slice(&e.0);
                    expected.push(e.1);
                },
                Item::CaretTrail(ix) => {
                    let ct = caret_trail_entries(cur);
                    let e = if ct.is_empty() {
                        &cur.entries[ix.index(cur.entries.len())]
                    } else {
                        shapes.push("dbcs-trail-caret");
                        &cur.entries[ct[ix.index(ct.len())]]
                    };
                    wire.extend_from_slice(&e.0);
                    expected.push(e.1);
                },
                Item::Ascii(a) => {
                    wire.push(*a);
                    expected.push(*a as char);
                },
                Item::MarkerLetter(ix) => {
                    let l = MARKERS[ix.index(MARKERS.len())].0;
                    wire.push(l);
                    expected.push(l as char);
                },
                Item::Shared(ix) => {
                    let sc = shared_chars();
                    let c = sc[ix.index(sc.len())];
                    if let Some(e) = cur.encode.get(&c) {
                        wire.extend_from_slice(e);
                        expected.push(c);
                        shapes.push("shared-char");
                    }
                },
            }
        }
    }
    shapes.sort();
    shapes.dedup();
    WireCase {
        wire,
        expected,
        shape: shapes.join("+"),
    }
}

fn wire_strategy() -> impl Strategy<Value = WireCase> {
    // caret-free printable ASCII
    let ascii = (0x20u8..0x7E).prop_map(|b| if b == b'^' { b'~' } else { b });
    let item = prop_oneof![
        6 => any::<Index>().prop_map(Item::Entry),
        3 => any::<Index>().prop_map(Item::CaretTrail),
        4 => ascii.prop_map(Item::Ascii),
        3 => any::<Index>().prop_map(Item::MarkerLetter),
        2 => any::<Index>().prop_map(Item::Shared),
    ];
    let seg = (
        prop::option::weighted(0.9, 0..MARKERS.len()),
        prop::option::weighted(0.15, any::<u8>()),
        proptest::collection::vec(item, 0..9),
    )
        .prop_map(|(marker, bom, items)| Seg { marker, bom, items });
    proptest::collection::vec(seg, 1..7).prop_map(|mut segs| {
        // only the first segment may lack a marker
        for (i, s) in segs.iter_mut().enumerate() {
            if i > 0 && s.marker.is_none() {
                s.marker = Some(0);
            }
        }
        build_wire(&segs)
    })
}

pub struct ConstructedWire;
impl Part for ConstructedWire {
    type Case = WireCase;
    fn name(&self) -> &'static str {
        "constructed-wire-strings"
    }
    fn check(&self, c: &WireCase, ev: &mut Local) -> Result<(), Fail> {
        let got = decode(&c.wire)?;
        if got != c.expected {
            let sig = classify_decode(&c.wire, &got, &c.expected);
            fail!(sig, "wire {} decodes to {got:?}, expected {:?}", hex(&c.wire), c.expected);
        }
        // the independent reference decoder must agree with the construction (harness self-check)
        if let Some(r) = ref_decode(&c.wire) {
            ensure!(r == c.expected, "harness:ref-decoder-disagrees-with-construction", "{} -> {r:?} vs {:?}", hex(&c.wire), c.expected);
        }
        if !c.expected.is_ascii() {
            ev.nontrivial(&c.wire);
        }
        ev.class(if c.shape.is_empty() { "plain" } else { &c.shape });
        if !c.shape.is_empty() {
            ev.sample(|| json!({"wire": hex(&c.wire), "expected": c.expected, "shape": c.shape}));
        }
        Ok(())
    }
    fn to_json(&self, c: &WireCase) -> Value {
        json!({"wire": hex(&c.wire), "expected": c.expected, "shape": c.shape})
    }
    fn from_json(&self, v: &Value) -> Option<WireCase> {
        Some(WireCase {
            wire: unhex(v.get("wire")?.as_str()?)?,
            expected: v.get("expected")?.as_str()?.to_string(),
            shape: v.get("shape").and_then(|s| s.as_str()).unwrap_or("").to_string(),
        })
    }
}

// ---------------------------------------------------------------------------------------
// C. faithfulness of encode -> decode (proptest) and D. unrepresentable characters
// ---------------------------------------------------------------------------------------

fn classify_roundtrip(s: &str, bytes: &[u8], back: &str) -> &'static str {
    // a character whose chosen byte sequence means something else in the reference table
    if let Some(r) = ref_decode(bytes) {
        if r != s && back != s {
            // both the crate's decoder and the reference disagree with the input: the encoder picked wrong bytes
            let lossy = s.chars().any(|c| matches!(c, '\u{a5}' | '\u{203e}' | '\u{2212}'));
            if lossy {
                return "c10:lossy-encoder-mapping";
            }
        }
    }
    let sig = classify_decode(bytes, back, s);
    if sig != "c10:marker-table" {
        return sig;
    }
    "c10:roundtrip-differs"
}

pub struct Faithful;
impl Part for Faithful {
    type Case = String;
    fn name(&self) -> &'static str {
        "faithful-roundtrip"
    }
    fn check(&self, s: &String, ev: &mut Local) -> Result<(), Fail> {
        let bytes = encode(s)?;
        if s.is_ascii() {
            ensure!(bytes == s.as_bytes(), "c10:ascii-not-passed-through", "{s:?} -> {}", hex(&bytes));
            if !s.contains('^') {
                let back = decode(s.as_bytes())?;
                ensure!(back == *s, "c10:ascii-not-passed-through", "decode of ASCII {s:?} gives {back:?}");
            }
            ev.class("ascii");
            return Ok(());
        }
        let back = decode(&bytes)?;
        if back != *s {
            fail!(classify_roundtrip(s, &bytes, &back), "{s:?} -> {} -> {back:?}", hex(&bytes));
        }
        match ref_decode(&bytes) {
            Some(r) => {
                if r != *s {
                    let sig = if s.chars().any(|c| matches!(c, '\u{a5}' | '\u{203e}' | '\u{2212}')) {
                        "c10:lossy-encoder-mapping"
                    } else {
                        "c10:encoder-bytes-mean-something-else-in-lfs-codepage"
                    };
                    fail!(sig, "{s:?} -> {}: round-trips inside the crate, but the LFS codepages read it as {r:?}", hex(&bytes));
                }
                ev.class("reference-decoder-agrees");
            },
            None => ev.class("reference-silent"),
        }
        let switches = bytes.windows(2).filter(|w| w[0] == b'^' && cp::table_for_marker(w[1]).is_some()).count();
        ev.class(match switches {
            0 => "switches-0",
            1 => "switches-1",
            2..=3 => "switches-2-3",
            _ => "switches-4+",
        });
        ev.nontrivial(s);
        if switches >= 2 {
            ev.sample(|| json!({"text": s, "wire": hex(&bytes)}));
        }
        Ok(())
    }
    fn to_json(&self, c: &String) -> Value {
        json!({"text": c})
    }
    fn from_json(&self, v: &Value) -> Option<String> {
        Some(v.get("text")?.as_str()?.to_string())
    }
}

fn text_strategy(maxlen: usize) -> impl Strategy<Value = String> {
    let rep = cp::repertoire();
    let tables = cp::tables();
    let ch = prop_oneof![
        3 => (0x20u8..0x7E).prop_map(|b| if b == b'^' { '~' } else { b as char }),
        // uniformly from one codepage (so small codepages are not drowned by CJK)
        6 => (0..tables.len(), any::<Index>()).prop_map(move |(t, ix)| {
            let e = &tables[t].entries;
            e[ix.index(e.len())].1
        }),
        2 => any::<Index>().prop_map(move |ix| rep[ix.index(rep.len())]),
        1 => any::<Index>().prop_map(|ix| { let s = shared_chars(); s[ix.index(s.len())] }),
        1 => prop::sample::select(vec!['ÿ', 'þ', 'ï', '»', '¿', '\u{a5}', 'L', 'J', 'H', 'S', 'K', '8']),
    ];
    proptest::collection::vec(ch, 0..maxlen).prop_map(|v| v.into_iter().collect())
}

/// characters that exist in none of the ten codepages (checked at start-up against the reference tables AND
/// against the Windows-labelled encoding_rs encoders, so the domain is conservative)
fn unrepresentable_pool() -> &'static Vec<char> {
    static P: std::sync::OnceLock<Vec<char>> = std::sync::OnceLock::new();
    P.get_or_init(|| {
        let encs = [
            encoding_rs::WINDOWS_1252,
            encoding_rs::WINDOWS_1253,
            encoding_rs::WINDOWS_1251,
            encoding_rs::WINDOWS_1250,
            encoding_rs::WINDOWS_1254,
            encoding_rs::WINDOWS_1257,
            encoding_rs::ISO_8859_7,
            encoding_rs::ISO_8859_2,
            encoding_rs::ISO_8859_13,
            encoding_rs::SHIFT_JIS,
            encoding_rs::GBK,
            encoding_rs::EUC_KR,
            encoding_rs::BIG5,
        ];
        let _ = &encs;
        let mut v = vec![];
        let ranges: [(u32, u32); 7] = [
            (0x0590, 0x05FF), // Hebrew
            (0x0600, 0x06FF), // Arabic
            (0x0900, 0x097F), // Devanagari
            (0x0E00, 0x0E7F), // Thai
            (0x1200, 0x137F), // Ethiopic
            (0x1F300, 0x1F6FF), // emoji
            (0x10000, 0x1007F), // Linear B
        ];
        for (a, b) in ranges {
            for u in a..=b {
                let Some(c) = char::from_u32(u) else { continue };
                if cp::in_any_table(c) {
                    continue;
                }
                let mut buf = [0u8; 4];
                let s = c.encode_utf8(&mut buf);
                if encs.iter().any(|e| !e.encode(s).2) {
                    continue;
                }
                v.push(c);
            }
        }
        // U+203E and U+2212 are in none of the ten Windows tables either (cp932 0x7E is '~', 0x817C is U+FF0D), but the
        // WHATWG Shift_JIS *encoder* has one-way mappings for them: they must come out as '?', not as another character.
        for _ in 0..(v.len() / 50).max(1) {
            v.push('\u{203e}');
            v.push('\u{2212}');
        }
        v
    })
}

/// conservative "exists in none of the ten codepages": in no reference table and refused by every Windows-labelled encoder
fn is_unrepresentable(c: char) -> bool {
    let encs = [
        encoding_rs::WINDOWS_1252,
        encoding_rs::WINDOWS_1253,
        encoding_rs::WINDOWS_1251,
        encoding_rs::WINDOWS_1250,
        encoding_rs::WINDOWS_1254,
        encoding_rs::WINDOWS_1257,
        encoding_rs::ISO_8859_7,
        encoding_rs::ISO_8859_2,
        encoding_rs::ISO_8859_13,
        encoding_rs::SHIFT_JIS,
        encoding_rs::GBK,
        encoding_rs::EUC_KR,
        encoding_rs::BIG5,
    ];
    if cp::in_any_table(c) || c == '^' || c.is_ascii() {
        return false;
    }
    let mut buf = [0u8; 4];
    let s = c.encode_utf8(&mut buf);
    !encs.iter().any(|e| !e.encode(s).2)
}

/// characters whose code point differs from an encodable character's only above bit 16 or bit 8 (what a narrowed key, a
/// truncating cast or a hash of the low bits would confuse with it), placed right after (or before) that character
fn alias_strategy() -> impl Strategy<Value = (String, char, String)> {
    let rep = cp::repertoire();
    (text_strategy(6), any::<Index>(), 1u32..=16, any::<bool>(), any::<bool>(), text_strategy(6)).prop_map(move |(a, ix, k, high, before, b)| {
        let e = rep[ix.index(rep.len())];
        let cand = if high { e as u32 + (k << 16) } else { (e as u32 & 0xFF) | ((e as u32 >> 8).wrapping_add(k) << 8) };
        let x = char::from_u32(cand).filter(|c| is_unrepresentable(*c)).unwrap_or('\u{10400}');
        if before {
            (format!("{a}{e}"), x, b)
        } else {
            (a, x, format!("{e}{b}"))
        }
    })
}

pub struct Unrepresentable;
impl Part for Unrepresentable {
    type Case = (String, char, String);
    fn name(&self) -> &'static str {
        "unrepresentable-character"
    }
    fn check(&self, c: &(String, char, String), ev: &mut Local) -> Result<(), Fail> {
        let s = format!("{}{}{}", c.0, c.1, c.2);
        let bytes = encode(&s)?;
        let back = decode(&bytes)?;
        let want = format!("{}?{}", c.0, c.2);
        if back != want {
            // if the neighbours alone do not survive, the root cause is not the unrepresentable character
            let plain = format!("{}{}", c.0, c.2);
            let pb = encode(&plain)?;
            let pback = decode(&pb)?;
            if pback != plain {
                fail!(classify_roundtrip(&plain, &pb, &pback), "{plain:?} -> {} -> {pback:?}", hex(&pb));
            }
            let sig = if matches!(c.1, '\u{203e}' | '\u{2212}') { "c10:lossy-encoder-mapping" } else { "c10:unrepresentable-not-question-mark" };
            fail!(sig, "{s:?} -> {} -> {back:?}, expected {want:?}", hex(&bytes));
        }
        ev.nontrivial(&s);
        ev.class(if c.0.is_ascii() && c.2.is_ascii() { "ascii-neighbours" } else { "codepage-neighbours" });
        ev.sample(|| json!({"text": s, "wire": hex(&bytes), "decoded": back}));
        Ok(())
    }
    fn to_json(&self, c: &(String, char, String)) -> Value {
        json!({"a": c.0, "x": c.1.to_string(), "b": c.2})
    }
    fn from_json(&self, v: &Value) -> Option<(String, char, String)> {
        Some((
            v.get("a")?.as_str()?.to_string(),
            v.get("x")?.as_str()?.chars().next()?,
            v.get("b")?.as_str()?.to_string(),
        ))
    }
}

// ---------------------------------------------------------------------------------------
// E. every byte pair after every marker (complete): totality + differential where the reference is defined
// ---------------------------------------------------------------------------------------

#[derive(Clone, Debug)]
pub enum PairCase {
    Block(u8, u8),
    One(Vec<u8>),
}

fn judge_bytes(wire: &[u8], ev: &mut Local) -> Result<bool, Fail> {
    let got = decode(wire)?;
    ensure!(got.len() <= 4 * wire.len() + 4, "c10:decode-output-unbounded", "{} -> {} bytes", hex(wire), got.len());
    // and the reverse direction is total on whatever came out
    let _ = encode(&got)?;
    match ref_decode(wire) {
        Some(r) => {
            if got != r {
                let sig = {
                    let s = classify_decode(wire, &got, &r);
                    // an escaped caret in front of a marker letter is C12's shape; same root cause
                    if s == "c10:marker-table" && wire.windows(3).any(|w| w[0] == b'^' && w[1] == b'^' && cp::table_for_marker(w[2]).is_some()) {
                        "c10:escaped-caret-before-marker-letter"
                    } else {
                        s
                    }
                };
                fail!(sig, "{} decodes to {got:?}, reference decoder says {r:?}", hex(wire));
            }
            ev.class("reference-defined");
            Ok(true)
        },
        None => {
            ev.class("reference-silent");
            Ok(false)
        },
    }
}

pub struct MarkerPairs;
impl Part for MarkerPairs {
    type Case = PairCase;
    fn name(&self) -> &'static str {
        "every-byte-pair-after-every-marker"
    }
    fn check(&self, c: &PairCase, ev: &mut Local) -> Result<(), Fail> {
        match c {
            PairCase::One(w) => {
                if judge_bytes(w, ev)? {
                    ev.nontrivial(w);
                }
                Ok(())
            },
            PairCase::Block(m, b1) => {
                let mut nt = 0;
                for b2 in 0..=255u8 {
                    let wire = [b'^', *m, *b1, b2];
                    match judge_bytes(&wire, ev) {
                        Ok(true) => nt += 1,
                        Ok(false) => {},
                        Err(f) => return Err(f.with_case(json!({"wire": hex(&wire)}))),
                    }
                }
                ev.add_evals(255);
                ev.add_nontrivial_distinct(nt);
                Ok(())
            },
        }
    }
    fn to_json(&self, c: &PairCase) -> Value {
        match c {
            PairCase::Block(m, b) => json!({"marker": (*m as char).to_string(), "b1": b}),
            PairCase::One(w) => json!({"wire": hex(w)}),
        }
    }
    fn from_json(&self, v: &Value) -> Option<PairCase> {
        if let Some(w) = v.get("wire").and_then(|w| w.as_str()) {
            return Some(PairCase::One(unhex(w)?));
        }
        Some(PairCase::Block(v.get("marker")?.as_str()?.as_bytes()[0], v.get("b1")?.as_u64()? as u8))
    }
}

// ---------------------------------------------------------------------------------------
// F. random byte strings / random Unicode (totality + differential)
// ---------------------------------------------------------------------------------------

pub struct RandomBytes;
impl Part for RandomBytes {
    type Case = Vec<u8>;
    fn name(&self) -> &'static str {
        "random-bytes"
    }
    fn check(&self, w: &Vec<u8>, ev: &mut Local) -> Result<(), Fail> {
        if judge_bytes(w, ev)? && w.iter().any(|b| *b >= 0x80) {
            ev.nontrivial(w);
            ev.sample(|| json!({"wire": hex(w), "decoded": to_lossy_string(w)}));
        }
        Ok(())
    }
    fn to_json(&self, c: &Vec<u8>) -> Value {
        json!({"wire": hex(c)})
    }
    fn from_json(&self, v: &Value) -> Option<Vec<u8>> {
        unhex(v.get("wire")?.as_str()?)
    }
}

fn bytes_strategy() -> impl Strategy<Value = Vec<u8>> {
    let b = prop_oneof![
        3 => Just(b'^'),
        3 => prop::sample::select(b"LGCETBJSKH8".to_vec()),
        3 => 0x20u8..0x7F,
        6 => 0x80u8..=0xFF,
        1 => any::<u8>(),
        1 => prop::sample::select(vec![0xFFu8, 0xFE, 0xEF, 0xBB, 0xBF, 0x5E, 0x83, 0x81]),
    ];
    proptest::collection::vec(b, 0..48)
}

pub struct RandomUnicode;
impl Part for RandomUnicode {
    type Case = String;
    fn name(&self) -> &'static str {
        "random-unicode-totality"
    }
    fn check(&self, s: &String, ev: &mut Local) -> Result<(), Fail> {
        let b = encode(s)?;
        let d = decode(&b)?;
        ensure!(d.len() <= 4 * b.len() + 4, "c10:decode-output-unbounded", "{s:?}");
        // characters outside every table come back as '?' only if nothing else was disturbed: checked in part D.
        if !s.is_ascii() {
            ev.nontrivial(s);
        }
        ev.class(if s.chars().all(cp::in_any_table) { "all-encodable" } else { "has-unencodable" });
        Ok(())
    }
    fn to_json(&self, c: &String) -> Value {
        json!({"text": c})
    }
    fn from_json(&self, v: &Value) -> Option<String> {
        Some(v.get("text")?.as_str()?.to_string())
    }
}


/// Whether a caret-free text survives encode -> decode must not depend on its neighbours: rt(a + b) == rt(a) && rt(b). No
/// table knowledge is used, so the relation also covers characters about which the reference tables are silent (C1 controls,
/// private-use and unassigned code points): a fast path or cache that treats a character differently by context breaks it.
pub struct ContextFree;
impl Part for ContextFree {
    type Case = (String, String);
    fn name(&self) -> &'static str {
        "round-trip-is-context-free"
    }
    fn check(&self, c: &(String, String), ev: &mut Local) -> Result<(), Fail> {
        let rt = |s: &str| -> Result<(bool, Vec<u8>, String), Fail> {
            let w = encode(s)?;
            let d = decode(&w)?;
            Ok((d == s, w, d))
        };
        let ab = format!("{}{}", c.0, c.1);
        let cut = |s: &str| -> String { s.chars().take(48).collect() };
        let (ra, wa, da) = rt(&c.0)?;
        let (rb, wb, db) = rt(&c.1)?;
        let (rab, wab, dab) = rt(&ab)?;
        ensure!(
            rab == (ra && rb),
            "c10:roundtrip-depends-on-context",
            "{:?} -> {} -> {:?} ({}), {:?} -> {} -> {:?} ({}), but together {:?} -> {} -> {:?} ({}) [texts of {} + {} characters, shown cut to 48]",
            cut(&c.0),
            hex(&wa[..wa.len().min(48)]),
            cut(&da),
            if ra { "survives" } else { "does not survive" },
            cut(&c.1),
            hex(&wb[..wb.len().min(48)]),
            cut(&db),
            if rb { "survives" } else { "does not survive" },
            cut(&ab),
            hex(&wab[..wab.len().min(48)]),
            cut(&dab),
            if rab { "survives" } else { "does not survive" },
            c.0.chars().count(),
            c.1.chars().count()
        );
        if !c.0.is_empty() && !c.1.is_empty() {
            ev.nontrivial(c);
        }
        ev.class(match (ra, rb) {
            (true, true) => "both survive",
            (false, false) => "neither survives",
            _ => "one survives",
        });
        if ev.wants_sample() && !ab.is_ascii() && ab.chars().count() <= 4 {
            ev.sample(|| json!({"a": c.0, "b": c.1, "wire": hex(&wab), "survives": rab}));
        }
        Ok(())
    }
    fn to_json(&self, c: &(String, String)) -> Value {
        json!({"a": c.0, "b": c.1})
    }
    fn from_json(&self, v: &Value) -> Option<(String, String)> {
        Some((v.get("a")?.as_str()?.to_string(), v.get("b")?.as_str()?.to_string()))
    }
}

// ---------------------------------------------------------------------------------------
// H. decoding is local: what a byte decodes to does not depend on the bytes around it
// ---------------------------------------------------------------------------------------
/// A wire string is built from marker segments whose items are table entries of that segment's codepage, caret-free ASCII
/// and runs of the bytes 0x80 / 0xFF (never a lead byte in any of the ten codepages; undefined in most, so the reference
/// tables are silent about them). It is cut at an item boundary: decode(whole) must equal decode(left) + decode(marker of the
/// segment the cut falls in + right). No table knowledge is used - bytes that are no character of the codepage must not eat,
/// move or drop their neighbours; where the right part is reference-defined it must also equal the reference decoding.
#[derive(Clone, Debug)]
pub enum LocalItem {
    /// position in the table as a 32-bit fraction (index = raw * len >> 32)
    Entry(u32),
    Ascii(u8),
    Strays(u8, usize),
}

#[derive(Clone, Debug)]
pub struct LocalCase {
    /// (index into the ten letter markers, items)
    pub segs: Vec<(usize, Vec<LocalItem>)>,
    pub cut: u32,
}

pub struct Locality;
impl Locality {
    /// (wire pieces, marker of the segment each piece belongs to)
    fn pieces(c: &LocalCase) -> Vec<(Vec<u8>, u8)> {
        let mut out = vec![];
        for (m, items) in &c.segs {
            let (letter, name) = MARKERS[*m % 10];
            let t = cp::table(name);
            out.push((vec![b'^', letter], letter));
            for it in items {
                let bytes = match it {
                    LocalItem::Entry(raw) => t.entries[((*raw as u64 * t.entries.len() as u64) >> 32) as usize].0.clone(),
                    LocalItem::Ascii(b) => vec![if *b == b'^' { b'~' } else { *b }],
                    LocalItem::Strays(b, n) => vec![*b; *n],
                };
                out.push((bytes, letter));
            }
        }
        out
    }
}
impl Part for Locality {
    type Case = LocalCase;
    fn name(&self) -> &'static str {
        "decoding-is-local"
    }
    fn check(&self, c: &LocalCase, ev: &mut Local) -> Result<(), Fail> {
        let pieces = Self::pieces(c);
        if pieces.len() < 2 {
            return Ok(());
        }
        // cut in front of piece k (k >= 1); a cut in front of a marker piece needs no repeated marker
        let k = 1 + ((c.cut as u64 * (pieces.len() - 1) as u64) >> 32) as usize;
        let whole: Vec<u8> = pieces.iter().flat_map(|p| p.0.clone()).collect();
        let left: Vec<u8> = pieces[..k].iter().flat_map(|p| p.0.clone()).collect();
        let mut right: Vec<u8> = if pieces[k].0.first() == Some(&b'^') { vec![] } else { vec![b'^', pieces[k].1] };
        right.extend(pieces[k..].iter().flat_map(|p| p.0.clone()));
        let (dw, dl, dr) = (decode(&whole)?, decode(&left)?, decode(&right)?);
        ensure!(
            dw == format!("{dl}{dr}"),
            "c10:decoding-depends-on-neighbouring-bytes",
            "{} decodes to {dw:?}, but its left part {} decodes to {dl:?} and the rest {} to {dr:?}",
            hex(&whole),
            hex(&left),
            hex(&right)
        );
        if let Some(r) = ref_decode(&right) {
            ensure!(dr == r, "c10:marker-table", "{} decodes to {dr:?}, reference decoder says {r:?}", hex(&right));
            ev.class("right part reference-defined");
        }
        let strays = c.segs.iter().flat_map(|s| s.1.iter()).filter_map(|i| if let LocalItem::Strays(_, n) = i { Some(*n) } else { None }).max().unwrap_or(0);
        ev.class(if strays >= 5 { "a run of 5 or more undefined bytes" } else if strays > 0 { "undefined bytes" } else { "defined bytes only" });
        if strays > 0 {
            ev.nontrivial(&whole);
        }
        if ev.wants_sample() && strays > 0 && whole.len() < 24 {
            ev.sample(|| json!({"wire": hex(&whole), "cut_at": left.len(), "decoded": dw}));
        }
        Ok(())
    }
    fn to_json(&self, c: &LocalCase) -> Value {
        let segs: Vec<Value> = c
            .segs
            .iter()
            .map(|(m, items)| {
                let items: Vec<Value> = items
                    .iter()
                    .map(|i| match i {
                        LocalItem::Entry(raw) => json!({"entry": raw}),
                        LocalItem::Ascii(b) => json!({"ascii": b}),
                        LocalItem::Strays(b, n) => json!({"stray": b, "n": n}),
                    })
                    .collect();
                json!({"marker": m, "items": items})
            })
            .collect();
        json!({"segs": segs, "cut": c.cut})
    }
    fn from_json(&self, v: &Value) -> Option<LocalCase> {
        let mut segs = vec![];
        for s in v.get("segs")?.as_array()? {
            let mut items = vec![];
            for i in s.get("items")?.as_array()? {
                if let Some(e) = i.get("entry") {
                    items.push(LocalItem::Entry(e.as_u64()? as u32));
                } else if let Some(a) = i.get("ascii") {
                    items.push(LocalItem::Ascii(a.as_u64()? as u8));
                } else {
                    items.push(LocalItem::Strays(i.get("stray")?.as_u64()? as u8, i.get("n")?.as_u64()? as usize));
                }
            }
            segs.push((s.get("marker")?.as_u64()? as usize, items));
        }
        Some(LocalCase { segs, cut: v.get("cut")?.as_u64()? as u32 })
    }
}

fn local_strategy() -> impl Strategy<Value = LocalCase> {
    let item = prop_oneof![
        4 => any::<u32>().prop_map(LocalItem::Entry),
        2 => (0x20u8..0x7F).prop_map(LocalItem::Ascii),
        3 => (prop::sample::select(vec![0x80u8, 0xFF]), prop_oneof![3 => 1usize..5, 3 => 5usize..40, 1 => 40usize..300]).prop_map(|(b, n)| LocalItem::Strays(b, n)),
    ];
    // the double-byte codepages (indices 6..10) get half the segments
    let marker = prop_oneof![1 => 0usize..6, 1 => 6usize..10];
    (proptest::collection::vec((marker, proptest::collection::vec(item, 0..6)), 1..4), any::<u32>()).prop_map(|(segs, cut)| LocalCase { segs, cut })
}

pub fn parts() -> Vec<Box<dyn DynPart>> {
    vec![
        Box::new(DecodeSweep),
        Box::new(ConstructedWire),
        Box::new(Faithful),
        Box::new(Unrepresentable),
        Box::new(MarkerPairs),
        Box::new(ContextFree),
        Box::new(Locality),
        Box::new(RandomBytes),
        Box::new(RandomUnicode),
    ]
}

pub fn run(run: &mut Run) {
    let total_entries: usize = cp::tables().iter().map(|t| t.entries.len()).sum();
    run.rule = format!(
        "(A) complete sweep: every retained entry of the ten reference tables ({total_entries} entries, generated from CPython's \
         codecs; private-use and the cp950 ETEN zone excluded) behind its marker, plus cp1252 behind ^8; (B) wire strings \
         constructed from 1-6 marker segments with reference-encoded characters, biased to double-byte trail byte 0x5E, \
         BOM look-alikes, shared characters, redundant markers; (C) caret-free text over the union repertoire ({} characters) \
         round-tripped and cross-read by an independent reference decoder; (D) one character outside every codepage between \
         encodable neighbours; (E) complete: every byte pair after every marker (11 x 65536); (F) random bytes / random Unicode; (H) locality: wire strings of table entries, ASCII and runs of undefined bytes (0x80 / 0xFF, 1..300 of them) cut at an item boundary decode to the concatenation of what the two parts decode to. \
         Non-trivial = contains at least one non-ASCII character (A, E: reference-defined entries, counted exactly).",
        cp::repertoire().len()
    );
    run.assumptions = vec![
        "CPython's cp125x/cp932/cp936/cp949/cp950 codecs are the reference for Windows codepages outside private-use and Big5-ETEN zones".into(),
        "marker->codepage assignment as the property states it (L1252 G1253 C1251 E1250 T1254 B1257 J932 S936 K949 H950)".into(),
        "`^^` is an atomic escaped caret for the reference decoder".into(),
    ];
    if unrepresentable_pool().len() < 500 {
        eprintln!("HARNESS ERROR: unrepresentable pool too small");
        std::process::exit(2);
    }
    // A
    let mut sweep: Vec<TableCase> = vec![];
    for (m, name) in MARKERS {
        for e in &cp::table(name).entries {
            sweep.push(TableCase { marker: m, bytes: e.0.clone() });
        }
    }
    let n = sweep.len() as u64;
    run.enumerate(&DecodeSweep, n, true, |i| Some(sweep[i as usize].clone()));
    // B
    let n = run.budget(200_000, 20_000_000);
    run.prop(&ConstructedWire, wire_strategy(), n);
    // C
    let n = run.budget(200_000, 20_000_000);
    run.prop(&Faithful, text_strategy(40), n);
    // D
    let pool = unrepresentable_pool();
    let strat = (text_strategy(8), any::<Index>(), text_strategy(8)).prop_map(move |(a, ix, b)| (a, pool[ix.index(pool.len())], b));
    let n = run.budget(100_000, 5_000_000);
    run.prop(&Unrepresentable, strat, n);
    let n = run.budget(100_000, 5_000_000);
    run.prop(&Unrepresentable, alias_strategy(), n);
    // E
    run.enumerate(&MarkerPairs, 11 * 256, true, |i| Some(PairCase::Block(MARKERS[(i / 256) as usize].0, (i % 256) as u8)));
    // H
    let n = run.budget(200_000, 10_000_000);
    run.prop(&Locality, local_strategy(), n);
    // F
    let n = run.budget(300_000, 20_000_000);
    run.prop(&RandomBytes, bytes_strategy(), n);
    let n = run.budget(100_000, 5_000_000);
    run.prop(&RandomUnicode, proptest::collection::vec(any::<char>(), 0..24).prop_map(|v| v.into_iter().collect::<String>()), n);
    // inputs of 16 MiB and more (an offset packed into 24 bits, a u24 / u32 length): a marker early or late in the text
    {
        let mut huge: Vec<(String, String)> = vec![];
        for n in [(1usize << 24) - 2, 1 << 24, (1 << 24) + 3] {
            huge.push((format!("ш{}", "a".repeat(n)), "é".to_string()));
            huge.push(("a".repeat(n), "ěш".to_string()));
        }
        run.list(&ContextFree, "round-trip-is-context-free", huge);
    }
    // context independence of the round trip, over ASCII, the table repertoires, all of U+0080..U+00FF and arbitrary characters
    let tables = cp::tables();
    let ch = prop_oneof![
        3 => (0x20u8..0x7E).prop_map(|b| if b == b'^' { '~' } else { b as char }),
        3 => (0..tables.len(), any::<prop::sample::Index>()).prop_map(move |(t, ix)| {
            let e = &tables[t].entries;
            e[ix.index(e.len())].1
        }),
        3 => (0x80u32..0x100).prop_map(|c| char::from_u32(c).unwrap()),
        1 => any::<char>().prop_map(|c| if c == '^' { '~' } else { c }),
    ];
    let word = proptest::collection::vec(ch, 0..4).prop_map(|v| v.into_iter().collect::<String>());
    let n = run.budget(200_000, 10_000_000);
    run.prop(&ContextFree, (word.clone(), word), n);
    // long runs (a counter narrower than usize, a capacity threshold): n copies of a unit, then one more
    let mut runs: Vec<(String, String)> = vec![];
    for unit in ["a", "é", "ш", "美", "ě", "한", "éш", "a美", "\u{83}"] {
        for n in [255usize, 256, 257, 65_535, 65_536, 65_537] {
            runs.push((unit.repeat(n), unit.to_string()));
        }
    }
    // ... and texts that switch codepage on every character, 2 .. 400 times
    for n in [1usize, 20, 31, 32, 33, 63, 64, 65, 66, 127, 128, 129, 200] {
        runs.push(("ěш".repeat(n), "ěш".to_string()));
        runs.push(("éωł".repeat(n), "a".to_string()));
    }
    run.list(&ContextFree, "round-trip-is-context-free", runs);
}
