//! C17 — PTH and SMX files round-trip and their parsers withstand any input.

use std::io::{Cursor, Write};
use std::path::PathBuf;

use insim_core::binrw::{BinRead, BinWrite};
use insim_pth::Pth;
use insim_smx::Smx;
use proptest::prelude::*;
use serde_json::{json, Value};

use crate::engine::*;

#[derive(Clone, Copy, Debug, PartialEq)]
pub enum Format {
    Pth,
    Smx,
}

impl Format {
    fn name(&self) -> &'static str {
        match self {
            Format::Pth => "pth",
            Format::Smx => "smx",
        }
    }
}

/// parse outcome: Ok((debug rendering, re-serialised bytes)) or Err(text)
type Parsed = Result<(String, Vec<u8>), String>;

struct Call {
    parsed: Parsed,
    peak: usize,
    maxreq: usize,
}

fn parse(fmt: Format, bytes: &[u8]) -> Result<Call, String> {
    let (r, peak, maxreq) = measure_alloc(|| {
        guard(|| -> Parsed {
            let mut c = Cursor::new(bytes);
            match fmt {
                Format::Pth => {
                    let p = Pth::read(&mut c).map_err(|e| e.to_string())?;
                    let mut w = Cursor::new(Vec::new());
                    p.write(&mut w).map_err(|e| format!("write failed: {e}"))?;
                    Ok((format!("{p:?}"), w.into_inner()))
                },
                Format::Smx => {
                    let p = Smx::read(&mut c).map_err(|e| e.to_string())?;
                    let mut w = Cursor::new(Vec::new());
                    p.write(&mut w).map_err(|e| format!("write failed: {e}"))?;
                    Ok((format!("{p:?}"), w.into_inner()))
                },
            }
        })
    });
    Ok(Call { parsed: r?, peak, maxreq })
}

// ------------------------------------------------------------------------ independent writers
#[derive(Clone, Debug)]
pub struct PthFile {
    pub version: u8,
    pub revision: u8,
    pub finish: i32,
    /// 10 raw 32-bit words per node (3 x i32, 7 x f32 bit patterns incl. NaN)
    pub nodes: Vec<[u32; 10]>,
}

pub fn write_pth(f: &PthFile) -> Vec<u8> {
    let mut b = b"LFSPTH".to_vec();
    b.push(f.version);
    b.push(f.revision);
    b.extend_from_slice(&(f.nodes.len() as i32).to_le_bytes());
    b.extend_from_slice(&f.finish.to_le_bytes());
    for n in &f.nodes {
        for w in n {
            b.extend_from_slice(&w.to_le_bytes());
        }
    }
    b
}

#[derive(Clone, Debug)]
pub struct SmxObject {
    pub header: [u32; 4],
    pub points: Vec<[u32; 4]>,
    pub tris: Vec<[u16; 3]>,
}

#[derive(Clone, Debug)]
pub struct SmxFile {
    pub head: [u8; 6],
    pub track: String,
    pub ground: [u8; 3],
    pub objects: Vec<SmxObject>,
    pub checkpoints: Vec<i32>,
}

pub fn write_smx(f: &SmxFile) -> Vec<u8> {
    let mut b = b"LFSSMX".to_vec();
    b.extend_from_slice(&f.head);
    b.extend_from_slice(&[0; 4]);
    let mut t = insim_core::string::codepages::to_lossy_bytes(&f.track).into_owned();
    t.truncate(32);
    t.resize(32, 0);
    b.extend_from_slice(&t);
    b.extend_from_slice(&f.ground);
    b.extend_from_slice(&[0; 9]);
    b.extend_from_slice(&(f.objects.len() as i32).to_le_bytes());
    for o in &f.objects {
        for w in o.header {
            b.extend_from_slice(&w.to_le_bytes());
        }
        b.extend_from_slice(&(o.points.len() as i32).to_le_bytes());
        b.extend_from_slice(&(o.tris.len() as i32).to_le_bytes());
        for p in &o.points {
            for w in p {
                b.extend_from_slice(&w.to_le_bytes());
            }
        }
        for t in &o.tris {
            for w in t {
                b.extend_from_slice(&w.to_le_bytes());
            }
            b.extend_from_slice(&[0, 0]);
        }
    }
    b.extend_from_slice(&(f.checkpoints.len() as i32).to_le_bytes());
    for c in &f.checkpoints {
        b.extend_from_slice(&c.to_le_bytes());
    }
    b
}

/// offsets of the count fields of a canonical file (for hostile-count mutation)
fn count_offsets(fmt: Format, bytes: &[u8]) -> Vec<(usize, usize)> {
    match fmt {
        Format::Pth => vec![(8, 40)],
        Format::Smx => {
            let mut v = vec![];
            let mut o = 6 + 6 + 4 + 32 + 3 + 9;
            if o + 4 > bytes.len() {
                return v;
            }
            v.push((o, 24));
            let n = i32::from_le_bytes(bytes[o..o + 4].try_into().unwrap());
            o += 4;
            for _ in 0..n.max(0) {
                if o + 24 > bytes.len() {
                    return v;
                }
                v.push((o + 16, 16));
                v.push((o + 20, 8));
                let np = i32::from_le_bytes(bytes[o + 16..o + 20].try_into().unwrap()).max(0) as usize;
                let nt = i32::from_le_bytes(bytes[o + 20..o + 24].try_into().unwrap()).max(0) as usize;
                o += 24 + np * 16 + nt * 8;
            }
            if o + 4 <= bytes.len() {
                v.push((o, 4));
            }
            v
        },
    }
}

// ------------------------------------------------------------------------ the oracle
#[derive(Clone, Debug)]
pub struct FileCase {
    pub fmt: Format,
    pub bytes: Vec<u8>,
    /// the bytes are a canonical, complete file produced by the reference writer
    pub canonical: bool,
    /// a canonical file cut at this length (strictly inside its content)
    pub cut_inside: bool,
    pub label: String,
}

pub fn judge(c: &FileCase, ev: &mut Local) -> Result<(), Fail> {
    let f = c.fmt.name();
    let call = parse(c.fmt, &c.bytes).map_err(|p| Fail::new(format!("c17:{f}-parser-panics"), format!("{} ({} bytes): {p}", c.label, c.bytes.len())))?;
    let bound = 64 * 1024 + 64 * c.bytes.len();
    ensure!(
        call.peak <= bound,
        format!("c17:{f}-allocation-unbounded"),
        "{}: parsing {} bytes allocated {} bytes at peak (largest single request {}), bound {bound}",
        c.label,
        c.bytes.len(),
        call.peak,
        call.maxreq
    );
    // the same bytes through readers that deliver them piecewise (a BufReader at a buffer boundary, a pipe): same verdict,
    // same structure
    if c.bytes.len() <= 16 * 1024 {
        for pattern in [&[1usize][..], &[7, 3], &[64, 1]] {
            let piecewise = guard(|| -> Result<String, ()> {
                let mut t = Trickle::new(&c.bytes, pattern);
                match c.fmt {
                    Format::Pth => Pth::read(&mut t).map(|p| format!("{p:?}")).map_err(|_| ()),
                    Format::Smx => Smx::read(&mut t).map(|p| format!("{p:?}")).map_err(|_| ()),
                }
            })
            .map_err(|p| Fail::new(format!("c17:{f}-parser-panics"), format!("{} read piecewise {pattern:?}: {p}", c.label)))?;
            let whole: Result<&String, ()> = call.parsed.as_ref().map(|(d, _)| d).map_err(|_| ());
            ensure!(
                piecewise.as_ref().map_err(|_| ()) == whole,
                format!("c17:{f}-depends-on-how-the-reader-delivers-bytes"),
                "{} ({} bytes): from a slice {}, from a reader delivering {pattern:?} bytes per call {}",
                c.label,
                c.bytes.len(),
                whole.map(|d| d.chars().take(80).collect::<String>()).unwrap_or("rejected".into()),
                piecewise.as_ref().map(|d| d.chars().take(80).collect::<String>()).unwrap_or("rejected".into())
            );
        }
    }
    // the same bytes at another stream position (a file inside a container, two files back to back in one stream): same verdict,
    // same structure; and what the writer produces does not depend on where in the stream it starts
    if c.bytes.len() <= 16 * 1024 {
        for k in [1usize, 2, 4, 5, 12] {
            let mut buf = vec![0xA5u8; k];
            buf.extend_from_slice(&c.bytes);
            let shifted = guard(|| -> Result<(String, Vec<u8>), ()> {
                let mut cur = Cursor::new(&buf[..]);
                cur.set_position(k as u64);
                let mut out = Cursor::new(vec![0xA5u8; k]);
                out.set_position(k as u64);
                let dbg = match c.fmt {
                    Format::Pth => {
                        let v = Pth::read(&mut cur).map_err(|_| ())?;
                        v.write(&mut out).map_err(|_| ())?;
                        format!("{v:?}")
                    },
                    Format::Smx => {
                        let v = Smx::read(&mut cur).map_err(|_| ())?;
                        v.write(&mut out).map_err(|_| ())?;
                        format!("{v:?}")
                    },
                };
                Ok((dbg, out.into_inner()[k..].to_vec()))
            })
            .map_err(|p| Fail::new(format!("c17:{f}-parser-panics"), format!("{} read at stream position {k}: {p}", c.label)))?;
            let whole: Result<(&String, &Vec<u8>), ()> = call.parsed.as_ref().map(|(d, w)| (d, w)).map_err(|_| ());
            ensure!(
                shifted.as_ref().map(|(d, w)| (d, w)).map_err(|_| ()) == whole,
                format!("c17:{f}-depends-on-the-stream-position"),
                "{} ({} bytes): at stream position 0 {}, at stream position {k} {}",
                c.label,
                c.bytes.len(),
                whole.map(|(d, w)| format!("{} (re-written: {} bytes)", d.chars().take(80).collect::<String>(), w.len())).unwrap_or("rejected".into()),
                shifted.as_ref().map(|(d, w)| format!("{} (re-written: {} bytes)", d.chars().take(80).collect::<String>(), w.len())).unwrap_or("rejected (or not writable)".into())
            );
        }
    }
    match &call.parsed {
        Err(e) => {
            ensure!(!c.canonical, format!("c17:{f}-valid-file-rejected"), "{}: a complete file of {} bytes was rejected: {e}", c.label, c.bytes.len());
            ev.class(if c.cut_inside { "truncated-rejected" } else { "rejected" });
        },
        Ok((dbg, rewritten)) => {
            ensure!(!c.cut_inside, format!("c17:{f}-truncated-file-accepted"), "{}: a file cut to {} bytes inside its declared content was accepted as {}", c.label, c.bytes.len(), dbg.chars().take(120).collect::<String>());
            if rewritten.starts_with(b"write failed") && false {}
            // write(parse(b)) parses back to the same structure
            let again = parse(c.fmt, rewritten).map_err(|p| Fail::new(format!("c17:{f}-parser-panics"), format!("re-parse: {p}")))?;
            match &again.parsed {
                Ok((dbg2, rewritten2)) => {
                    // Text decoding is lossy by contract (C10): track bytes that are no text in the LFS codepages (undefined
                    // positions, private-use areas, C1 controls, carets that start no marker) decode to something the writer cannot
                    // express again. Only random bytes produce such a file. For every file whose track bytes the reference tables
                    // define, the re-parse must be equal and the third generation byte-identical to the second.
                    let in_domain = c.fmt == Format::Pth || {
                        let t: Vec<u8> = c.bytes.get(16..48).unwrap_or(&[]).iter().cloned().take_while(|b| *b != 0).collect();
                        // (a caret that starts neither a marker, a colour nor an escaped caret is ambiguous text: C10 / C12)
                        // ... and the text must fit its 32 bytes again whatever markers the writer chooses (worst case: a marker
                        // in front of every non-ASCII character), as in C01's text domain
                        match crate::refs::cp::ref_decode_strict(&t) {
                            Some(s) => s.chars().map(|c| if c.is_ascii() { 1 } else { 4 }).sum::<usize>() <= 32,
                            None => false,
                        }
                    };
                    if in_domain {
                        ensure!(dbg2 == dbg && rewritten2 == rewritten, format!("c17:{f}-write-parse-differs"), "{}: parse -> write -> parse gives a different structure: {} vs {}", c.label, dbg.chars().take(160).collect::<String>(), dbg2.chars().take(160).collect::<String>());
                    } else {
                        // ambiguous carets and undefined bytes can take several generations to settle: nothing is asserted about
                        // the text of such a file beyond "the writer's output is accepted again" (checked here by reaching this arm)
                        ev.class("track text outside the reference tables (text stability not asserted)");
                        let _ = (dbg2, rewritten2);
                    }
                },
                Err(e) => fail!(format!("c17:{f}-own-output-rejected"), "{}: the parser rejects what the writer produced from a parsed file: {e}", c.label),
            }
            // the writer must not depend on the sink: through a sink that accepts 1 / 7,3 bytes per call the same bytes come
            // out, and a write that fails half-way leaves nothing behind that changes the next one
            if c.bytes.len() <= 16 * 1024 {
                let write_into = |sink: &mut TrickleSink| -> Result<Result<(), String>, String> {
                    guard(|| {
                        let mut cur = Cursor::new(&c.bytes[..]);
                        match c.fmt {
                            Format::Pth => Pth::read(&mut cur).map_err(|e| e.to_string())?.write(sink).map_err(|e| e.to_string()),
                            Format::Smx => Smx::read(&mut cur).map_err(|e| e.to_string())?.write(sink).map_err(|e| e.to_string()),
                        }
                    })
                };
                for pattern in [&[1usize][..], &[7, 3]] {
                    let mut sink = TrickleSink::new(pattern);
                    let r = write_into(&mut sink).map_err(|p| Fail::new(format!("c17:{f}-writer-panics"), p))?;
                    ensure!(r.is_ok() && sink.bytes() == &rewritten[..], format!("c17:{f}-writer-depends-on-the-sink"), "{}: written into a sink accepting {pattern:?} bytes per call: {:?}, {} bytes instead of {}", c.label, r, sink.bytes().len(), rewritten.len());
                }
                let mut full = TrickleSink::failing_after(rewritten.len() / 3);
                let _ = write_into(&mut full);
                if c.fmt == Format::Smx && c.bytes.len() >= 48 {
                    // ... also when the failed write was of another file, with a longer track name, and failed inside that name
                    let mut other = c.bytes.clone();
                    other[16..47].copy_from_slice(&[b'Z'; 31]);
                    other[47] = 0;
                    let mut full = TrickleSink::failing_after(16 + 20);
                    let _ = guard(|| {
                        let mut cur = Cursor::new(&other[..]);
                        Smx::read(&mut cur).map_err(|e| e.to_string())?.write(&mut full).map_err(|e| e.to_string())
                    });
                }
                let mut good = TrickleSink::new(&[usize::MAX]);
                let r = write_into(&mut good).map_err(|p| Fail::new(format!("c17:{f}-writer-panics"), p))?;
                ensure!(r.is_ok() && good.bytes() == &rewritten[..], format!("c17:{f}-writer-depends-on-the-sink"), "{}: after a write that failed at byte {} the file is written differently (first difference at {:?})", c.label, rewritten.len() / 3, good.bytes().iter().zip(rewritten.iter()).position(|(a, b)| a != b));
            }
            if c.canonical {
                ensure!(*rewritten == c.bytes, format!("c17:{f}-canonical-file-not-reproduced"), "{}: canonical file of {} bytes is written back as {} bytes; first difference at {:?}", c.label, c.bytes.len(), rewritten.len(), rewritten.iter().zip(c.bytes.iter()).position(|(a, b)| a != b));
            }
            ev.class("accepted");
        },
    }
    ev.class(&format!("{f}:{}", c.label.split(':').next().unwrap_or("")));
    Ok(())
}

fn case_json(c: &FileCase) -> Value {
    json!({"format": c.fmt.name(), "bytes": hex(&c.bytes), "canonical": c.canonical, "cut_inside": c.cut_inside, "label": c.label})
}
fn case_from(v: &Value) -> Option<FileCase> {
    Some(FileCase {
        fmt: if v.get("format")?.as_str()? == "pth" { Format::Pth } else { Format::Smx },
        bytes: unhex(v.get("bytes")?.as_str()?)?,
        canonical: v.get("canonical")?.as_bool()?,
        cut_inside: v.get("cut_inside")?.as_bool()?,
        label: v.get("label").and_then(|l| l.as_str()).unwrap_or("").to_string(),
    })
}

macro_rules! file_part {
    ($ty:ident, $name:expr) => {
        pub struct $ty;
        impl Part for $ty {
            type Case = FileCase;
            fn name(&self) -> &'static str {
                $name
            }
            fn check(&self, c: &FileCase, ev: &mut Local) -> Result<(), Fail> {
                judge(c, ev)?;
                if c.bytes.len() > 24 || c.cut_inside || !c.canonical {
                    ev.nontrivial(&(c.fmt.name(), &c.bytes));
                }
                if ev.wants_sample() && c.bytes.len() <= 80 {
                    ev.sample(|| json!({"format": c.fmt.name(), "label": c.label, "bytes": hex(&c.bytes)}));
                }
                Ok(())
            }
            fn to_json(&self, c: &FileCase) -> Value {
                case_json(c)
            }
            fn from_json(&self, v: &Value) -> Option<FileCase> {
                case_from(v)
            }
        }
    };
}

file_part!(Generated, "generated-files");
file_part!(Truncations, "all-truncation-points");
file_part!(HostileCounts, "hostile-count-fields");
file_part!(LargeFiles, "collection-sizes-around-integer-widths");
file_part!(RandomBytes, "random-bytes");
file_part!(Shipped, "shipped-files");

/// from_file / from_pathbuf agree with the in-memory reader
pub struct OnDisk;
impl Part for OnDisk {
    type Case = FileCase;
    fn name(&self) -> &'static str {
        "from-file-agrees-with-in-memory-read"
    }
    fn check(&self, c: &FileCase, ev: &mut Local) -> Result<(), Fail> {
        let mem = parse(c.fmt, &c.bytes).map_err(|p| Fail::new("c17:panic", p))?.parsed.map(|x| x.0);
        let mut tmp = tempfile::NamedTempFile::new().map_err(|e| Fail::new("harness:tempfile", e.to_string()))?;
        tmp.write_all(&c.bytes).map_err(|e| Fail::new("harness:tempfile", e.to_string()))?;
        tmp.flush().ok();
        let path: PathBuf = tmp.path().to_path_buf();
        let (a, b): (Result<String, String>, Result<String, String>) = match c.fmt {
            Format::Pth => (
                guard(|| Pth::from_pathbuf(&path).map(|p| format!("{p:?}")).map_err(|e| e.to_string())).map_err(|p| Fail::new("c17:pth-from-pathbuf-panics", p))?,
                guard(|| {
                    let mut f = std::fs::File::open(&path).unwrap();
                    Pth::from_file(&mut f).map(|p| format!("{p:?}")).map_err(|e| e.to_string())
                })
                .map_err(|p| Fail::new("c17:pth-from-file-panics", p))?,
            ),
            Format::Smx => (
                guard(|| Smx::from_pathbuf(&path).map(|p| format!("{p:?}")).map_err(|e| e.to_string())).map_err(|p| Fail::new("c17:smx-from-pathbuf-panics", p))?,
                guard(|| {
                    let mut f = std::fs::File::open(&path).unwrap();
                    Smx::from_file(&mut f).map(|p| format!("{p:?}")).map_err(|e| e.to_string())
                })
                .map_err(|p| Fail::new("c17:smx-from-file-panics", p))?,
            ),
        };
        let f = c.fmt.name();
        ensure!(a.is_ok() == mem.is_ok() && b.is_ok() == mem.is_ok(), format!("c17:{f}-file-api-disagrees"), "in-memory {:?}, from_pathbuf {:?}, from_file {:?}", mem.is_ok(), a.is_ok(), b.is_ok());
        if let (Ok(m), Ok(a), Ok(b)) = (&mem, &a, &b) {
            ensure!(m == a && m == b, format!("c17:{f}-file-api-disagrees"), "structures differ between the in-memory reader and the file API");
        }
        // a file that sits behind other data (a container, an archive) and two files back to back, read through ONE handle
        // positioned at the first byte: from_file parses what starts at the handle's position
        if mem.is_ok() && c.bytes.len() <= 16 * 1024 {
            use std::io::{Seek, SeekFrom};
            for k in [5u64, 64] {
                let mut tmp2 = tempfile::NamedTempFile::new().map_err(|e| Fail::new("harness:tempfile", e.to_string()))?;
                tmp2.write_all(&vec![0xA5u8; k as usize]).and_then(|_| tmp2.write_all(&c.bytes)).and_then(|_| tmp2.write_all(&c.bytes)).map_err(|e| Fail::new("harness:tempfile", e.to_string()))?;
                tmp2.flush().ok();
                let path2 = tmp2.path().to_path_buf();
                let both = guard(|| -> (Result<String, String>, Result<String, String>) {
                    let mut f = std::fs::File::open(&path2).unwrap();
                    f.seek(SeekFrom::Start(k)).unwrap();
                    match c.fmt {
                        Format::Pth => (Pth::from_file(&mut f).map(|p| format!("{p:?}")).map_err(|e| e.to_string()), Pth::from_file(&mut f).map(|p| format!("{p:?}")).map_err(|e| e.to_string())),
                        Format::Smx => (Smx::from_file(&mut f).map(|p| format!("{p:?}")).map_err(|e| e.to_string()), Smx::from_file(&mut f).map(|p| format!("{p:?}")).map_err(|e| e.to_string())),
                    }
                })
                .map_err(|p| Fail::new(format!("c17:{f}-from-file-panics"), p))?;
                let m = mem.as_ref().unwrap();
                ensure!(
                    both.0.as_ref() == Ok(m) && both.1.as_ref() == Ok(m),
                    format!("c17:{f}-file-api-disagrees"),
                    "two copies of a {}-byte file behind {k} other bytes, read through one handle positioned at the first: from_file gives {:?} and then {:?}; the in-memory reader accepts the file",
                    c.bytes.len(),
                    both.0.as_ref().map(|s| s.chars().take(60).collect::<String>()),
                    both.1.as_ref().map(|s| s.chars().take(60).collect::<String>())
                );
            }
        }
        ev.nontrivial(&(c.fmt.name(), &c.bytes));
        ev.class(if mem.is_ok() { "accepted" } else { "rejected" });
        Ok(())
    }
    fn to_json(&self, c: &FileCase) -> Value {
        case_json(c)
    }
    fn from_json(&self, v: &Value) -> Option<FileCase> {
        case_from(v)
    }
}

fn word() -> impl Strategy<Value = u32> {
    prop_oneof![
        3 => any::<u32>(),
        1 => prop::sample::select(vec![0u32, 1, 0x7fc0_0000, 0xffc0_0001, 0x7f80_0000, 0x8000_0000, 0x3f80_0000, 0x7fff_ffff, 0xffff_ffff]),
    ]
}

fn pth_strategy() -> impl Strategy<Value = PthFile> {
    (any::<u8>(), any::<u8>(), any::<i32>(), proptest::collection::vec(proptest::array::uniform10(word()), 0..40)).prop_map(|(version, revision, finish, nodes)| PthFile { version, revision, finish, nodes })
}

fn smx_strategy() -> impl Strategy<Value = SmxFile> {
    let object = (proptest::array::uniform4(word()), proptest::collection::vec(proptest::array::uniform4(word()), 0..10), proptest::collection::vec(proptest::array::uniform3(any::<u16>()), 0..10)).prop_map(|(header, points, tris)| SmxObject { header, points, tris });
    let track = prop_oneof![
        3 => "[ -\\]_-~]{0,32}",
        1 => crate::props::c01::field_text_strategy().prop_map(|s| s.chars().take(8).collect::<String>()),
    ];
    (proptest::array::uniform6(any::<u8>()), track, proptest::array::uniform3(any::<u8>()), proptest::collection::vec(object, 0..6), proptest::collection::vec(any::<i32>(), 0..10)).prop_map(|(head, track, ground, objects, checkpoints)| SmxFile { head, track, ground, objects, checkpoints })
}

/// SMX files whose 32 track bytes are arbitrary wire text (codepage markers, double-byte pairs, bytes no codepage defines):
/// not canonical, but parse -> write -> parse must be stable as long as the re-encoded name still fits its 32 bytes
fn smx_wire_track_strategy() -> impl Strategy<Value = FileCase> {
    let seg = prop_oneof![
        3 => proptest::collection::vec((0x20u8..0x7F).prop_map(|b| if b == b'^' { b'~' } else { b }), 1..6),
        3 => (0usize..12).prop_map(|k| vec![b'^', b"LGCETBJHSK8^"[k]]),
        2 => (0x81u8..0xFF, 0x40u8..0xFF).prop_map(|(a, b)| vec![a, b]),
        3 => (0x80u8..=0xFF).prop_map(|a| vec![a]),
    ];
    (smx_strategy(), proptest::collection::vec(seg, 0..8)).prop_map(|(f, segs)| {
        let mut bytes = write_smx(&f);
        let mut t: Vec<u8> = segs.into_iter().flatten().filter(|b| *b != 0).collect();
        t.truncate(14);
        t.resize(32, 0);
        bytes[16..48].copy_from_slice(&t);
        FileCase { fmt: Format::Smx, bytes, canonical: false, cut_inside: false, label: format!("generated: wire-level track name {}", hex(&t[..14])) }
    })
}

fn file_strategy() -> impl Strategy<Value = FileCase> {
    prop_oneof![
        pth_strategy().prop_map(|f| FileCase { fmt: Format::Pth, bytes: write_pth(&f), canonical: true, cut_inside: false, label: format!("generated: {} nodes", f.nodes.len()) }),
        smx_strategy().prop_map(|f| {
            let bytes = write_smx(&f);
            // the file is canonical only if the track text survives the codepage round trip unchanged in 32 bytes
            let enc = insim_core::string::codepages::to_lossy_bytes(&f.track);
            let canonical = enc.len() <= 32 && insim_core::string::codepages::to_lossy_string(&enc) == f.track && !f.track.contains('\0');
            FileCase { fmt: Format::Smx, bytes, canonical, cut_inside: false, label: format!("generated: {} objects, {} checkpoints", f.objects.len(), f.checkpoints.len()) }
        }),
    ]
}

pub fn parts() -> Vec<Box<dyn DynPart>> {
    vec![Box::new(Generated), Box::new(Truncations), Box::new(HostileCounts), Box::new(LargeFiles), Box::new(RandomBytes), Box::new(Shipped), Box::new(OnDisk)]
}

pub fn run(run: &mut Run) {
    run.rule = "Structured PTH / SMX files (0..40 nodes; 0..6 objects x 0..10 points / triangles; 0..10 checkpoints; arbitrary 32-bit \
        payloads incl. NaN patterns; track text from ASCII and the codepage repertoires) are serialised by an independent writer. For each \
        file: it must parse, re-serialise byte-identically (canonical) and re-parse to the same structure; EVERY truncation point of the \
        file must be rejected when it lies inside the declared content; every count field is overwritten with -1, i32::MIN, 2^31-1, \
        count+1 (must not panic, must stay within the allocation bound of 64 KiB + 64 x input, count+1 must be rejected); random byte \
        strings with and without the magic; files whose collections have 255..257, 32 767..32 768 and 65 535..70 000 elements (and files declaring more than they hold); the two shipped files whole and cut at every point of their first 4 KB; from_file / \
        from_pathbuf on a temporary file must agree with the in-memory reader, and so must readers that deliver the bytes piecewise (1; 7,3; 64,1 bytes per call), reading and re-writing at stream positions 1, 2, 4, 5, 12, and sinks that accept the bytes piecewise or fail half-way. Non-trivial = the file holds a non-empty collection, a \
        hostile count, or is a truncation inside the body."
        .into();
    run.assumptions = vec![
        "file layouts as documented in the LFS PTH / SMX format descriptions (the independent writer in the harness)".into(),
        "the counting allocator measures the parsing thread only; an allocation so large that the allocator aborts the process shows up as exit 2 with the in-flight case on disk".into(),
    ];
    // generated files
    let n = run.budget(40_000, 2_000_000);
    run.prop(&Generated, file_strategy(), n);
    let n = run.budget(40_000, 2_000_000);
    run.prop(&Generated, smx_wire_track_strategy(), n);
    // truncations: every cut point of generated files (files are small: <= ~2.5 KB)
    let trunc = (file_strategy(), any::<prop::sample::Index>()).prop_filter_map("needs content", |(f, ix)| {
        if !f.canonical || f.bytes.len() < 2 {
            return None;
        }
        let cut = ix.index(f.bytes.len());
        let mut bytes = f.bytes.clone();
        bytes.truncate(cut);
        Some(FileCase { fmt: f.fmt, bytes, canonical: false, cut_inside: true, label: format!("truncated: at {cut} of {}", f.bytes.len()) })
    });
    let n = run.budget(100_000, 4_000_000);
    run.prop(&Truncations, trunc, n);
    // exhaustive truncation of a few fixed files
    let fixed_pth = write_pth(&PthFile { version: 0, revision: 0, finish: 1, nodes: vec![[1, 2, 3, 0x3f800000, 0, 0x7fc00000, 4, 5, 6, 7]; 3] });
    let fixed_smx = write_smx(&SmxFile {
        head: [0, 6, 0, 3, 1, 1],
        track: "Blackwood".into(),
        ground: [1, 2, 3],
        objects: vec![SmxObject { header: [1, 2, 3, 4], points: vec![[1, 2, 3, 4]; 3], tris: vec![[0, 1, 2]] }, SmxObject { header: [5, 6, 7, 8], points: vec![], tris: vec![] }],
        checkpoints: vec![0, 1],
    });
    let mut cuts = vec![];
    for (fmt, file) in [(Format::Pth, &fixed_pth), (Format::Smx, &fixed_smx)] {
        for cut in 0..file.len() {
            cuts.push(FileCase { fmt, bytes: file[..cut].to_vec(), canonical: false, cut_inside: true, label: format!("truncated: fixed file at {cut} of {}", file.len()) });
        }
        cuts.push(FileCase { fmt, bytes: file.clone(), canonical: true, cut_inside: false, label: "generated: fixed file".into() });
    }
    // shipped files
    let mut shipped = vec![];
    for (fmt, path) in [(Format::Pth, "/repo/insim_pth/tests/AS1.pth"), (Format::Smx, "/repo/insim_smx/tests/Autocross_3DH.smx")] {
        if let Ok(bytes) = std::fs::read(path) {
            for cut in 0..bytes.len().min(4096) {
                cuts.push(FileCase { fmt, bytes: bytes[..cut].to_vec(), canonical: false, cut_inside: true, label: format!("truncated: shipped file at {cut}") });
            }
            // further cut points spread over the whole file
            for k in 1..64 {
                let cut = bytes.len() * k / 64;
                cuts.push(FileCase { fmt, bytes: bytes[..cut].to_vec(), canonical: false, cut_inside: true, label: format!("truncated: shipped file at {cut}") });
            }
            shipped.push(FileCase { fmt, bytes, canonical: true, cut_inside: false, label: format!("shipped: {path}") });
        }
    }
    let n = cuts.len() as u64;
    run.enumerate(&Truncations, n, false, |i| Some(cuts[i as usize].clone()));
    run.list(&Shipped, "shipped-files", shipped.clone());
    // collections whose size sits at the edge of an integer width a reader might narrow the count to (8, 15, 16 bits)
    let mut large = vec![];
    let node = |i: u32| [i, i ^ 0x55, 3, 0x3f80_0000, 0, 0x7fc0_0000, i.wrapping_mul(7), 5, 6, 7];
    for n in [255usize, 256, 257, 32_767, 32_768, 65_535, 65_536, 65_537, 70_000] {
        let f = PthFile { version: 0, revision: 0, finish: 1, nodes: (0..n as u32).map(node).collect() };
        large.push(FileCase { fmt: Format::Pth, bytes: write_pth(&f), canonical: true, cut_inside: false, label: format!("large: pth with {n} nodes") });
    }
    for (have, declared) in [(65_535usize, 65_536i32), (65_535, 70_000), (65_536, 65_537), (255, 256), (256, 65_792)] {
        let f = PthFile { version: 0, revision: 0, finish: 1, nodes: (0..have as u32).map(node).collect() };
        let mut bytes = write_pth(&f);
        bytes[8..12].copy_from_slice(&declared.to_le_bytes());
        large.push(FileCase { fmt: Format::Pth, bytes, canonical: false, cut_inside: true, label: format!("large: pth declaring {declared} nodes, holding {have}") });
    }
    let smx = |objects: Vec<SmxObject>, checkpoints: usize| SmxFile { head: [0, 6, 0, 3, 1, 1], track: "Blackwood".into(), ground: [1, 2, 3], objects, checkpoints: (0..checkpoints as i32).collect() };
    let obj = |p: usize, t: usize| SmxObject { header: [1, 2, 3, 4], points: (0..p as u32).map(|i| [i, 2, 3, 4]).collect(), tris: (0..t).map(|i| [i as u16, 1, 2]).collect() };
    for n in [255usize, 256, 257, 65_535, 65_536, 65_537] {
        for (what, f) in [
            ("points", smx(vec![obj(n, 1), obj(1, 1)], 2)),
            ("triangles", smx(vec![obj(1, n), obj(1, 1)], 2)),
            ("checkpoints", smx(vec![obj(1, 1)], n)),
        ] {
            large.push(FileCase { fmt: Format::Smx, bytes: write_smx(&f), canonical: true, cut_inside: false, label: format!("large: smx with {n} {what}") });
        }
    }
    for n in [255usize, 256, 257] {
        let f = smx((0..n).map(|i| obj(i % 3, i % 2)).collect(), 1);
        large.push(FileCase { fmt: Format::Smx, bytes: write_smx(&f), canonical: true, cut_inside: false, label: format!("large: smx with {n} objects") });
    }
    let large_on_disk = large.clone();
    run.list(&LargeFiles, "collection-sizes-around-integer-widths", large);
    // hostile counts
    let hostile = (file_strategy(), any::<prop::sample::Index>(), 0usize..6).prop_filter_map("canonical", |(f, ix, which)| {
        if !f.canonical {
            return None;
        }
        let offs = count_offsets(f.fmt, &f.bytes);
        if offs.is_empty() {
            return None;
        }
        let (o, elem) = offs[ix.index(offs.len())];
        let cur = i32::from_le_bytes(f.bytes[o..o + 4].try_into().unwrap());
        let (v, grows) = match which {
            0 => (-1, false),
            1 => (i32::MIN, false),
            2 => (i32::MAX, true),
            3 => (cur + 1, true),
            4 => (0x0100_0000, true),
            _ => (cur.saturating_add(1000), true),
        };
        let mut bytes = f.bytes.clone();
        bytes[o..o + 4].copy_from_slice(&v.to_le_bytes());
        // the declared content certainly exceeds the file only if the elements alone need more bytes than remain
        // (an inner SMX count that grows a little merely re-interprets the following bytes)
        let remaining = bytes.len() - (o + 4);
        let must_reject = grows && (v as i64) * (elem as i64) > remaining as i64;
        Some(FileCase { fmt: f.fmt, bytes, canonical: false, cut_inside: must_reject, label: format!("hostile: count at {o} set to {v}") })
    });
    let n = run.budget(60_000, 3_000_000);
    run.prop(&HostileCounts, hostile, n);
    // random bytes
    let random = (any::<bool>(), any::<bool>(), proptest::collection::vec(any::<u8>(), 0..400)).prop_map(|(pth, magic, mut v)| {
        let fmt = if pth { Format::Pth } else { Format::Smx };
        if magic {
            let m: &[u8] = if pth { b"LFSPTH" } else { b"LFSSMX" };
            let mut b = m.to_vec();
            b.append(&mut v);
            v = b;
        }
        FileCase { fmt, bytes: v, canonical: false, cut_inside: false, label: if magic { "random: with magic".into() } else { "random: no magic".into() } }
    });
    let n = run.budget(100_000, 5_000_000);
    run.prop(&RandomBytes, random, n);
    // file API
    run.max_shrink_iters = 200;
    let n = run.budget(2_000, 100_000);
    run.prop(&OnDisk, prop_oneof![3 => file_strategy(), 1 => (file_strategy(), any::<prop::sample::Index>()).prop_map(|(mut f, ix)| { let cut = ix.index(f.bytes.len() + 1); f.bytes.truncate(cut); f.canonical = false; f })], n);
    run.list(&OnDisk, "from-file-agrees-with-in-memory-read", shipped);
    // the large files too: whatever buffering the file API puts between the file and the parser sees several buffer lengths
    run.list(&OnDisk, "from-file-agrees-with-in-memory-read", large_on_disk);
}
