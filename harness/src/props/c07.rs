//! C07 — keep-alive requests are answered exactly once, and only they are.

use insim::net::Mode;
use serde_json::{json, Value};

use crate::engine::*;
use crate::props::session::*;
use crate::transport::*;

const KEEPALIVE_RENDERING: &str = "Ok(Tiny(Tiny { reqi: RequestId(0), subt: None }))";

/// history invariant over one connection's event trace
fn judge_trace(trace: &[Event], mode: &Mode, which: &str) -> Result<(usize, usize), Fail> {
    let reply = vec![size_byte(mode, 4), 3, 0, 0];
    let mut pending: Vec<u8> = vec![];
    let mut keepalives = 0;
    let mut others = 0;
    for e in trace {
        match e {
            Event::Wrote(b) => pending.extend_from_slice(b),
            Event::Returned(r) => {
                if r == KEEPALIVE_RENDERING {
                    keepalives += 1;
                    ensure!(
                        pending == reply,
                        if pending.is_empty() { "c07:keepalive-not-answered-before-delivery" } else if pending.len() > 4 { "c07:keepalive-answered-more-than-once" } else { "c07:reply-is-not-one-tiny-none-frame" },
                        "{which} ({}): keep-alive #{keepalives} was delivered after the connection wrote {} (expected exactly {})",
                        crate::refs::compare::mode_name(mode),
                        hex(&pending),
                        hex(&reply)
                    );
                } else {
                    if r.starts_with("Ok(") {
                        others += 1;
                    }
                    ensure!(
                        pending.is_empty(),
                        "c07:reply-to-something-that-is-not-a-keepalive",
                        "{which}: wrote {} before returning {}",
                        hex(&pending),
                        r.chars().take(100).collect::<String>()
                    );
                }
                pending.clear();
            },
            _ => {},
        }
    }
    ensure!(pending.is_empty(), "c07:write-after-last-result", "{which}: {} written after the last result", hex(&pending));
    Ok((keepalives, others))
}

pub fn judge(c: &SessionCase, ev: &mut Local) -> Result<(), Fail> {
    let mode = c.mode();
    let stream = c.stream();
    // The stream is walked by announced sizes, independently of the crate: complete 4-byte frames [size, 3, 0, 0] are the
    // keep-alives. A frame that announces more than 4 bytes but starts with the keep-alive header is no packet LFS sends;
    // whether a lenient decoder takes it for a keep-alive is not C07's subject, such histories are left to C05.
    let mut expected = 0;
    {
        let mut pos = 0;
        while pos + 4 <= stream.len() {
            let announced = match mode {
                Mode::Compressed => stream[pos] as usize * 4,
                Mode::Uncompressed => stream[pos] as usize,
            };
            if announced < 4 {
                break;
            }
            let header = stream[pos + 1] == 3 && stream[pos + 2] == 0 && stream[pos + 3] == 0;
            if header && announced > 4 {
                ev.class("skipped: oversized frame with a keep-alive header");
                return Ok(());
            }
            if pos + announced > stream.len() {
                break;
            }
            if header {
                expected += 1;
            }
            pos += announced;
        }
    }
    let max_reads = boundaries(&stream, &mode).len() + c.steps.len() + 6;
    let b = run_blocking(&mode, c.verify, c.steps.clone(), c.writes.clone(), max_reads);
    if let Some(p) = &b.panic {
        fail!("c07:panic", "blocking: {p}");
    }
    let t = run_tokio(&mode, c.verify, c.steps.clone(), c.writes.clone(), max_reads);
    if let Some(p) = &t.panic {
        fail!("c07:panic", "tokio: {p}");
    }
    let (kb, ob) = judge_trace(&b.trace, &mode, "blocking")?;
    let (kt, _) = judge_trace(&t.trace, &mode, "tokio")?;
    ensure!(kb == expected && kt == expected, "c07:keepalive-count", "stream holds {expected} keep-alives, blocking delivered {kb}, tokio {kt}");
    let expected_out: Vec<u8> = (0..expected).flat_map(|_| vec![size_byte(&mode, 4), 3, 0, 0]).collect();
    ensure!(b.written == expected_out, "c07:total-bytes-written", "blocking wrote {} for {expected} keep-alives", hex(&b.written));
    ensure!(t.written == expected_out, "c07:total-bytes-written", "tokio wrote {} for {expected} keep-alives", hex(&t.written));
    if expected >= 1 && ob >= 1 {
        ev.nontrivial(&(c.compressed, &stream, c.steps.len()));
    }
    ev.class(match expected {
        0 => "no-keepalive",
        1 => "one-keepalive",
        _ => "several-keepalives",
    });
    if c.writes.iter().any(|w| matches!(w, WriteStep::Accept(k) if *k < 4)) && expected > 0 {
        ev.class("reply-accepted-piecewise");
    }
    Ok(())
}

pub struct Histories;
impl Part for Histories {
    type Case = SessionCase;
    fn name(&self) -> &'static str {
        "generated-histories"
    }
    fn check(&self, c: &SessionCase, ev: &mut Local) -> Result<(), Fail> {
        judge(c, ev)?;
        if ev.wants_sample() && c.steps.len() <= 5 && c.steps.len() >= 2 {
            ev.sample(|| session_json(c));
        }
        Ok(())
    }
    fn to_json(&self, c: &SessionCase) -> Value {
        session_json(c)
    }
    fn from_json(&self, v: &Value) -> Option<SessionCase> {
        session_from(v)
    }
}

/// every TINY sub-type x every request id as a single-packet history (complete)
pub struct AllTiny;
impl Part for AllTiny {
    type Case = (bool, u8, u8);
    fn name(&self) -> &'static str {
        "all-tiny-subtypes-and-request-ids"
    }
    fn check(&self, c: &(bool, u8, u8), ev: &mut Local) -> Result<(), Fail> {
        let mode = if c.0 { Mode::Compressed } else { Mode::Uncompressed };
        // embedded between two other packets, delivered in one read and byte-wise
        let mut stream = frame_bytes(&FrameSpec::Tiny(3, 5), &mode);
        stream.extend_from_slice(&[size_byte(&mode, 4), 3, c.2, c.1]);
        stream.extend_from_slice(&frame_bytes(&FrameSpec::Tiny(2, 0), &mode));
        for cutting in [Cutting::OneRead, Cutting::OneByte] {
            let steps: Vec<ReadStep> = cut_stream(&stream, &mode, &cutting).into_iter().map(ReadStep::Data).collect();
            let sc = SessionCase { compressed: c.0, verify: false, steps, writes: vec![], label: String::new() };
            let mut scratch = Local::new();
            scratch.frozen = true;
            judge(&sc, &mut scratch)?;
        }
        // the crate's own public predicates agree with what the connection does: Tiny::is_keepalive and Packet::maybe_pong say
        // "keep-alive" exactly for TINY_NONE with request id 0
        if c.1 < 30 {
            let frame = [size_byte(&mode, 4), 3, c.2, c.1];
            if let Ok(insim::Packet::Tiny(t)) = crate::refs::compare::decode_one(&frame, &mode) {
                let want = c.1 == 0 && c.2 == 0;
                ensure!(t.is_keepalive() == want, "c07:keepalive-predicate", "Tiny::is_keepalive() is {} for sub-type {} / request id {}", t.is_keepalive(), c.1, c.2);
                let pong = insim::Packet::Tiny(t).maybe_pong();
                ensure!(pong.is_some() == want, "c07:keepalive-predicate", "Packet::maybe_pong() is {pong:?} for sub-type {} / request id {}", c.1, c.2);
                if let Some(p) = pong {
                    let out = crate::refs::compare::encode_one(&p, &mode).map_err(|e| Fail::new("c07:keepalive-predicate", e))?;
                    ensure!(out == [size_byte(&mode, 4), 3, 0, 0], "c07:reply-is-not-one-tiny-none-frame", "maybe_pong() encodes to {}", hex(&out));
                }
            }
        }
        ev.add_evals(1);
        ev.nontrivial_distinct();
        ev.class(if c.1 == 0 && c.2 == 0 { "keepalive" } else if c.1 == 0 { "tiny-none-with-reqi" } else { "other-subtype" });
        Ok(())
    }
    fn to_json(&self, c: &(bool, u8, u8)) -> Value {
        json!({"compressed": c.0, "subt": c.1, "reqi": c.2})
    }
    fn from_json(&self, v: &Value) -> Option<(bool, u8, u8)> {
        Some((v.get("compressed")?.as_bool()?, v.get("subt")?.as_u64()? as u8, v.get("reqi")?.as_u64()? as u8))
    }
}

pub fn parts() -> Vec<Box<dyn DynPart>> {
    vec![Box::new(Histories), Box::new(AllTiny)]
}

pub fn run(run: &mut Run) {
    run.rule = "History invariant over the transport's event trace: between two returned results the connection's writes are exactly one \
        TINY_NONE/reqi 0 frame (in the connection's size mode) if the result being returned is a keep-alive, and nothing otherwise; the \
        number of replies equals the number of keep-alives counted independently in the byte stream. Histories: all 30 TINY sub-types x \
        256 request ids embedded between other packets, whole and byte-wise (complete), and generated sessions of all packet kinds with \
        many keep-alives (several per read, split across reads, transient faults, piecewise write acceptance, version verification on and off with VER packets of any version), blocking and tokio. \
        Non-trivial = the history holds at least one keep-alive and one other packet."
        .into();
    run.assumptions = vec!["a keep-alive is recognised in the results by its rendering `Tiny { reqi: RequestId(0), subt: None }` and in the byte stream by the bytes (size, 3, 0, 0)".into()];
    run.enumerate(&AllTiny, 2 * 30 * 256, true, |i| Some((i >= 30 * 256, ((i % (30 * 256)) / 256) as u8, (i % 256) as u8)));
    let n = run.budget(40_000, 2_000_000);
    // version verification on and off, with VER packets of any version in the history: a rejected VER is "another packet" too
    run.prop(&Histories, session_strategy(12, 8, 3, true, None), n);
    // long histories: hundreds of packets and keep-alives on one connection
    let n = run.budget(400, 20_000);
    run.prop(&Histories, session_strategy(400, 6, 1, true, None), n);
    let n = run.budget(1_000, 50_000);
    run.prop(&Histories, session_strategy(200, 10, 1, true, Some(false)), n);
}
