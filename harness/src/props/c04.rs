//! C04 — decoding untrusted bytes is total, bounded and always progresses.

use bytes::BytesMut;
use insim::net::{Codec, Mode};
use proptest::prelude::*;
use serde_json::{json, Value};

use crate::engine::*;
use crate::props::c02::tape_strategy;
use crate::refs::compare::*;
use crate::refs::image;
use crate::refs::spec::{coverage_problem, spec, Field, Kind};

fn limit(mode: &Mode) -> usize {
    match mode {
        Mode::Uncompressed => 255,
        Mode::Compressed => 1020,
    }
}

fn announced(mode: &Mode, b0: u8) -> usize {
    match mode {
        Mode::Uncompressed => b0 as usize,
        Mode::Compressed => b0 as usize * 4,
    }
}

#[derive(Debug, Clone, PartialEq)]
pub enum Outcome {
    NeedMore,
    Packet(String),
    DecodeError,
    FramingError,
}

/// one decode call with every observable recorded
fn call(buf: &[u8], mode: &Mode) -> Result<(Outcome, Vec<u8>, usize, usize), String> {
    let codec = Codec::new(mode.clone());
    let mut b = BytesMut::from(buf);
    let (r, peak, maxreq) = measure_alloc(|| guard(|| codec.decode(&mut b)));
    let r = r?;
    let out = match r {
        Ok(None) => Outcome::NeedMore,
        Ok(Some(p)) => Outcome::Packet(format!("{p:?}")),
        Err(insim::Error::IO { .. }) => Outcome::FramingError,
        Err(_) => Outcome::DecodeError,
    };
    Ok((out, b.to_vec(), peak, maxreq))
}

/// The framing-model oracle for one buffer. Returns the class label.
pub fn judge(buf: &[u8], mode: &Mode) -> Result<&'static str, Fail> {
    let m = mode_name(mode);
    let (out, rest, peak, maxreq) = call(buf, mode).map_err(|p| {
        let sig = if p.contains("cim.rs") {
            "c04:panic-cim-submode"
        } else if p.contains("advance") || p.contains("cannot advance") {
            "c04:panic-announced-length-below-4"
        } else {
            "c04:decoder-panic"
        };
        Fail::new(sig, format!("{m}: decode({}) panicked: {p}", hex(&buf[..buf.len().min(48)])))
    })?;
    let bound = 64 * 1024 + 64 * buf.len();
    ensure!(peak <= bound, "c04:allocation-unbounded", "{m}: decoding {} bytes allocated {peak} bytes at peak (largest request {maxreq}), bound {bound}", buf.len());
    let n = buf.len();
    if n < 4 {
        // not even a header: need more data (a framing error is tolerated if the size byte is already impossible)
        match out {
            Outcome::NeedMore => {
                ensure!(rest == buf, "c04:need-more-but-buffer-changed", "{m}: {} -> Ok(None) but buffer is now {}", hex(buf), hex(&rest));
                return Ok("need-more(short)");
            },
            Outcome::FramingError if n >= 1 && announced(mode, buf[0]) < 4 => return Ok("framing-error"),
            other => fail!("c04:result-without-complete-frame", "{m}: only {n} bytes buffered ({}), decoder returned {other:?}", hex(buf)),
        }
    }
    let a = announced(mode, buf[0]);
    if a < 4 {
        // impossible announced length: must be a framing error - never a panic, never a 0..3 byte "frame"
        match out {
            Outcome::FramingError => return Ok("framing-error"),
            other => fail!(
                "c04:announced-length-below-4-not-rejected",
                "{m}: size byte {:#04x} announces {a} bytes; decoder returned {other:?} and left {} of {n} bytes",
                buf[0],
                rest.len()
            ),
        }
    }
    debug_assert!(a <= limit(mode));
    if n < a {
        match out {
            Outcome::NeedMore => {
                ensure!(rest == buf, "c04:need-more-but-buffer-changed", "{m}: {} -> Ok(None) but buffer changed", hex(&buf[..n.min(32)]));
                return Ok("need-more");
            },
            other => fail!("c04:result-without-complete-frame", "{m}: {n} of {a} announced bytes buffered, decoder returned {other:?}"),
        }
    }
    // a complete announced frame is buffered
    match &out {
        Outcome::NeedMore => fail!("c04:no-progress", "{m}: complete frame of {a} bytes buffered ({}), decoder asks for more data", hex(&buf[..a.min(48)])),
        Outcome::FramingError => {
            // only an announced length that no encoder can produce may be a framing error
            if matches!(mode, Mode::Uncompressed) && a % 4 != 0 {
                return Ok("framing-error(unaligned)");
            }
            fail!("c04:framing-error-on-legal-length", "{m}: announced length {a} is legal but was rejected as a framing error");
        },
        _ => {},
    }
    ensure!(
        rest == buf[a..],
        "c04:consumed-wrong-amount",
        "{m}: announced {a}, buffer had {n}, decoder left {} bytes (should leave {}); result {out:?}",
        rest.len(),
        n - a
    );
    // never reads beyond the frame: the same frame alone gives the same result
    if n > a {
        let (alone, rest2, _, _) = call(&buf[..a], mode).map_err(|p| Fail::new("c04:decoder-panic", format!("{m}: {p}")))?;
        ensure!(rest2.is_empty(), "c04:consumed-wrong-amount", "{m}: frame alone leaves {} bytes", rest2.len());
        ensure!(alone == out, "c04:result-depends-on-following-bytes", "{m}: frame {} decodes to {alone:?} alone but to {out:?} when followed by more data", hex(&buf[..a.min(48)]));
    }
    Ok(match out {
        Outcome::Packet(_) => "packet",
        _ => "decode-error",
    })
}

#[derive(Clone, Debug)]
pub struct BufCase {
    pub compressed: bool,
    pub buf: Vec<u8>,
}

fn case_json(c: &BufCase) -> Value {
    json!({"compressed": c.compressed, "buf": hex(&c.buf)})
}
fn case_from(v: &Value) -> Option<BufCase> {
    Some(BufCase { compressed: v.get("compressed")?.as_bool()?, buf: unhex(v.get("buf")?.as_str()?)? })
}

macro_rules! buf_part {
    ($ty:ident, $name:expr) => {
        pub struct $ty;
        impl Part for $ty {
            type Case = BufCase;
            fn name(&self) -> &'static str {
                $name
            }
            fn check(&self, c: &BufCase, ev: &mut Local) -> Result<(), Fail> {
                let mode = if c.compressed { Mode::Compressed } else { Mode::Uncompressed };
                let class = judge(&c.buf, &mode)?;
                ev.class(class);
                if class == "packet" || class == "decode-error" {
                    ev.nontrivial(&(c.compressed, &c.buf));
                    if ev.wants_sample() && c.buf.len() <= 24 {
                        ev.sample(|| json!({"mode": mode_name(&mode), "buf": hex(&c.buf), "class": class}));
                    }
                }
                Ok(())
            }
            fn to_json(&self, c: &BufCase) -> Value {
                case_json(c)
            }
            fn from_json(&self, v: &Value) -> Option<BufCase> {
                case_from(v)
            }
        }
    };
}

buf_part!(RandomBytes, "random-bytes");
buf_part!(Mutations, "mutated-valid-frames");
buf_part!(Regress, "saved-buffers");

/// (b) every (size, type) header pair x 3 tails, complete, block-wise (one block per size byte)
pub struct HeaderPairs;
impl Part for HeaderPairs {
    type Case = (bool, u8, Option<(u8, u8)>);
    fn name(&self) -> &'static str {
        "all-size-type-header-pairs"
    }
    fn check(&self, c: &Self::Case, ev: &mut Local) -> Result<(), Fail> {
        let mode = if c.0 { Mode::Compressed } else { Mode::Uncompressed };
        let size = c.1;
        let one = |ty: u8, tail: u8, ev: &mut Local| -> Result<(), Fail> {
            let a = announced(&mode, size).max(4);
            let mut buf = vec![0u8; a + 4];
            for (i, b) in buf.iter_mut().enumerate() {
                *b = match tail {
                    0 => 0,
                    1 => 0xff,
                    _ => (i as u8).wrapping_mul(37).wrapping_add(11),
                };
            }
            buf[0] = size;
            buf[1] = ty;
            match judge(&buf, &mode) {
                Ok(class) => {
                    ev.class(class);
                    if class == "packet" {
                        ev.add_nontrivial_distinct(1);
                    }
                    Ok(())
                },
                Err(f) => Err(f.with_case(json!({"compressed": c.0, "size": size, "type": ty, "tail": tail}))),
            }
        };
        match c.2 {
            Some((ty, tail)) => one(ty, tail, ev),
            None => {
                for ty in 0..=255u8 {
                    for tail in 0..3u8 {
                        one(ty, tail, ev)?;
                    }
                }
                ev.add_evals(256 * 3 - 1);
                if size % 64 == 5 {
                    ev.sample(|| json!({"mode": mode_name(&mode), "size_byte": size, "types": 256, "tails": 3}));
                }
                Ok(())
            },
        }
    }
    fn to_json(&self, c: &Self::Case) -> Value {
        json!({"compressed": c.0, "size": c.1})
    }
    fn from_json(&self, v: &Value) -> Option<Self::Case> {
        let t = match (v.get("type").and_then(|x| x.as_u64()), v.get("tail").and_then(|x| x.as_u64())) {
            (Some(a), Some(b)) => Some((a as u8, b as u8)),
            _ => None,
        };
        Some((v.get("compressed")?.as_bool()?, v.get("size")?.as_u64()? as u8, t))
    }
}

/// (d) every byte value in every enum-typed position of every kind (complete)
#[derive(Clone, Debug)]
pub struct EnumPosCase {
    pub variant: String,
    pub compressed: bool,
    pub offset: usize,
    pub value: Option<u8>,
}

fn enum_offsets(fields: &[Field], base: usize, out: &mut Vec<usize>) {
    for f in fields {
        let off = base + f.off;
        match &f.kind {
            Kind::Enum(_) | Kind::Bool | Kind::RaceLaps | Kind::Fuel => out.push(off),
            Kind::Small => out.push(off),
            Kind::Cim => {
                out.push(off);
                out.push(off + 1);
                out.push(off + 2);
            },
            Kind::Vehicle => out.extend(off..off + 4),
            Kind::Track => out.extend(off..off + 6),
            Kind::GameVer => out.extend(off..off + 8),
            Kind::MsoText { .. } => out.push(off),
            Kind::Array { n, stride, fields } => {
                for i in [0, n - 1] {
                    enum_offsets(fields, off + i * stride, out);
                }
            },
            Kind::Struct { fields } => enum_offsets(fields, off, out),
            Kind::Counted { fields, count_at, .. } => {
                out.push(*count_at);
                enum_offsets(fields, off, out);
            },
            Kind::ModSet { count_at, .. } | Kind::IpSet { count_at, .. } => out.push(*count_at),
            _ => {},
        }
    }
}

pub struct EnumPositions;
impl Part for EnumPositions {
    type Case = EnumPosCase;
    fn name(&self) -> &'static str {
        "every-byte-value-in-enum-positions"
    }
    fn check(&self, c: &EnumPosCase, ev: &mut Local) -> Result<(), Fail> {
        let p = spec().packet(&c.variant).ok_or_else(|| Fail::new("harness:variant", c.variant.clone()))?;
        let mode = if c.compressed { Mode::Compressed } else { Mode::Uncompressed };
        // base frame: one element in counted kinds, a short text, everything else zero
        let base = {
            let t = image::targets(p);
            let counted = t.iter().find(|(path, _)| path.contains("[0]"));
            match counted {
                Some((path, _)) => image::one_hot(p, &mode, Some((path, 0))).image,
                None => image::one_hot(p, &mode, None).image,
            }
        };
        if c.offset >= base.len() {
            return Ok(());
        }
        let values: Vec<u8> = match c.value {
            Some(v) => vec![v],
            None => (0..=255).collect(),
        };
        for v in &values {
            let mut buf = base.clone();
            buf[c.offset] = *v;
            // followed by a valid TINY so that "never reads beyond the frame" is observable
            let tiny = match mode {
                Mode::Compressed => [1u8, 3, 9, 3],
                Mode::Uncompressed => [4u8, 3, 9, 3],
            };
            buf.extend_from_slice(&tiny);
            match judge(&buf, &mode) {
                Ok(class) => {
                    ev.class(class);
                    if class == "packet" || class == "decode-error" {
                        ev.add_nontrivial_distinct(1);
                    }
                },
                Err(f) => return Err(f.with_case(json!({"kind": c.variant, "compressed": c.compressed, "offset": c.offset, "value": v}))),
            }
        }
        ev.add_evals(values.len() as u64 - 1);
        if ev.wants_sample() {
            ev.sample(|| json!({"kind": c.variant, "mode": mode_name(&mode), "offset": c.offset, "values": values.len(), "base_frame": hex(&base[..base.len().min(24)])}));
        }
        Ok(())
    }
    fn to_json(&self, c: &EnumPosCase) -> Value {
        json!({"kind": c.variant, "compressed": c.compressed, "offset": c.offset, "value": c.value})
    }
    fn from_json(&self, v: &Value) -> Option<EnumPosCase> {
        Some(EnumPosCase {
            variant: v.get("kind")?.as_str()?.to_string(),
            compressed: v.get("compressed")?.as_bool()?,
            offset: v.get("offset")?.as_u64()? as usize,
            value: v.get("value").and_then(|x| x.as_u64()).map(|x| x as u8),
        })
    }
}


/// (f) the receive loop: decode repeatedly from one buffer until the decoder wants more data (or reports a framing error);
/// every step must consume at least 4 bytes, so the loop ends after at most len/4 steps whatever the bytes are
pub struct DecodeLoop;
impl Part for DecodeLoop {
    type Case = BufCase;
    fn name(&self) -> &'static str {
        "decode-loop-progress"
    }
    fn check(&self, c: &BufCase, ev: &mut Local) -> Result<(), Fail> {
        let mode = if c.compressed { Mode::Compressed } else { Mode::Uncompressed };
        let codec = Codec::new(mode.clone());
        let mut b = BytesMut::from(&c.buf[..]);
        let mut steps = 0usize;
        let mut packets = 0usize;
        loop {
            let before = b.len();
            let r = guard(|| codec.decode(&mut b)).map_err(|p| Fail::new("c04:decoder-panic", format!("{}: step {steps}: {p}", mode_name(&mode))))?;
            match r {
                Ok(None) => {
                    ensure!(b.len() == before, "c04:need-more-but-buffer-changed", "step {steps}");
                    break;
                },
                Err(insim::Error::IO { .. }) => break,
                Ok(Some(_)) | Err(_) => {
                    if matches!(r, Ok(Some(_))) {
                        packets += 1;
                    }
                    ensure!(before - b.len() >= 4, "c04:no-progress", "{}: step {steps} consumed {} bytes of {before}", mode_name(&mode), before - b.len());
                },
            }
            steps += 1;
            ensure!(steps <= c.buf.len() / 4 + 1, "c04:no-progress", "{}: {steps} decode steps over a {}-byte buffer", mode_name(&mode), c.buf.len());
        }
        // the same bytes arriving piecewise at one codec (as a connection's receive loop sees them) must give the same
        // sequence of results as frame-by-frame decoding with a fresh codec: what was buffered when must not matter
        let mut spans: Vec<(usize, usize)> = vec![];
        let reference = {
            let mut out: Vec<String> = vec![];
            let mut rest = BytesMut::from(&c.buf[..]);
            loop {
                let before = c.buf.len() - rest.len();
                let r = guard(|| Codec::new(mode.clone()).decode(&mut rest)).map_err(|p| Fail::new("c04:decoder-panic", p))?;
                match r {
                    Ok(None) => break,
                    Err(insim::Error::IO { .. }) => {
                        out.push("framing".into());
                        break;
                    },
                    Ok(Some(p)) => out.push(format!("{p:?}")),
                    Err(_) => out.push("decode error".into()),
                }
                spans.push((before, c.buf.len() - rest.len()));
            }
            (out, rest.len())
        };
        // what a frame decodes to must not depend on the frames decoded before it (by this codec, this thread, this process):
        // every frame once more on its own, on a fresh thread and in REVERSE order
        if spans.len() >= 2 {
            let alone: Vec<Result<String, String>> = in_fresh_thread(|| {
                let mut v: Vec<Result<String, String>> = spans
                    .iter()
                    .rev()
                    .map(|(a, b)| {
                        let mut one = BytesMut::from(&c.buf[*a..*b]);
                        guard(|| match Codec::new(mode.clone()).decode(&mut one) {
                            Ok(Some(p)) => format!("{p:?}"),
                            Ok(None) => "need more".to_string(),
                            Err(insim::Error::IO { .. }) => "framing".to_string(),
                            Err(_) => "decode error".to_string(),
                        })
                    })
                    .collect();
                v.reverse();
                v
            });
            for (i, a) in alone.iter().enumerate() {
                let a = a.as_ref().map_err(|p| Fail::new("c04:decoder-panic", p.clone()))?;
                ensure!(
                    *a == reference.0[i],
                    "c04:result-depends-on-earlier-frames",
                    "{}: frame #{i} ({}) decodes to {} after the frames before it, but to {} on its own",
                    mode_name(&mode),
                    hex(&c.buf[spans[i].0..spans[i].1.min(spans[i].0 + 48)]),
                    reference.0[i].chars().take(160).collect::<String>(),
                    a.chars().take(160).collect::<String>()
                );
            }
        }
        for pattern in [1usize, 3, 5, 7] {
            let codec = Codec::new(mode.clone());
            let mut b = BytesMut::new();
            let mut out: Vec<String> = vec![];
            let mut fed = 0usize;
            let mut k = 0usize;
            let mut dead = false;
            while fed < c.buf.len() && !dead {
                // segment sizes: 1,1,1.. / 3,3,.. / 5,3,5,3.. / 7,1,7,1..
                let seg = match pattern {
                    1 => 1,
                    3 => 3,
                    5 => [5, 3][k % 2],
                    _ => [7, 1][k % 2],
                };
                k += 1;
                let end = (fed + seg).min(c.buf.len());
                b.extend_from_slice(&c.buf[fed..end]);
                fed = end;
                loop {
                    let r = guard(|| codec.decode(&mut b)).map_err(|p| Fail::new("c04:decoder-panic", format!("{}: piecewise ({pattern}): {p}", mode_name(&mode))))?;
                    match r {
                        Ok(None) => break,
                        Err(insim::Error::IO { .. }) => {
                            out.push("framing".into());
                            dead = true;
                            break;
                        },
                        Ok(Some(p)) => out.push(format!("{p:?}")),
                        Err(_) => out.push("decode error".into()),
                    }
                }
            }
            // after a framing error the connection is dead: whatever was not yet fed does not matter
            let agree = if dead { reference.0.len() >= out.len() && reference.0[..out.len()] == out[..] && reference.0.get(out.len() - 1).map(|s| s == "framing").unwrap_or(false) } else { out == reference.0 && b.len() == reference.1 };
            if !agree {
                let i = (0..out.len().max(reference.0.len())).find(|i| out.get(*i) != reference.0.get(*i)).unwrap_or(0);
                let cut = |s: Option<&String>| s.map(|s| s.chars().take(90).collect::<String>()).unwrap_or("<nothing>".into());
                fail!(
                    "c04:result-depends-on-arrival-pattern",
                    "{}: bytes arriving in pieces of {pattern}: result #{i} is {} (frame by frame with a fresh codec: {}); {} vs {} results, {} vs {} bytes left",
                    mode_name(&mode),
                    cut(out.get(i)),
                    cut(reference.0.get(i)),
                    out.len(),
                    reference.0.len(),
                    b.len(),
                    reference.1
                );
            }
        }
        if steps >= 2 {
            ev.nontrivial(&(c.compressed, &c.buf));
        }
        ev.class(match steps {
            0 => "no-complete-frame",
            1 => "one-step",
            2..=5 => "2-5-steps",
            _ => "6+-steps",
        });
        ev.max("steps", steps as u64);
        ev.max("packets", packets as u64);
        Ok(())
    }
    fn to_json(&self, c: &BufCase) -> Value {
        case_json(c)
    }
    fn from_json(&self, v: &Value) -> Option<BufCase> {
        case_from(v)
    }
}

fn random_strategy() -> impl Strategy<Value = BufCase> {
    let first = prop_oneof![
        3 => 0u8..5,
        2 => 63u8..65,
        1 => Just(255u8),
        4 => any::<u8>(),
    ];
    (any::<bool>(), first, proptest::collection::vec(any::<u8>(), 0..1100), any::<bool>()).prop_map(|(compressed, b0, mut rest, match_len)| {
        let mut buf = vec![b0];
        if match_len {
            // make the size byte agree with the buffer length (a complete frame of random content)
            let want = if compressed { (rest.len() + 1) / 4 * 4 } else { (rest.len() + 1).min(255) };
            rest.truncate(want.saturating_sub(1).max(3));
            buf[0] = if compressed { ((rest.len() + 1) / 4) as u8 } else { (rest.len() + 1) as u8 };
        }
        buf.extend_from_slice(&rest);
        BufCase { compressed, buf }
    })
}

#[derive(Clone, Debug)]
enum Mutation {
    Flip(prop::sample::Index, u8),
    Set(prop::sample::Index, u8),
    Truncate(prop::sample::Index, bool),
    Extend(Vec<u8>, bool),
    SpliceValid,
}

fn mutation_strategy() -> impl Strategy<Value = BufCase> {
    let m = prop_oneof![
        3 => (any::<prop::sample::Index>(), 0u8..8).prop_map(|(i, b)| Mutation::Flip(i, b)),
        3 => (any::<prop::sample::Index>(), any::<u8>()).prop_map(|(i, b)| Mutation::Set(i, b)),
        2 => (any::<prop::sample::Index>(), any::<bool>()).prop_map(|(i, b)| Mutation::Truncate(i, b)),
        2 => (proptest::collection::vec(any::<u8>(), 1..40), any::<bool>()).prop_map(|(v, b)| Mutation::Extend(v, b)),
        1 => Just(Mutation::SpliceValid),
    ];
    (tape_strategy(), tape_strategy(), proptest::collection::vec(m, 1..4)).prop_map(|(a, b, muts)| {
        let mode = if a.compressed { Mode::Compressed } else { Mode::Uncompressed };
        let mut f = image::from_tape(spec().packet(&a.variant).unwrap(), &mode, &a.tape, true).image;
        let g = image::from_tape(spec().packet(&b.variant).unwrap(), &mode, &b.tape, true).image;
        let fix = |f: &mut Vec<u8>| {
            if !f.is_empty() {
                f[0] = match mode {
                    Mode::Compressed => (f.len() / 4).min(255) as u8,
                    Mode::Uncompressed => f.len().min(255) as u8,
                }
            }
        };
        for m in muts {
            match m {
                Mutation::Flip(i, b) => {
                    if !f.is_empty() {
                        let k = i.index(f.len());
                        f[k] ^= 1 << b;
                    }
                },
                Mutation::Set(i, v) => {
                    if !f.is_empty() {
                        let k = i.index(f.len());
                        f[k] = v;
                    }
                },
                Mutation::Truncate(i, fixsize) => {
                    if f.len() > 1 {
                        let k = 1 + i.index(f.len() - 1);
                        f.truncate(k);
                        if fixsize {
                            fix(&mut f);
                        }
                    }
                },
                Mutation::Extend(v, fixsize) => {
                    f.extend_from_slice(&v);
                    if fixsize {
                        fix(&mut f);
                    }
                },
                Mutation::SpliceValid => f.extend_from_slice(&g),
            }
        }
        BufCase { compressed: a.compressed, buf: f }
    })
}


// ------------------------------------------------------------------ the public size byte -> length function itself
pub struct LengthFn;
impl Part for LengthFn {
    /// (compressed, size byte, buffered bytes)
    type Case = (bool, u8, usize);
    fn name(&self) -> &'static str {
        "decode-length-function"
    }
    fn check(&self, c: &(bool, u8, usize), ev: &mut Local) -> Result<(), Fail> {
        let mode = if c.0 { Mode::Compressed } else { Mode::Uncompressed };
        let mut buf = bytes::BytesMut::with_capacity(c.2);
        buf.resize(c.2, 0xA5);
        if c.2 > 0 {
            buf[0] = c.1;
        }
        let announced = if c.0 { c.1 as usize * 4 } else { c.1 as usize };
        let r = guard(|| mode.decode_length(&buf)).map_err(|p| Fail::new("c04:decoder-panic", format!("decode_length(size byte {:#04x}, {} bytes buffered): {p}", c.1, c.2)))?;
        let what = format!("{} mode, size byte {:#04x} (announces {announced}), {} bytes buffered", if c.0 { "compressed" } else { "uncompressed" }, c.1, c.2);
        match r {
            Ok(Some(n)) => {
                ensure!(n == announced && n >= 4 && n <= c.2, "c04:frame-length-wrong", "{what}: decode_length says a frame of {n} bytes is ready");
                ev.class("frame ready");
            },
            Ok(None) => {
                ensure!(c.2 < 4 || (announced >= 4 && c.2 < announced), "c04:complete-frame-not-recognised", "{what}: decode_length asks for more data");
                ev.class("needs more data");
            },
            Err(_) => {
                ensure!(c.2 >= 4 && announced < 4, "c04:valid-size-byte-refused", "{what}: decode_length reports a framing error");
                ev.class("framing error");
            },
        }
        ev.nontrivial_distinct();
        Ok(())
    }
    fn to_json(&self, c: &(bool, u8, usize)) -> Value {
        json!({"compressed": c.0, "size_byte": c.1, "buffered": c.2})
    }
    fn from_json(&self, v: &Value) -> Option<(bool, u8, usize)> {
        Some((v.get("compressed")?.as_bool()?, v.get("size_byte")?.as_u64()? as u8, v.get("buffered")?.as_u64()? as usize))
    }
}

pub fn parts() -> Vec<Box<dyn DynPart>> {
    vec![Box::new(RandomBytes), Box::new(Mutations), Box::new(HeaderPairs), Box::new(EnumPositions), Box::new(Regress), Box::new(DecodeLoop), Box::new(LengthFn)]
}


/// frames of any type whose body is dense in text structure (see run(), c3); each followed by a valid TINY when `with_tiny`
fn dense_text_strategy(with_tiny: bool) -> impl Strategy<Value = BufCase> {
    let token = prop_oneof![
        6 => prop::sample::select(b"LGCETBJSKH8".to_vec()).prop_map(|l| vec![b'^', l]),
        1 => Just(vec![b'^', b'^']),
        1 => Just(vec![b'^']),
        2 => (0x81u8..=0xFE).prop_map(|b| vec![b]),
        2 => (0x20u8..0x7F).prop_map(|b| vec![b]),
        1 => Just(vec![0u8]),
        1 => prop::sample::select(b"LGCETBJSKH8".to_vec()).prop_map(|l| vec![b'^', l, 0xE9]),
    ];
    (any::<bool>(), 1u8..=70, any::<[u8; 2]>(), 0usize..12, proptest::collection::vec(token, 1..5), 1usize..520).prop_map(move |(compressed, ty, hdr, prefix, tokens, repeat)| {
        let limit = if compressed { 1020 } else { 252 };
        let mut body: Vec<u8> = vec![0; prefix];
        'fill: for _ in 0..repeat {
            for t in &tokens {
                if 4 + body.len() + t.len() > limit {
                    break 'fill;
                }
                body.extend_from_slice(t);
            }
        }
        while (4 + body.len()) % 4 != 0 {
            body.push(0);
        }
        let len = 4 + body.len();
        let mut buf = vec![if compressed { (len / 4) as u8 } else { len as u8 }, ty, hdr[0], hdr[1]];
        buf.extend_from_slice(&body);
        if with_tiny {
            buf.extend_from_slice(&[if compressed { 1 } else { 4 }, 3, 9, 3]);
        }
        BufCase { compressed, buf }
    })
}

/// IS_BTN frames in the type-in caption shape (text = NUL caption NUL text) whose caption and text are short runs over carets,
/// NULs, codepage letters and a high byte; followed by a valid TINY
fn btn_caption_strategy() -> impl Strategy<Value = BufCase> {
    let sym = prop::sample::select(vec![b'^', 0u8, b'K', b'J', b'L', b'8', 0xE9, b'a', 0x94]);
    (any::<bool>(), any::<[u8; 8]>(), proptest::collection::vec(sym.clone(), 0..5), proptest::collection::vec(sym, 0..6)).prop_map(|(compressed, hdr, caption, text)| {
        let mut body = hdr.to_vec();
        body.push(0);
        body.extend_from_slice(&caption);
        body.push(0);
        body.extend_from_slice(&text);
        while (4 + body.len()) % 4 != 0 {
            body.push(0);
        }
        let len = 4 + body.len();
        let mut buf = vec![if compressed { (len / 4) as u8 } else { len as u8 }, 45, 1, 0];
        buf.extend_from_slice(&body);
        buf.extend_from_slice(&[if compressed { 1 } else { 4 }, 3, 9, 3]);
        BufCase { compressed, buf }
    })
}

pub fn run(run: &mut Run) {
    if let Some(p) = coverage_problem() {
        eprintln!("HARNESS OUT OF DATE: {p}");
        std::process::exit(2);
    }
    run.rule = "Framing-model oracle on every buffer: no panic; fewer than the announced bytes (or < 4) buffered => Ok(None) with the buffer \
        byte-identical; announced length < 4 => framing error; otherwise Ok(packet)/decode error after removing exactly the announced bytes, \
        and the same frame alone yields the same result (never reads beyond the frame); peak allocation <= 64 KiB + 64 x input. Generators: \
        Mode::decode_length for every size byte x buffered length 0..=1024 x 2 modes (complete); random buffers with biased size bytes; all 256x256 (size,type) pairs x 3 tails x 2 modes (complete); bit flips / substitutions / \
        truncations / extensions / splices of reference frames of all 73 kinds; every byte value in every enum-typed, count and identifier \
        position of every kind (complete); the receive loop (decode until 'need more') over concatenated mutated frames must consume >= 4 \
        bytes per step, and the same bytes arriving in pieces of 1 / 3 / 5,3 / 7,1 at one codec must give the same results as frame-by-frame decoding with fresh codecs, and every frame of such a buffer must decode to the same result once more on its own, on a fresh thread and in reverse order; frames of any type whose body repeats codepage markers, carets, lead bytes and NULs up to the frame limit (up to 500 markers in one text). Non-trivial = a complete announced frame was buffered (result is a packet or a decode error)."
        .into();
    run.assumptions = vec![
        "a framing error is an insim::Error::IO; every other error is a decode error".into(),
        "the counting allocator measures the decoding thread only".into(),
    ];
    // (b)
    run.enumerate(&HeaderPairs, 512, true, |i| Some((i >= 256, (i % 256) as u8, None)));
    // Mode::decode_length directly: every size byte x every buffered length 0..=1024, both modes (complete)
    run.enumerate(&LengthFn, 2 * 256 * 1025, true, |i| Some((i >= 256 * 1025, ((i % (256 * 1025)) / 1025) as u8, (i % 1025) as usize)));
    // (d)
    let mut cases = vec![];
    for p in &spec().packets {
        let mut offs = vec![1usize, 2]; // type byte and reqi as well
        enum_offsets(&p.fields, 0, &mut offs);
        offs.sort();
        offs.dedup();
        for compressed in [false, true] {
            for o in &offs {
                cases.push(EnumPosCase { variant: p.variant.clone(), compressed, offset: *o, value: None });
            }
        }
    }
    run.extra.insert("enum_positions".into(), json!(cases.len()));
    let n = cases.len() as u64;
    run.enumerate(&EnumPositions, n, true, |i| Some(cases[i as usize].clone()));
    // (a)
    let n = run.budget(200_000, 10_000_000);
    run.prop(&RandomBytes, random_strategy(), n);
    // (c)
    let n = run.budget(200_000, 10_000_000);
    run.prop(&Mutations, mutation_strategy(), n);
    // (c2) IS_VER frames around free-form version text (the one field that goes through a hand-written text parser),
    // followed by a valid TINY
    let strat = crate::props::c03::ver_frame_strategy().prop_map(|m| {
        let mut buf = m.frame;
        buf.extend_from_slice(&[if m.compressed { 1 } else { 4 }, 3, 9, 3]);
        BufCase { compressed: m.compressed, buf }
    });
    let n = run.budget(60_000, 3_000_000);
    run.prop(&Mutations, strat, n);
    // (c3) frames of any type whose body is dense in text structure: runs of codepage markers (one switch every two bytes, up to
    // 500 of them), escaped and lone carets, double-byte lead bytes, NULs - repeated to fill frames of every length up to the
    // mode's limit; followed by a valid TINY
    let strat = dense_text_strategy(true);
    let n = run.budget(100_000, 5_000_000);
    run.prop(&Mutations, strat, n);
    let n = run.budget(40_000, 2_000_000);
    run.prop(&Mutations, btn_caption_strategy(), n);
    // (f) receive loop over concatenations of mutated frames and random tails
    let piece = (any::<u8>(), mutation_strategy(), dense_text_strategy(false)).prop_map(|(k, a, b)| if k % 5 < 3 { a } else { b });
    let strat = (any::<bool>(), proptest::collection::vec(piece, 1..8), proptest::collection::vec(any::<u8>(), 0..40)).prop_map(|(flip, parts, tail)| {
        // (pieces built for the other size mode are simply bytes whose size byte means something else)
        let compressed = parts[0].compressed ^ (flip && parts.len() % 4 == 0);
        let mut buf = vec![];
        for p in parts {
            buf.extend_from_slice(&p.buf);
        }
        buf.extend_from_slice(&tail);
        BufCase { compressed, buf }
    });
    let n = run.budget(60_000, 3_000_000);
    run.prop(&DecodeLoop, strat, n);
}
