//! C05 — stream reassembly is independent of segmentation and session length.

use insim::net::Mode;
use proptest::prelude::*;
use serde_json::{json, Value};

use crate::engine::*;
use crate::props::session::*;
use crate::transport::*;

pub fn judge_session(c: &SessionCase, ev: &mut Local) -> Result<(Session, Session, Vec<String>), Fail> {
    let mode = c.mode();
    let stream = c.stream();
    let frames = boundaries(&stream, &mode);
    let max_reads = frames.len() + c.steps.len() + 6;
    let model = model_results(&mode, c.verify, &c.steps, true, max_reads);
    let b = run_blocking(&mode, c.verify, c.steps.clone(), c.writes.clone(), max_reads);
    if let Some(p) = &b.panic {
        fail!("c05:panic-blocking", "blocking connection panicked: {p}");
    }
    let t = run_tokio(&mode, c.verify, c.steps.clone(), c.writes.clone(), max_reads);
    if let Some(p) = &t.panic {
        fail!("c05:panic-tokio", "tokio connection panicked: {p}");
    }
    let first_diff = |a: &[String], b: &[String]| -> String {
        for i in 0..a.len().max(b.len()) {
            if a.get(i) != b.get(i) {
                let cut = |s: Option<&String>| s.map(|s| s.chars().take(120).collect::<String>()).unwrap_or("<nothing>".into());
                return format!("result #{i}: {} vs {}", cut(a.get(i)), cut(b.get(i)));
            }
        }
        "same".into()
    };
    ensure!(
        b.results == model,
        "c05:blocking-differs-from-model",
        "blocking connection returned {} results, the model {}: {} (reads: {})",
        b.results.len(),
        model.len(),
        first_diff(&b.results, &model),
        c.label
    );
    ensure!(
        t.results == model,
        "c05:tokio-differs-from-model",
        "tokio connection returned {} results, the model {}: {} (reads: {})",
        t.results.len(),
        model.len(),
        first_diff(&t.results, &model),
        c.label
    );
    ensure!(b.results == t.results, "c05:blocking-tokio-differ", "{}", first_diff(&b.results, &t.results));
    // classes
    let mut split = false;
    let mut multi = false;
    {
        let mut pos = 0usize;
        for s in &c.steps {
            if let ReadStep::Data(d) = s {
                let (a, e) = (pos, pos + d.len());
                let inside = frames.iter().filter(|f| **f > a && **f < e).count();
                let ends_here = frames.iter().filter(|f| **f > a && **f <= e).count();
                if ends_here >= 2 {
                    multi = true;
                }
                if !frames.contains(&e) && e < stream.len() {
                    split = true;
                }
                let _ = inside;
                pos = e;
            }
        }
    }
    let long = stream.len() > 6120;
    if split {
        ev.class("frame-split-across-reads");
    }
    if multi {
        ev.class("several-frames-in-one-read");
    }
    if long {
        ev.class("traffic-beyond-buffer-capacity");
    }
    if c.steps.iter().any(|s| !matches!(s, ReadStep::Data(_))) {
        ev.class("with-injected-faults");
    }
    ev.min("smallest-slice-offered", b.min_offered.min(t.min_offered) as u64);
    ev.max("largest-slice-offered", b.max_offered.max(t.max_offered) as u64);
    ev.max("stream-bytes", stream.len() as u64);
    if split || multi || long {
        ev.nontrivial(&(c.compressed, &stream, c.steps.len(), &c.label));
    }
    Ok((b, t, model))
}

pub struct Sessions;
impl Part for Sessions {
    type Case = SessionCase;
    fn name(&self) -> &'static str {
        "generated-sessions"
    }
    fn check(&self, c: &SessionCase, ev: &mut Local) -> Result<(), Fail> {
        let (_, _, model) = judge_session(c, ev)?;
        if ev.wants_sample() && c.steps.len() <= 6 && model.len() >= 3 {
            ev.sample(|| json!({"session": session_json(c), "results": model.iter().map(|s| s.chars().take(60).collect::<String>()).collect::<Vec<_>>()}));
        }
        Ok(())
    }
    fn to_json(&self, c: &SessionCase) -> Value {
        session_json(c)
    }
    fn from_json(&self, v: &Value) -> Option<SessionCase> {
        session_from(v)
    }
}

/// all 2^(n-1) partitions of short fixed streams
#[derive(Clone, Debug)]
pub struct PartitionCase {
    pub stream: usize,
    pub compressed: bool,
    pub mask: u32,
}

pub fn short_stream(i: usize, mode: &Mode) -> Vec<u8> {
    let frames: Vec<FrameSpec> = match i {
        0 => vec![FrameSpec::KeepAlive, FrameSpec::Tiny(3, 2), FrameSpec::UnknownType(132, 0), FrameSpec::Tiny(1, 7)],
        1 => vec![FrameSpec::Tiny(3, 1), FrameSpec::BadEnum(1), FrameSpec::KeepAlive],
        // a 2-word frame that starts like a keep-alive, between ordinary packets
        3 => vec![FrameSpec::Tiny(3, 1), FrameSpec::Long(3, 0, 0, 0), FrameSpec::Tiny(3, 5), FrameSpec::KeepAlive],
        _ => vec![FrameSpec::BadEnum(2), FrameSpec::KeepAlive, FrameSpec::KeepAlive, FrameSpec::Tiny(2, 0)],
    };
    let mut s = vec![];
    for f in &frames {
        s.extend_from_slice(&frame_bytes(f, mode));
    }
    s
}

pub struct Partitions;
impl Part for Partitions {
    type Case = PartitionCase;
    fn name(&self) -> &'static str {
        "all-partitions-of-short-streams"
    }
    fn check(&self, c: &PartitionCase, ev: &mut Local) -> Result<(), Fail> {
        let mode = if c.compressed { Mode::Compressed } else { Mode::Uncompressed };
        let stream = short_stream(c.stream, &mode);
        let mut chunks = vec![];
        let mut cur = vec![stream[0]];
        for (i, b) in stream.iter().enumerate().skip(1) {
            if c.mask >> (i - 1) & 1 == 1 {
                chunks.push(std::mem::take(&mut cur));
            }
            cur.push(*b);
        }
        chunks.push(cur);
        let sc = SessionCase { compressed: c.compressed, verify: false, steps: chunks.into_iter().map(ReadStep::Data).collect(), writes: vec![], label: format!("partition {:#x}", c.mask) };
        judge_session(&sc, ev)?;
        Ok(())
    }
    fn to_json(&self, c: &PartitionCase) -> Value {
        json!({"stream": c.stream, "compressed": c.compressed, "mask": c.mask})
    }
    fn from_json(&self, v: &Value) -> Option<PartitionCase> {
        Some(PartitionCase { stream: v.get("stream")?.as_u64()? as usize, compressed: v.get("compressed")?.as_bool()?, mask: v.get("mask")?.as_u64()? as u32 })
    }
}

pub fn parts() -> Vec<Box<dyn DynPart>> {
    vec![Box::new(Sessions), Box::new(Partitions)]
}

pub fn run(run: &mut Run) {
    run.rule = "Frame sequences (conformant frames of all 73 kinds, unknown type numbers, well-framed undecodable frames, keep-alives, \
        maximum-size frames) are concatenated into a byte stream and cut into read steps (single bytes, one read, random cuts, cuts at / \
        around frame boundaries, fixed chunks incl. 6120/6121), with transient errors (WouldBlock / Interrupted / TimedOut), Pending \
        polls and 90 s stalls injected, optionally ending mid-frame. The same script drives a blocking and a tokio connection over a \
        scripted transport (paused clock); both result lists must equal the reference model (one result per complete frame, each fault \
        exactly once at its position, then Disconnected). Short streams: all 2^(n-1) partitions (complete). Runs of 1..256 undecodable frames in a row followed by decodable ones, cut every way. Half of the generated sessions run with the version gate on (what the gate does to one packet must not disturb the next). Streams of N four-byte frames for N around 1530, 2670 and 3060 (the receive buffer's capacity and its multiples) in pieces of 1, 2, 3, 5 bytes, ending right after the last frame. Non-trivial = a frame is \
        split across reads, several frames share a read, or the traffic exceeds the 6120-byte buffer."
        .into();
    run.assumptions = vec![
        "the per-frame verdict (packet / decode error) is the codec's verdict on that frame alone (C04 judges the codec)".into(),
        "a framing error is terminal for a stream (the generator only produces well-framed streams)".into(),
    ];
    // exhaustive partitions
    let mut total = 0u64;
    let mut index: Vec<(usize, bool, u64)> = vec![];
    for s in 0..4usize {
        for compressed in [false, true] {
            let mode = if compressed { Mode::Compressed } else { Mode::Uncompressed };
            let n = short_stream(s, &mode).len();
            index.push((s, compressed, total));
            total += 1u64 << (n - 1);
        }
    }
    run.enumerate(&Partitions, total, true, |i| {
        let (s, compressed, base) = *index.iter().rev().find(|(_, _, b)| i >= *b).unwrap();
        Some(PartitionCase { stream: s, compressed, mask: (i - base) as u32 })
    });
    // short random sessions
    let n = run.budget(30_000, 2_000_000);
    // (version verification on in half of them: what the gate does to one packet must not disturb the reassembly of the next)
    run.prop(&Sessions, session_strategy(8, 2, 2, true, None), n);
    // end of stream at every point around the receive buffer's capacity (6120 bytes) and its multiples: sessions of N four-byte
    // frames for every N near 6120/4, 2*6120/4, ... delivered in pieces of 1, 2, 3 and 5 bytes, ending exactly after the last frame
    {
        let mut cases = vec![];
        for compressed in [false, true] {
            let mode = if compressed { Mode::Compressed } else { Mode::Uncompressed };
            for piece in [1usize, 2, 3, 5] {
                for n in (1300..=1560usize).chain(2640..=2700).chain(3050..=3070) {
                    if (n + piece) % 2 == 1 && !(1525..=1535).contains(&n) && !(1335..=1342).contains(&n) && !(2672..=2680).contains(&n) {
                        continue; // half of the lengths away from the marks, all of them around the marks
                    }
                    let mut stream = Vec::with_capacity(4 * n);
                    for i in 0..n {
                        stream.extend_from_slice(&frame_bytes(&FrameSpec::Tiny(3, (i % 255 + 1) as u8), &mode));
                    }
                    let steps: Vec<ReadStep> = stream.chunks(piece).map(|c| ReadStep::Data(c.to_vec())).collect();
                    cases.push(SessionCase { compressed, verify: false, steps, writes: vec![], label: format!("{n} frames in pieces of {piece}") });
                }
            }
        }
        run.list(&Sessions, "generated-sessions", cases);
    }
    // thorough tier only: real quiet periods (12 s and 31 s of wall-clock time) between and inside frames - behaviour keyed on
    // std::time::Instant (stall guards, idle timers shorter than the 90 s timeout) is invisible to everything else
    if !run.quick() {
        let mut cases = vec![];
        for compressed in [false, true] {
            let mode = if compressed { Mode::Compressed } else { Mode::Uncompressed };
            let ping = |n: u8| frame_bytes(&FrameSpec::Tiny(3, n), &mode);
            let ka = frame_bytes(&FrameSpec::KeepAlive, &mode);
            let big = frame_bytes(&FrameSpec::Kind(12, vec![7; 40]), &mode);
            let steps = vec![
                ReadStep::Data(ping(1)),
                ReadStep::RealPause(12_000),
                ReadStep::Data(ping(2)[..3].to_vec()),
                ReadStep::Data(ping(2)[3..].to_vec()),
                ReadStep::Data(big[..5].to_vec()),
                ReadStep::RealPause(31_000),
                ReadStep::Data(big[5..].to_vec()),
                ReadStep::Data(ka[..2].to_vec()),
                ReadStep::Data(ka[2..].to_vec()),
                ReadStep::Data(ping(3)),
            ];
            cases.push(SessionCase { compressed, verify: false, steps, writes: vec![], label: "real quiet periods".into() });
        }
        run.list(&Sessions, "generated-sessions", cases);
    }
    // runs of undecodable frames (unknown types, bad enumeration values): 1..256 of them in a row, then decodable ones - cut every
    // way, several frames per read among them: each must give its own error and none may disturb what follows
    {
        use proptest::prelude::*;
        let strat = (
            any::<bool>(),
            prop_oneof![3 => 1usize..40, 1 => Just(31usize), 1 => Just(32), 1 => Just(33), 2 => 40usize..140, 1 => Just(255usize), 1 => Just(256)],
            proptest::collection::vec(frame_strategy(1, 1), 1..6),
            cutting_strategy(),
            any::<bool>(),
            any::<bool>(),
        )
            .prop_map(|(compressed, n, tail, cutting, verify, small)| {
                let mode = if compressed { Mode::Compressed } else { Mode::Uncompressed };
                let mut stream = vec![];
                for i in 0..n {
                    let f = if i % 3 == 2 { FrameSpec::BadEnum(i as u8) } else { FrameSpec::UnknownType(i as u8, if small { 0 } else { (i * 7) as u8 }) };
                    stream.extend_from_slice(&frame_bytes(&f, &mode));
                }
                for f in &tail {
                    stream.extend_from_slice(&frame_bytes(f, &mode));
                }
                let steps = build_steps(cut_stream(&stream, &mode, &cutting), &[]);
                SessionCase { compressed, verify, steps, writes: vec![], label: format!("{n} undecodable frames in a row ({cutting:?})").chars().take(80).collect() }
            });
        let n = run.budget(4_000, 200_000);
        run.prop(&Sessions, strat, n);
    }
    // long sessions: tens of KB, many reclaim cycles of the receive buffer
    let n = run.budget(1_500, 100_000);
    run.prop(&Sessions, session_strategy(300, 2, 1, true, None), n);
}
