//! C19 — cancelling a pending async read loses nothing.

use std::collections::BTreeSet;
use std::task::Poll;

use insim::net::{Codec, Mode};
use proptest::prelude::*;
use serde_json::{json, Value};

use crate::engine::*;
use crate::props::session::*;
use crate::transport::*;

#[derive(Clone, Debug)]
pub struct DropCase {
    pub session: SessionCase,
    /// global poll indices (1-based) at which a Pending read future is dropped
    pub drops: BTreeSet<usize>,
    /// after which read attempts (0-based; completed or dropped) the application issues a write of its own
    /// (TINY ping, reqi = attempt+1), as the timer branch of a select! loop does
    pub user_writes: BTreeSet<usize>,
    /// the application's own writes are TINY_NONE with request id 0 (the very frame the connection uses as its keep-alive
    /// reply) instead of pings
    pub user_none: bool,
}

pub struct Outcome {
    pub results: Vec<String>,
    pub written: Vec<u8>,
    pub polls: usize,
    pub dropped_in_read: usize,
    pub dropped_in_write: usize,
    /// application frames whose write() returned Ok, in order
    pub user_frames: Vec<Vec<u8>>,
    pub writes_after_drop: usize,
    pub panic: Option<String>,
    /// every write call the connection made: (bytes accepted so far, bytes offered)
    pub offers: Vec<(usize, usize)>,
}

fn user_frame(mode: &Mode, i: usize) -> Vec<u8> {
    vec![size_byte(mode, 4), 3, (i + 1) as u8, 3]
}

/// drive a tokio connection by hand: poll the read future, drop it at the chosen polls, start a new one
pub fn drive(c: &DropCase, with_drops: bool) -> Outcome {
    // every other write script is served by a transport that announces vectored writes (tokio's TcpStream does)
    drive_on(c, with_drops, c.session.writes.len() % 2 == 1)
}

pub fn drive_on(c: &DropCase, with_drops: bool, vectored: bool) -> Outcome {
    let mode = c.session.mode();
    let t = Transport::new(c.session.steps.clone(), c.session.writes.clone()).vectored(vectored);
    let rt = tokio_runtime();
    let t2 = t.clone();
    let max_results = boundaries(&c.session.stream(), &mode).len() + c.session.steps.len() + 6;
    let r = guard(|| {
        rt.block_on(async {
            let mut framed = insim::net::tokio_impl::Framed::new(Box::new(t2.clone()), Codec::new(mode.clone()));
            framed.verify_version(c.session.verify);
            let mut results: Vec<String> = vec![];
            let mut polls = 0usize;
            let (mut dr, mut dw) = (0usize, 0usize);
            let mut attempt = 0usize;
            let mut user_frames: Vec<Vec<u8>> = vec![];
            let mut writes_after_drop = 0usize;
            let mut finished = false;
            'session: while results.len() < max_results && polls < 100_000 {
                let mut was_dropped = false;
                {
                    let mut fut = Box::pin(framed.read());
                    loop {
                        polls += 1;
                        let before = t2.0.lock().unwrap().trace.len();
                        match futures_util::poll!(fut.as_mut()) {
                            Poll::Ready(r) => {
                                let s = render(&r);
                                t2.push_event(Event::Returned(s.clone()));
                                let stop = s == "Err(Disconnected)" || s == "Err(framing)";
                                results.push(s);
                                if stop {
                                    finished = true;
                                }
                                break;
                            },
                            Poll::Pending => {
                                if with_drops && c.drops.contains(&polls) {
                                    let tr = t2.0.lock().unwrap();
                                    let in_write = tr.trace[before..].iter().any(|e| matches!(e, Event::WritePending));
                                    drop(tr);
                                    if in_write {
                                        dw += 1;
                                    } else {
                                        dr += 1;
                                    }
                                    t2.push_event(Event::Dropped);
                                    was_dropped = true;
                                    break;
                                }
                                if polls >= 100_000 {
                                    break 'session;
                                }
                            },
                        }
                    }
                }
                if finished {
                    break 'session;
                }
                // the application writes something of its own between reads (as a select loop with a timer does)
                if c.user_writes.contains(&attempt) {
                    let p = if c.user_none {
                        insim::insim::Tiny { reqi: insim::identifiers::RequestId(0), subt: insim::insim::TinyType::None }
                    } else {
                        insim::insim::Tiny { reqi: insim::identifiers::RequestId((attempt + 1) as u8), subt: insim::insim::TinyType::Ping }
                    };
                    // every third of the application's calls is the other public entry point that puts a frame on the wire: a
                    // handshake (an ISI) in the middle of the session
                    let as_handshake = !c.user_none && attempt % 3 == 2;
                    let isi = insim::insim::Isi { reqi: insim::identifiers::RequestId((attempt + 1) as u8), iname: "c19".into(), ..Default::default() };
                    let w = if as_handshake { framed.handshake(isi.clone(), std::time::Duration::from_secs(5)).await } else { framed.write(p).await };
                    t2.push_event(Event::WriteReturned(format!("{:?}", w.is_ok())));
                    if w.is_ok() {
                        user_frames.push(if c.user_none {
                            vec![size_byte(&mode, 4), 3, 0, 0]
                        } else if as_handshake {
                            Codec::new(mode.clone()).encode(&insim::Packet::Isi(isi)).expect("ISI encodes").to_vec()
                        } else {
                            user_frame(&mode, attempt)
                        });
                        if was_dropped {
                            writes_after_drop += 1;
                        }
                    }
                }
                attempt += 1;
            }
            (results, polls, dr, dw, user_frames, writes_after_drop)
        })
    });
    match r {
        Ok((results, polls, dr, dw, user_frames, writes_after_drop)) => Outcome { results, written: t.written(), polls, dropped_in_read: dr, dropped_in_write: dw, user_frames, writes_after_drop, panic: None, offers: t.0.lock().unwrap().offers.clone() },
        Err(p) => Outcome { results: vec![], written: t.written(), polls: 0, dropped_in_read: 0, dropped_in_write: 0, user_frames: vec![], writes_after_drop: 0, panic: Some(p), offers: vec![] },
    }
}

/// split an outgoing byte stream into whole frames; None if it ends inside a frame
fn whole_frames(out: &[u8], mode: &Mode) -> Option<Vec<Vec<u8>>> {
    let mut v = vec![];
    let mut i = 0;
    while i < out.len() {
        let a = match mode {
            Mode::Compressed => out[i] as usize * 4,
            Mode::Uncompressed => out[i] as usize,
        };
        if a < 4 || i + a > out.len() {
            return None;
        }
        v.push(out[i..i + a].to_vec());
        i += a;
    }
    Some(v)
}

pub fn judge(c: &DropCase, ev: &mut Local) -> Result<(), Fail> {
    let mode = c.session.mode();
    let base = drive(c, false);
    if let Some(p) = base.panic {
        fail!("c19:panic", "uninterrupted session panicked: {p}");
    }
    let got = drive(c, true);
    if let Some(p) = got.panic {
        fail!("c19:panic", "interrupted session panicked: {p}");
    }
    // the uninterrupted session itself must agree with the C05 model (sanity of the driver)
    let model = model_results(&mode, c.session.verify, &c.session.steps, false, base.results.len().max(1) + 2);
    ensure!(base.results == model, "harness:driver-disagrees-with-model", "{:?} vs {:?}", base.results.len(), model.len());
    if got.results != base.results {
        let i = (0..got.results.len().max(base.results.len())).find(|i| got.results.get(*i) != base.results.get(*i)).unwrap();
        let lost_keepalive = base.results.get(i).map(|r| r.contains("subt: None") && r.contains("RequestId(0)")).unwrap_or(false);
        let sig = if lost_keepalive && got.dropped_in_write > 0 { "c19:drop-during-keepalive-reply" } else { "c19:packets-lost-or-duplicated" };
        fail!(
            sig,
            "after dropping {} pending reads ({} while the keep-alive reply was being written): result #{i} is {} instead of {} ({} vs {} results)",
            got.dropped_in_read + got.dropped_in_write,
            got.dropped_in_write,
            got.results.get(i).map(|s| s.chars().take(80).collect::<String>()).unwrap_or("<nothing>".into()),
            base.results.get(i).map(|s| s.chars().take(80).collect::<String>()).unwrap_or("<nothing>".into()),
            got.results.len(),
            base.results.len()
        );
    }
    // outgoing side: whole frames only, one TINY_NONE per keep-alive, user frames intact and in order
    let keepalives = base.results.iter().filter(|r| r.as_str() == "Ok(Tiny(Tiny { reqi: RequestId(0), subt: None }))").count();
    let Some(frames) = whole_frames(&got.written, &mode) else {
        fail!("c19:partial-frame-on-outgoing-side", "outgoing stream ends inside a frame or is misframed: {}", hex(&got.written));
    };
    let reply = vec![size_byte(&mode, 4), 3, 0, 0];
    let replies = frames.iter().filter(|f| **f == reply).count();
    // when the application itself writes TINY_NONE frames they are indistinguishable from replies on the wire: the total counts
    let own_none = if c.user_none { got.user_frames.len() } else { 0 };
    ensure!(replies == keepalives + own_none, "c19:keepalive-replies", "{keepalives} keep-alives delivered and {own_none} TINY_NONE written by the application, {replies} such frames on the wire: {}", hex(&got.written));
    let users: Vec<&Vec<u8>> = frames.iter().filter(|f| **f != reply).collect();
    let expected_users: Vec<Vec<u8>> = if c.user_none { vec![] } else { got.user_frames.clone() };
    ensure!(
        users.len() == expected_users.len() && users.iter().zip(expected_users.iter()).all(|(a, b)| **a == *b),
        "c19:user-frame-damaged",
        "application frames on the wire {:?}, expected {:?}",
        users.iter().map(|f| hex(f)).collect::<Vec<_>>(),
        expected_users.iter().map(|f| hex(f)).collect::<Vec<_>>()
    );
    if got.dropped_in_read + got.dropped_in_write > 0 {
        ev.nontrivial(&(session_json(&c.session).to_string(), &c.drops));
    }
    if got.dropped_in_read > 0 {
        ev.class("dropped-in-transport-read");
    }
    if got.dropped_in_write > 0 {
        ev.class("dropped-in-keepalive-write");
    }
    if got.writes_after_drop > 0 {
        ev.class("application-write-right-after-a-drop");
    }
    if got.dropped_in_read + got.dropped_in_write == 0 {
        ev.class("no-drop-happened");
    }
    ev.max("polls", got.polls as u64);
    Ok(())
}

fn case_json(c: &DropCase) -> Value {
    json!({"session": session_json(&c.session), "drop_at_polls": c.drops.iter().collect::<Vec<_>>(), "user_write_after_results": c.user_writes.iter().collect::<Vec<_>>(), "user_writes_tiny_none": c.user_none})
}
fn case_from(v: &Value) -> Option<DropCase> {
    Some(DropCase {
        session: session_from(v.get("session")?)?,
        drops: v.get("drop_at_polls")?.as_array()?.iter().filter_map(|x| x.as_u64().map(|x| x as usize)).collect(),
        user_writes: v.get("user_write_after_results")?.as_array()?.iter().filter_map(|x| x.as_u64().map(|x| x as usize)).collect(),
        user_none: v.get("user_writes_tiny_none").and_then(|x| x.as_bool()).unwrap_or(false),
    })
}

pub struct Generated;
impl Part for Generated {
    type Case = DropCase;
    fn name(&self) -> &'static str {
        "generated-drop-schedules"
    }
    fn check(&self, c: &DropCase, ev: &mut Local) -> Result<(), Fail> {
        judge(c, ev)?;
        if ev.wants_sample() && c.session.steps.len() <= 5 && !c.drops.is_empty() {
            ev.sample(|| case_json(c));
        }
        Ok(())
    }
    fn to_json(&self, c: &DropCase) -> Value {
        case_json(c)
    }
    fn from_json(&self, v: &Value) -> Option<DropCase> {
        case_from(v)
    }
}

/// small sessions: every subset of drop points (complete)
#[derive(Clone, Debug)]
pub struct SmallCase {
    pub script: usize,
    pub compressed: bool,
    pub mask: u32,
}

pub fn small_script(i: usize, mode: &Mode) -> (Vec<ReadStep>, Vec<WriteStep>) {
    let ka = frame_bytes(&FrameSpec::KeepAlive, mode);
    let ping = frame_bytes(&FrameSpec::Tiny(3, 7), mode);
    let unk = frame_bytes(&FrameSpec::UnknownType(1, 0), mode);
    match i {
        0 => (
            vec![ReadStep::Pending, ReadStep::Data(ka.clone()), ReadStep::Pending, ReadStep::Data(ping.clone())],
            vec![WriteStep::Pending, WriteStep::Accept(1), WriteStep::Pending, WriteStep::Accept(2), WriteStep::Pending],
        ),
        1 => (
            vec![ReadStep::Data([&ka[..2]].concat()), ReadStep::Pending, ReadStep::Data([&ka[2..], &ping[..], &ka[..]].concat()), ReadStep::Pending, ReadStep::Pending, ReadStep::Data(unk.clone())],
            vec![WriteStep::Pending, WriteStep::Pending, WriteStep::Accept(3), WriteStep::Pending],
        ),
        _ => (
            vec![ReadStep::Pending, ReadStep::Data([&ping[..], &ka[..], &ka[..3]].concat()), ReadStep::Pending, ReadStep::Data(ka[3..].to_vec()), ReadStep::Pending],
            vec![WriteStep::Accept(2), WriteStep::Pending, WriteStep::Pending, WriteStep::Accept(1), WriteStep::Pending, WriteStep::Accept(1)],
        ),
    }
}

pub const SMALL_POLLS: usize = 13;
/// application writes after read attempts 0..4 are enumerated as well
pub const SMALL_WRITES: usize = 4;

pub struct SmallExhaustive;
impl Part for SmallExhaustive {
    type Case = SmallCase;
    fn name(&self) -> &'static str {
        "all-drop-subsets-of-small-sessions"
    }
    fn check(&self, c: &SmallCase, ev: &mut Local) -> Result<(), Fail> {
        let mode = if c.compressed { Mode::Compressed } else { Mode::Uncompressed };
        let (steps, writes) = small_script(c.script, &mode);
        let drops: BTreeSet<usize> = (0..SMALL_POLLS).filter(|i| c.mask >> i & 1 == 1).map(|i| i + 1).collect();
        let mut dc = DropCase {
            session: SessionCase { compressed: c.compressed, verify: false, steps, writes, label: format!("small script {}", c.script) },
            drops,
            user_writes: (0..SMALL_WRITES).filter(|i| c.mask >> (SMALL_POLLS + i) & 1 == 1).collect(),
            user_none: false,
        };
        judge(&dc, ev)?;
        if dc.user_writes.is_empty() {
            return Ok(());
        }
        // the same schedule with the application writing TINY_NONE frames of its own
        dc.user_none = true;
        let mut scratch = Local::new();
        scratch.frozen = true;
        judge(&dc, &mut scratch)
    }
    fn to_json(&self, c: &SmallCase) -> Value {
        json!({"script": c.script, "compressed": c.compressed, "drop_mask": c.mask})
    }
    fn from_json(&self, v: &Value) -> Option<SmallCase> {
        Some(SmallCase { script: v.get("script")?.as_u64()? as usize, compressed: v.get("compressed")?.as_bool()?, mask: v.get("drop_mask")?.as_u64()? as u32 })
    }
}


// ---------------------------------------------------------------------------------------
// the real adaptors (tokio UDP, WebSocket) under cancellation, on loopback sockets
// ---------------------------------------------------------------------------------------
#[derive(Clone, Debug)]
pub struct AdaptorCase {
    pub websocket: bool,
    pub compressed: bool,
    /// what the peer sends, unit by unit (UDP: one datagram of whole frames; WebSocket: one binary message, frames may be split)
    pub units: Vec<Vec<u8>>,
    /// per unit: 0 = send, then read; 1 = poll a read to Pending, drop it, send, read; 2 = poll to Pending, send, wait, drop
    /// WITHOUT polling again, read; 3 = poll to Pending, send, await the same future
    pub schedule: Vec<u8>,
}

fn run_adaptor_session(c: &AdaptorCase) -> Result<(Vec<String>, usize), String> {
    use futures_util::{SinkExt, StreamExt};
    use std::time::Duration;
    let mode = if c.compressed && !c.websocket { Mode::Compressed } else { Mode::Uncompressed };
    let rt = tokio::runtime::Builder::new_current_thread().enable_all().build().map_err(|e| format!("bind: {e}"))?;
    let c = c.clone();
    guard(move || {
        rt.block_on(async move {
            // --- set up the connection and a way to make the peer send unit i
            let (tx, mut rx) = tokio::sync::mpsc::unbounded_channel::<Option<Vec<u8>>>();
            let mut framed;
            if c.websocket {
                let listener = tokio::net::TcpListener::bind("127.0.0.1:0").await.map_err(|e| format!("bind: {e}"))?;
                let addr = listener.local_addr().unwrap();
                let _server = tokio::spawn(async move {
                    let Ok((stream, _)) = listener.accept().await else { return };
                    let Ok(mut ws) = tokio_tungstenite::accept_async(stream).await else { return };
                    while let Some(m) = rx.recv().await {
                        match m {
                            Some(b) => {
                                if ws.send(tokio_tungstenite::tungstenite::Message::binary(b)).await.is_err() {
                                    return;
                                }
                            },
                            None => {
                                let _ = ws.close(None).await;
                                while let Some(Ok(_)) = ws.next().await {}
                                return;
                            },
                        }
                    }
                });
                let (ws, _) = tokio_tungstenite::connect_async(format!("ws://{addr}/connect")).await.map_err(|e| format!("connect: {e}"))?;
                framed = insim::net::tokio_impl::Framed::new(Box::new(insim::net::tokio_impl::WebsocketStream::from(ws)), Codec::new(mode.clone()));
            } else {
                let a = tokio::net::UdpSocket::bind("127.0.0.1:0").await.map_err(|e| format!("bind: {e}"))?;
                let peer = tokio::net::UdpSocket::bind("127.0.0.1:0").await.map_err(|e| format!("bind: {e}"))?;
                a.connect(peer.local_addr().unwrap()).await.map_err(|e| format!("connect: {e}"))?;
                peer.connect(a.local_addr().unwrap()).await.map_err(|e| format!("connect: {e}"))?;
                let _server = tokio::spawn(async move {
                    while let Some(Some(b)) = rx.recv().await {
                        if peer.send(&b).await.is_err() {
                            return;
                        }
                    }
                });
                framed = insim::net::tokio_impl::Framed::new(Box::new(insim::net::tokio_impl::UdpStream::from(a)), Codec::new(mode.clone()));
            }
            // --- how many frames does each unit complete?
            let mut stream: Vec<u8> = vec![];
            let mut done_before = 0usize;
            let mut results: Vec<String> = vec![];
            let mut drops = 0usize;
            for (i, unit) in c.units.iter().enumerate() {
                stream.extend_from_slice(unit);
                let done_now = {
                    // number of COMPLETE frames in the bytes sent so far
                    let (mut i, mut n) = (0usize, 0usize);
                    while i < stream.len() {
                        let a = match mode {
                            Mode::Compressed => stream[i] as usize * 4,
                            Mode::Uncompressed => stream[i] as usize,
                        };
                        if a < 4 || i + a > stream.len() {
                            break;
                        }
                        i += a;
                        n += 1;
                    }
                    n
                };
                let completes = done_now - done_before;
                done_before = done_now;
                let sched = c.schedule.get(i).copied().unwrap_or(0) % 4;
                let mut need = completes;
                let mut early: Vec<String> = vec![];
                let mut timed_out = false;
                {
                    // the read started BEFORE the unit is sent lives only inside this block
                    let mut first = if sched != 0 { Some(Box::pin(framed.read())) } else { None };
                    if let Some(fut) = first.as_mut() {
                        if let Poll::Ready(r) = futures_util::poll!(fut.as_mut()) {
                            // can only happen if frames of an earlier unit were left unread, which the loop below prevents
                            return Err(format!("unexpected result before unit {i} was sent: {}", render(&r)));
                        }
                    }
                    match sched {
                        1 => {
                            drop(first.take());
                            drops += 1;
                            tx.send(Some(unit.clone())).map_err(|_| "peer gone".to_string())?;
                        },
                        2 => {
                            tx.send(Some(unit.clone())).map_err(|_| "peer gone".to_string())?;
                            // let the data arrive at the socket while the old future is neither polled nor dropped
                            tokio::time::sleep(Duration::from_millis(3)).await;
                            drop(first.take());
                            drops += 1;
                        },
                        _ => {
                            tx.send(Some(unit.clone())).map_err(|_| "peer gone".to_string())?;
                        },
                    }
                    if let Some(mut fut) = first.take() {
                        // schedule 3: keep using the future that was started before the data existed
                        if completes == 0 {
                            for _ in 0..3 {
                                tokio::time::sleep(Duration::from_millis(1)).await;
                                if let Poll::Ready(r) = futures_util::poll!(fut.as_mut()) {
                                    return Err(format!("result {} although no frame is complete after unit {i}", render(&r)));
                                }
                            }
                            drop(fut);
                            drops += 1;
                            need = usize::MAX; // marker: partial data already consumed under cancellation
                        } else {
                            match tokio::time::timeout(Duration::from_secs(2), fut).await {
                                Ok(r) => early.push(render(&r)),
                                Err(_) => timed_out = true,
                            }
                            need -= 1;
                        }
                    }
                }
                results.extend(early);
                if timed_out {
                    results.push("<nothing delivered within 2 s>".into());
                    return Ok((results, drops));
                }
                if need == usize::MAX {
                    need = 0;
                } else if completes == 0 {
                    // make the connection consume the partial data, then cancel that read
                    let mut fut = Box::pin(framed.read());
                    for _ in 0..3 {
                        tokio::time::sleep(Duration::from_millis(1)).await;
                        if let Poll::Ready(r) = futures_util::poll!(fut.as_mut()) {
                            return Err(format!("result {} although no frame is complete after unit {i}", render(&r)));
                        }
                    }
                    drop(fut);
                    drops += 1;
                }
                for _ in 0..need {
                    match tokio::time::timeout(Duration::from_secs(2), framed.read()).await {
                        Ok(r) => results.push(render(&r)),
                        Err(_) => {
                            results.push("<nothing delivered within 2 s>".into());
                            return Ok((results, drops));
                        },
                    }
                }
            }
            if c.websocket {
                let _ = tx.send(None);
                match tokio::time::timeout(Duration::from_secs(2), framed.read()).await {
                    Ok(r) => results.push(render(&r)),
                    Err(_) => results.push("<no end of stream within 2 s>".into()),
                }
            }
            Ok((results, drops))
        })
    })
    .map_err(|p| format!("panic: {p}"))?
}

pub struct RealAdaptors;
impl Part for RealAdaptors {
    type Case = AdaptorCase;
    fn name(&self) -> &'static str {
        "udp-and-websocket-adaptors-with-drops"
    }
    fn check(&self, c: &AdaptorCase, ev: &mut Local) -> Result<(), Fail> {
        let mode = if c.compressed && !c.websocket { Mode::Compressed } else { Mode::Uncompressed };
        let (results, drops) = match run_adaptor_session(c) {
            Ok(r) => r,
            Err(e) => {
                if e.starts_with("bind") || e.starts_with("connect") {
                    eprintln!("INCONCLUSIVE: loopback sockets unavailable: {e}");
                    std::process::exit(2);
                }
                fail!(if e.starts_with("panic") { "c19:panic" } else { "c19:adaptor-result-out-of-turn" }, "{e}");
            },
        };
        let stream: Vec<u8> = c.units.concat();
        let mut want = model_results(&mode, false, &[ReadStep::Data(stream.clone())], false, 100_000);
        if !c.websocket {
            // UDP has no end of stream
            let _ = want.pop();
        } else if boundaries(&stream, &mode).last().map(|e| *e > stream.len()).unwrap_or(false) {
            // ends inside a frame: the model's last entry is still Disconnected
        }
        if results != want {
            let i = (0..want.len().max(results.len())).find(|i| results.get(*i) != want.get(*i)).unwrap();
            fail!(
                if c.websocket { "c19:websocket-adaptor-loses-data-on-cancel" } else { "c19:udp-adaptor-loses-data-on-cancel" },
                "{} adaptor, {} cancellations: result #{i} is {} instead of {}",
                if c.websocket { "websocket" } else { "udp" },
                drops,
                results.get(i).map(|s| s.chars().take(80).collect::<String>()).unwrap_or("<nothing>".into()),
                want.get(i).map(|s| s.chars().take(80).collect::<String>()).unwrap_or("<nothing>".into())
            );
        }
        if drops > 0 {
            ev.nontrivial(&format!("{c:?}"));
        }
        ev.class(if c.websocket { "websocket" } else { "udp" });
        ev.max("cancellations", drops as u64);
        if ev.wants_sample() && c.units.len() <= 4 {
            ev.sample(|| json!({"adaptor": if c.websocket { "websocket" } else { "udp" }, "units": c.units.iter().map(|u| hex(u)).collect::<Vec<_>>(), "schedule": c.schedule, "cancellations": drops}));
        }
        Ok(())
    }
    fn to_json(&self, c: &AdaptorCase) -> Value {
        json!({"websocket": c.websocket, "compressed": c.compressed, "units": c.units.iter().map(|u| hex(u)).collect::<Vec<_>>(), "schedule": c.schedule})
    }
    fn from_json(&self, v: &Value) -> Option<AdaptorCase> {
        Some(AdaptorCase {
            websocket: v.get("websocket")?.as_bool()?,
            compressed: v.get("compressed")?.as_bool()?,
            units: v.get("units")?.as_array()?.iter().map(|u| unhex(u.as_str()?)).collect::<Option<Vec<_>>>()?,
            schedule: v.get("schedule")?.as_array()?.iter().filter_map(|x| x.as_u64().map(|x| x as u8)).collect(),
        })
    }
}


/// the generated schedules of the second part (also used by C20's write-call part)
pub fn drop_case_strategy() -> impl Strategy<Value = DropCase> {
    // (IS_VER packets of any version among the frames, the version gate on in half of the sessions: a refused packet is a result
    // like any other and must survive cancellation)
    let reads_faults = session_strategy(10, 8, 2, false, None);
    (
        reads_faults,
        proptest::collection::vec(prop_oneof![2 => Just(ReadStep::Pending)], 0..8),
        proptest::collection::vec(any::<prop::sample::Index>(), 0..8),
        proptest::collection::vec(prop_oneof![3 => (1usize..5).prop_map(WriteStep::Accept), 3 => Just(WriteStep::Pending)], 0..12),
        proptest::collection::btree_set(1usize..60, 0..12),
        proptest::collection::btree_set(0usize..16, 0..5),
    )
        .prop_map(|(mut s, pend, at, writes, drops, user_writes)| {
            for (p, ix) in pend.into_iter().zip(at.into_iter()) {
                let k = ix.index(s.steps.len() + 1);
                s.steps.insert(k, p);
            }
            s.writes = writes;
            let user_none = s.steps.len() % 3 == 0;
            DropCase { session: s, drops, user_writes, user_none }
        })
}

/// 130..600 four-byte frames (pings, keep-alives, other TINYs) in one to three reads; every Pending the read future ever
/// returns is answered by dropping it
pub fn burst_strategy() -> impl Strategy<Value = DropCase> {
    (
        any::<bool>(),
        proptest::collection::vec(prop_oneof![6 => (1u8..30, any::<u8>()).prop_map(|(a, b)| FrameSpec::Tiny(a, b)), 1 => Just(FrameSpec::KeepAlive)], 130..600),
        proptest::collection::vec(any::<prop::sample::Index>(), 0..3),
        proptest::collection::vec(prop_oneof![3 => (1usize..5).prop_map(WriteStep::Accept), 3 => Just(WriteStep::Pending)], 0..12),
        proptest::collection::btree_set(0usize..600, 0..4),
    )
        .prop_map(|(compressed, frames, cuts, writes, user_writes)| {
            let mode = if compressed { Mode::Compressed } else { Mode::Uncompressed };
            let stream: Vec<u8> = frames.iter().flat_map(|f| frame_bytes(f, &mode)).collect();
            let mut at: Vec<usize> = cuts.iter().map(|ix| ix.index(stream.len() + 1)).collect();
            at.push(0);
            at.push(stream.len());
            at.sort();
            at.dedup();
            let steps: Vec<ReadStep> = at.windows(2).map(|w| ReadStep::Data(stream[w[0]..w[1]].to_vec())).collect();
            let session = SessionCase { compressed, verify: false, steps, writes, label: "burst".into() };
            let user_none = user_writes.len() % 2 == 1;
            DropCase { session, drops: (1..=4000usize).collect(), user_writes, user_none }
        })
}

/// sessions several times longer than the connection's read buffer (6 KiB), of frames of every size, arriving in many small
/// pieces with a suspension between them; the read future is dropped at every suspension point it reaches
pub fn long_drop_strategy() -> impl Strategy<Value = DropCase> {
    (
        any::<bool>(),
        proptest::collection::vec(frame_strategy(1, 1), 120..420),
        proptest::collection::vec(any::<prop::sample::Index>(), 40..400),
        proptest::collection::vec(prop_oneof![3 => (1usize..5).prop_map(WriteStep::Accept), 3 => Just(WriteStep::Pending)], 0..12),
        proptest::collection::btree_set(0usize..600, 0..4),
        any::<bool>(),
    )
        .prop_map(|(compressed, frames, cuts, writes, user_writes, drop_all)| {
            let mode = if compressed { Mode::Compressed } else { Mode::Uncompressed };
            let stream: Vec<u8> = frames.iter().flat_map(|f| frame_bytes(f, &mode)).collect();
            let mut at: Vec<usize> = cuts.iter().map(|ix| ix.index(stream.len() + 1)).collect();
            at.push(0);
            at.push(stream.len());
            at.sort();
            at.dedup();
            let mut steps: Vec<ReadStep> = vec![];
            for w in at.windows(2) {
                steps.push(ReadStep::Data(stream[w[0]..w[1]].to_vec()));
                steps.push(ReadStep::Pending);
            }
            let session = SessionCase { compressed, verify: false, steps, writes, label: "long".into() };
            let drops = if drop_all { (1..=6000usize).collect() } else { (1..=6000usize).filter(|k| k % 3 != 0).collect() };
            DropCase { session, drops, user_writes: user_writes.clone(), user_none: user_writes.len() % 2 == 1 }
        })
}

pub fn parts() -> Vec<Box<dyn DynPart>> {
    vec![Box::new(Generated), Box::new(SmallExhaustive), Box::new(RealAdaptors)]
}

pub fn run(run: &mut Run) {
    run.rule = "The harness owns the schedule: a tokio connection over a scripted transport (read half: Pending / Ready with any \
        segmentation; write half: Pending / piecewise acceptance) is polled by hand on a paused-clock runtime, and at chosen poll indices \
        a Pending read future is dropped and a fresh read started; optionally the application puts a frame of its own on the wire between reads (write() of a ping or of a TINY_NONE - the very frame the connection uses as its reply -, or handshake() with an ISI). \
        Oracle: the delivered results equal those of the same script without drops (which itself must equal the C05 model); the \
        outgoing byte stream consists of whole frames, exactly one TINY_NONE per delivered keep-alive, application frames intact and in \
        order. Complete: every subset of the first 13 poll indices x every subset of application writes after the first 4 read attempts, for three small scripts x 2 modes; generated: sessions of all packet \
        kinds with many keep-alives and 0..12 drop points, bursts of 130..600 small frames arriving in one to three reads with the read future dropped at every suspension point it reaches, and sessions of several read-buffer lengths (120..420 frames of every size, 40..400 pieces) dropped at every, or at two in three, suspension points. A third part drives the real tokio UDP and WebSocket adaptors on loopback: before / after each datagram or message is sent a read is polled to Pending and dropped (also with a partial frame buffered), and the delivered packets must equal the model's. Non-trivial = at least one drop actually happened while the future was Pending."
        .into();
    run.assumptions = vec![
        "dropping the future between polls is the only cancellation mechanism (what select!/timeout do)".into(),
        "stalls (no waker) are not used here: every Pending step wakes the task, so the paused clock never fires the 90 s timeout".into(),
    ];
    let total = 3 * 2 * (1u64 << (SMALL_POLLS + SMALL_WRITES));
    run.enumerate(&SmallExhaustive, total, true, |i| {
        let per = 1u64 << (SMALL_POLLS + SMALL_WRITES);
        Some(SmallCase { script: (i / (2 * per)) as usize, compressed: (i / per) % 2 == 1, mask: (i % per) as u32 })
    });
    // generated
    let strat = drop_case_strategy();
    let n = run.budget(40_000, 3_000_000);
    run.prop(&Generated, strat, n);
    // long bursts: hundreds of small frames arriving in one to three reads, and the read future dropped at EVERY suspension point
    // it ever reaches (a select! loop whose other branch is always ready)
    let n = run.budget(1_500, 100_000);
    run.prop(&Generated, burst_strategy(), n);
    // sessions of several read-buffer lengths, in small pieces, dropped at every suspension point
    let n = run.budget(600, 40_000);
    run.prop(&Generated, long_drop_strategy(), n);
    // the real adaptors
    run.max_shrink_iters = 60;
    let frames = proptest::collection::vec(frame_strategy(1, 0), 1..12);
    let strat = (any::<bool>(), any::<bool>(), frames, cutting_strategy(), proptest::collection::vec(0u8..4, 0..40), proptest::collection::vec(1usize..5, 1..12)).prop_map(|(websocket, compressed, frames, cutting, schedule, per_dgram)| {
        let mode = if compressed && !websocket { Mode::Compressed } else { Mode::Uncompressed };
        let fb: Vec<Vec<u8>> = frames.iter().filter(|f| !matches!(f, FrameSpec::KeepAlive)).map(|f| frame_bytes(f, &mode)).collect();
        let units: Vec<Vec<u8>> = if websocket {
            let stream: Vec<u8> = fb.concat();
            let mut u = cut_stream(&stream, &mode, &cutting);
            if u.len() > 60 {
                // cap the number of messages (byte-wise cutting of long streams)
                let rest: Vec<u8> = u.split_off(60).concat();
                u.push(rest);
            }
            u
        } else {
            // whole frames per datagram, at most 1020 bytes
            let mut out: Vec<Vec<u8>> = vec![];
            let mut it = fb.into_iter().peekable();
            let mut k = 0;
            while it.peek().is_some() {
                let n = per_dgram[k % per_dgram.len()];
                k += 1;
                let mut d: Vec<u8> = vec![];
                for _ in 0..n {
                    match it.peek() {
                        Some(f) if d.len() + f.len() <= 1020 || d.is_empty() => d.extend_from_slice(&it.next().unwrap()),
                        _ => break,
                    }
                }
                out.push(d);
            }
            out
        };
        AdaptorCase { websocket, compressed, units, schedule }
    });
    let n = run.budget(400, 20_000);
    run.prop(&RealAdaptors, strat, n);
}
