//! C19 — cancelling a pending async read loses nothing.

use std::collections::BTreeSet;
use std::task::Poll;

use insim::net::{Codec, Mode};
use proptest::prelude::*;
use serde_json::{json, Value};

use crate::engine::*;
use crate::props::session::*;
use crate::transport::*;

#[derive(Clone, Debug)]
pub struct DropCase {
    pub session: SessionCase,
    /// global poll indices (1-based) at which a Pending read future is dropped
    pub drops: BTreeSet<usize>,
    /// after which read attempts (0-based; completed or dropped) the application issues a write of its own
    /// (TINY ping, reqi = attempt+1), as the timer branch of a select! loop does
    pub user_writes: BTreeSet<usize>,
}

pub struct Outcome {
    pub results: Vec<String>,
    pub written: Vec<u8>,
    pub polls: usize,
    pub dropped_in_read: usize,
    pub dropped_in_write: usize,
    /// application frames whose write() returned Ok, in order
    pub user_frames: Vec<Vec<u8>>,
    pub writes_after_drop: usize,
    pub panic: Option<String>,
}

fn user_frame(mode: &Mode, i: usize) -> Vec<u8> {
    vec![size_byte(mode, 4), 3, (i + 1) as u8, 3]
}

/// drive a tokio connection by hand: poll the read future, drop it at the chosen polls, start a new one
pub fn drive(c: &DropCase, with_drops: bool) -> Outcome {
    let mode = c.session.mode();
    let t = Transport::new(c.session.steps.clone(), c.session.writes.clone());
    let rt = tokio_runtime();
    let t2 = t.clone();
    let max_results = boundaries(&c.session.stream(), &mode).len() + c.session.steps.len() + 6;
    let r = guard(|| {
        rt.block_on(async {
            let mut framed = insim::net::tokio_impl::Framed::new(Box::new(t2.clone()), Codec::new(mode.clone()));
            let mut results: Vec<String> = vec![];
            let mut polls = 0usize;
            let (mut dr, mut dw) = (0usize, 0usize);
            let mut attempt = 0usize;
            let mut user_frames: Vec<Vec<u8>> = vec![];
            let mut writes_after_drop = 0usize;
            let mut finished = false;
            'session: while results.len() < max_results && polls < 100_000 {
                let mut was_dropped = false;
                {
                    let mut fut = Box::pin(framed.read());
                    loop {
                        polls += 1;
                        let before = t2.0.lock().unwrap().trace.len();
                        match futures_util::poll!(fut.as_mut()) {
                            Poll::Ready(r) => {
                                let s = render(&r);
                                t2.push_event(Event::Returned(s.clone()));
                                let stop = s == "Err(Disconnected)" || s == "Err(framing)";
                                results.push(s);
                                if stop {
                                    finished = true;
                                }
                                break;
                            },
                            Poll::Pending => {
                                if with_drops && c.drops.contains(&polls) {
                                    let tr = t2.0.lock().unwrap();
                                    let in_write = tr.trace[before..].iter().any(|e| matches!(e, Event::WritePending));
                                    drop(tr);
                                    if in_write {
                                        dw += 1;
                                    } else {
                                        dr += 1;
                                    }
                                    t2.push_event(Event::Dropped);
                                    was_dropped = true;
                                    break;
                                }
                                if polls >= 100_000 {
                                    break 'session;
                                }
                            },
                        }
                    }
                }
                if finished {
                    break 'session;
                }
                // the application writes something of its own between reads (as a select loop with a timer does)
                if c.user_writes.contains(&attempt) {
                    let p = insim::insim::Tiny { reqi: insim::identifiers::RequestId((attempt + 1) as u8), subt: insim::insim::TinyType::Ping };
                    let w = framed.write(p).await;
                    t2.push_event(Event::WriteReturned(format!("{:?}", w.is_ok())));
                    if w.is_ok() {
                        user_frames.push(user_frame(&mode, attempt));
                        if was_dropped {
                            writes_after_drop += 1;
                        }
                    }
                }
                attempt += 1;
            }
            (results, polls, dr, dw, user_frames, writes_after_drop)
        })
    });
    match r {
        Ok((results, polls, dr, dw, user_frames, writes_after_drop)) => Outcome { results, written: t.written(), polls, dropped_in_read: dr, dropped_in_write: dw, user_frames, writes_after_drop, panic: None },
        Err(p) => Outcome { results: vec![], written: t.written(), polls: 0, dropped_in_read: 0, dropped_in_write: 0, user_frames: vec![], writes_after_drop: 0, panic: Some(p) },
    }
}

/// split an outgoing byte stream into whole frames; None if it ends inside a frame
fn whole_frames(out: &[u8], mode: &Mode) -> Option<Vec<Vec<u8>>> {
    let mut v = vec![];
    let mut i = 0;
    while i < out.len() {
        let a = match mode {
            Mode::Compressed => out[i] as usize * 4,
            Mode::Uncompressed => out[i] as usize,
        };
        if a < 4 || i + a > out.len() {
            return None;
        }
        v.push(out[i..i + a].to_vec());
        i += a;
    }
    Some(v)
}

pub fn judge(c: &DropCase, ev: &mut Local) -> Result<(), Fail> {
    let mode = c.session.mode();
    let base = drive(c, false);
    if let Some(p) = base.panic {
        fail!("c19:panic", "uninterrupted session panicked: {p}");
    }
    let got = drive(c, true);
    if let Some(p) = got.panic {
        fail!("c19:panic", "interrupted session panicked: {p}");
    }
    // the uninterrupted session itself must agree with the C05 model (sanity of the driver)
    let model = model_results(&mode, false, &c.session.steps, false, base.results.len().max(1) + 2);
    ensure!(base.results == model, "harness:driver-disagrees-with-model", "{:?} vs {:?}", base.results.len(), model.len());
    if got.results != base.results {
        let i = (0..got.results.len().max(base.results.len())).find(|i| got.results.get(*i) != base.results.get(*i)).unwrap();
        let lost_keepalive = base.results.get(i).map(|r| r.contains("subt: None") && r.contains("RequestId(0)")).unwrap_or(false);
        let sig = if lost_keepalive && got.dropped_in_write > 0 { "c19:drop-during-keepalive-reply" } else { "c19:packets-lost-or-duplicated" };
        fail!(
            sig,
            "after dropping {} pending reads ({} while the keep-alive reply was being written): result #{i} is {} instead of {} ({} vs {} results)",
            got.dropped_in_read + got.dropped_in_write,
            got.dropped_in_write,
            got.results.get(i).map(|s| s.chars().take(80).collect::<String>()).unwrap_or("<nothing>".into()),
            base.results.get(i).map(|s| s.chars().take(80).collect::<String>()).unwrap_or("<nothing>".into()),
            got.results.len(),
            base.results.len()
        );
    }
    // outgoing side: whole frames only, one TINY_NONE per keep-alive, user frames intact and in order
    let keepalives = base.results.iter().filter(|r| r.as_str() == "Ok(Tiny(Tiny { reqi: RequestId(0), subt: None }))").count();
    let Some(frames) = whole_frames(&got.written, &mode) else {
        fail!("c19:partial-frame-on-outgoing-side", "outgoing stream ends inside a frame or is misframed: {}", hex(&got.written));
    };
    let reply = vec![size_byte(&mode, 4), 3, 0, 0];
    let replies = frames.iter().filter(|f| **f == reply).count();
    ensure!(replies == keepalives, "c19:keepalive-replies", "{keepalives} keep-alives delivered, {replies} replies on the wire: {}", hex(&got.written));
    let users: Vec<&Vec<u8>> = frames.iter().filter(|f| **f != reply).collect();
    let expected_users: Vec<Vec<u8>> = got.user_frames.clone();
    ensure!(
        users.len() == expected_users.len() && users.iter().zip(expected_users.iter()).all(|(a, b)| **a == *b),
        "c19:user-frame-damaged",
        "application frames on the wire {:?}, expected {:?}",
        users.iter().map(|f| hex(f)).collect::<Vec<_>>(),
        expected_users.iter().map(|f| hex(f)).collect::<Vec<_>>()
    );
    if got.dropped_in_read + got.dropped_in_write > 0 {
        ev.nontrivial(&(session_json(&c.session).to_string(), &c.drops));
    }
    if got.dropped_in_read > 0 {
        ev.class("dropped-in-transport-read");
    }
    if got.dropped_in_write > 0 {
        ev.class("dropped-in-keepalive-write");
    }
    if got.writes_after_drop > 0 {
        ev.class("application-write-right-after-a-drop");
    }
    if got.dropped_in_read + got.dropped_in_write == 0 {
        ev.class("no-drop-happened");
    }
    ev.max("polls", got.polls as u64);
    Ok(())
}

fn case_json(c: &DropCase) -> Value {
    json!({"session": session_json(&c.session), "drop_at_polls": c.drops.iter().collect::<Vec<_>>(), "user_write_after_results": c.user_writes.iter().collect::<Vec<_>>()})
}
fn case_from(v: &Value) -> Option<DropCase> {
    Some(DropCase {
        session: session_from(v.get("session")?)?,
        drops: v.get("drop_at_polls")?.as_array()?.iter().filter_map(|x| x.as_u64().map(|x| x as usize)).collect(),
        user_writes: v.get("user_write_after_results")?.as_array()?.iter().filter_map(|x| x.as_u64().map(|x| x as usize)).collect(),
    })
}

pub struct Generated;
impl Part for Generated {
    type Case = DropCase;
    fn name(&self) -> &'static str {
        "generated-drop-schedules"
    }
    fn check(&self, c: &DropCase, ev: &mut Local) -> Result<(), Fail> {
        judge(c, ev)?;
        if ev.wants_sample() && c.session.steps.len() <= 5 && !c.drops.is_empty() {
            ev.sample(|| case_json(c));
        }
        Ok(())
    }
    fn to_json(&self, c: &DropCase) -> Value {
        case_json(c)
    }
    fn from_json(&self, v: &Value) -> Option<DropCase> {
        case_from(v)
    }
}

/// small sessions: every subset of drop points (complete)
#[derive(Clone, Debug)]
pub struct SmallCase {
    pub script: usize,
    pub compressed: bool,
    pub mask: u32,
}

pub fn small_script(i: usize, mode: &Mode) -> (Vec<ReadStep>, Vec<WriteStep>) {
    let ka = frame_bytes(&FrameSpec::KeepAlive, mode);
    let ping = frame_bytes(&FrameSpec::Tiny(3, 7), mode);
    let unk = frame_bytes(&FrameSpec::UnknownType(1, 0), mode);
    match i {
        0 => (
            vec![ReadStep::Pending, ReadStep::Data(ka.clone()), ReadStep::Pending, ReadStep::Data(ping.clone())],
            vec![WriteStep::Pending, WriteStep::Accept(1), WriteStep::Pending, WriteStep::Accept(2), WriteStep::Pending],
        ),
        1 => (
            vec![ReadStep::Data([&ka[..2]].concat()), ReadStep::Pending, ReadStep::Data([&ka[2..], &ping[..], &ka[..]].concat()), ReadStep::Pending, ReadStep::Pending, ReadStep::Data(unk.clone())],
            vec![WriteStep::Pending, WriteStep::Pending, WriteStep::Accept(3), WriteStep::Pending],
        ),
        _ => (
            vec![ReadStep::Pending, ReadStep::Data([&ping[..], &ka[..], &ka[..3]].concat()), ReadStep::Pending, ReadStep::Data(ka[3..].to_vec()), ReadStep::Pending],
            vec![WriteStep::Accept(2), WriteStep::Pending, WriteStep::Pending, WriteStep::Accept(1), WriteStep::Pending, WriteStep::Accept(1)],
        ),
    }
}

pub const SMALL_POLLS: usize = 13;
/// application writes after read attempts 0..4 are enumerated as well
pub const SMALL_WRITES: usize = 4;

pub struct SmallExhaustive;
impl Part for SmallExhaustive {
    type Case = SmallCase;
    fn name(&self) -> &'static str {
        "all-drop-subsets-of-small-sessions"
    }
    fn check(&self, c: &SmallCase, ev: &mut Local) -> Result<(), Fail> {
        let mode = if c.compressed { Mode::Compressed } else { Mode::Uncompressed };
        let (steps, writes) = small_script(c.script, &mode);
        let drops: BTreeSet<usize> = (0..SMALL_POLLS).filter(|i| c.mask >> i & 1 == 1).map(|i| i + 1).collect();
        let dc = DropCase {
            session: SessionCase { compressed: c.compressed, verify: false, steps, writes, label: format!("small script {}", c.script) },
            drops,
            user_writes: (0..SMALL_WRITES).filter(|i| c.mask >> (SMALL_POLLS + i) & 1 == 1).collect(),
        };
        judge(&dc, ev)
    }
    fn to_json(&self, c: &SmallCase) -> Value {
        json!({"script": c.script, "compressed": c.compressed, "drop_mask": c.mask})
    }
    fn from_json(&self, v: &Value) -> Option<SmallCase> {
        Some(SmallCase { script: v.get("script")?.as_u64()? as usize, compressed: v.get("compressed")?.as_bool()?, mask: v.get("drop_mask")?.as_u64()? as u32 })
    }
}

pub fn parts() -> Vec<Box<dyn DynPart>> {
    vec![Box::new(Generated), Box::new(SmallExhaustive)]
}

pub fn run(run: &mut Run) {
    run.rule = "The harness owns the schedule: a tokio connection over a scripted transport (read half: Pending / Ready with any \
        segmentation; write half: Pending / piecewise acceptance) is polled by hand on a paused-clock runtime, and at chosen poll indices \
        a Pending read future is dropped and a fresh read started; optionally the application writes a frame of its own between reads. \
        Oracle: the delivered results equal those of the same script without drops (which itself must equal the C05 model); the \
        outgoing byte stream consists of whole frames, exactly one TINY_NONE per delivered keep-alive, application frames intact and in \
        order. Complete: every subset of the first 13 poll indices x every subset of application writes after the first 4 read attempts, for three small scripts x 2 modes; generated: sessions of all packet \
        kinds with many keep-alives and 0..12 drop points. Non-trivial = at least one drop actually happened while the future was Pending."
        .into();
    run.assumptions = vec![
        "dropping the future between polls is the only cancellation mechanism (what select!/timeout do)".into(),
        "stalls (no waker) are not used here: every Pending step wakes the task, so the paused clock never fires the 90 s timeout".into(),
    ];
    let total = 3 * 2 * (1u64 << (SMALL_POLLS + SMALL_WRITES));
    run.enumerate(&SmallExhaustive, total, true, |i| {
        let per = 1u64 << (SMALL_POLLS + SMALL_WRITES);
        Some(SmallCase { script: (i / (2 * per)) as usize, compressed: (i / per) % 2 == 1, mask: (i % per) as u32 })
    });
    // generated
    let reads_faults = session_strategy(10, 8, 0, false, Some(false));
    let strat = (
        reads_faults,
        proptest::collection::vec(prop_oneof![2 => Just(ReadStep::Pending)], 0..8),
        proptest::collection::vec(any::<prop::sample::Index>(), 0..8),
        proptest::collection::vec(prop_oneof![3 => (1usize..5).prop_map(WriteStep::Accept), 3 => Just(WriteStep::Pending)], 0..12),
        proptest::collection::btree_set(1usize..60, 0..12),
        proptest::collection::btree_set(0usize..16, 0..5),
    )
        .prop_map(|(mut s, pend, at, writes, drops, user_writes)| {
            for (p, ix) in pend.into_iter().zip(at.into_iter()) {
                let k = ix.index(s.steps.len() + 1);
                s.steps.insert(k, p);
            }
            s.writes = writes;
            DropCase { session: s, drops, user_writes }
        });
    let n = run.budget(40_000, 3_000_000);
    run.prop(&Generated, strat, n);
}
