//! C16 — game versions parse totally, print re-parseably and order consistently.

use std::cmp::Ordering;
use std::str::FromStr;

use bytes::BytesMut;
use insim::net::{Codec, Mode};
use insim::Packet;
use insim_core::game_version::GameVersion;
use proptest::prelude::*;
use serde_json::{json, Value};

use crate::engine::*;

pub fn parse(s: &str) -> Result<Result<GameVersion, String>, String> {
    guard(|| GameVersion::from_str(s).map_err(|e| format!("{e:?}")))
}

fn describe(v: &GameVersion) -> String {
    format!("({:?} bits {:#x}, {:?}, {:?})", v.major, v.major.to_bits(), v.minor, v.patch)
}

/// reference order: number, then letter, then revision (missing = 0)
fn ref_cmp(a: &GameVersion, b: &GameVersion) -> Option<Ordering> {
    let n = a.major.partial_cmp(&b.major)?;
    Some(
        n.then(a.minor.cmp(&b.minor))
            .then(a.patch.unwrap_or(0).cmp(&b.patch.unwrap_or(0))),
    )
}

/// The single-string obligations: totality, print/re-parse, case-insensitivity.
fn judge_string(s: &str, ev: &mut Local) -> Result<bool, Fail> {
    let r = parse(s).map_err(|p| Fail::new("c16:parse-panic", format!("{s:?}: {p}")))?;
    // case-insensitivity in the letter
    let lower = s.to_ascii_lowercase();
    let upper = s.to_ascii_uppercase();
    let rl = parse(&lower).map_err(|p| Fail::new("c16:parse-panic", format!("{lower:?}: {p}")))?;
    let ru = parse(&upper).map_err(|p| Fail::new("c16:parse-panic", format!("{upper:?}: {p}")))?;
    match (&rl, &ru) {
        (Ok(a), Ok(b)) => ensure!(
            a == b && a.cmp(b) == Ordering::Equal,
            "c16:case-sensitive",
            "{lower:?} -> {}, {upper:?} -> {}",
            describe(a),
            describe(b)
        ),
        (Err(_), Err(_)) => {},
        _ => fail!("c16:case-sensitive", "{lower:?} -> {rl:?} but {upper:?} -> {ru:?}"),
    }
    let Ok(v) = r else {
        ev.class("rejected");
        return Ok(false);
    };
    ensure!(
        v.minor.is_ascii_uppercase() || v.minor.is_ascii_digit() || !v.minor.is_ascii_lowercase(),
        "c16:letter-not-normalised",
        "{s:?} -> minor {:?}",
        v.minor
    );
    if v.major.is_finite() {
        let printed = guard(|| v.to_string()).map_err(|p| Fail::new("c16:display-panic", p))?;
        let back = parse(&printed).map_err(|p| Fail::new("c16:parse-panic", format!("{printed:?}: {p}")))?;
        match back {
            Ok(b) => ensure!(
                b == v && v == b && b.cmp(&v) == Ordering::Equal,
                "c16:print-reparse-differs",
                "{s:?} -> {} prints {printed:?} -> {}",
                describe(&v),
                describe(&b)
            ),
            Err(e) => fail!("c16:print-not-reparseable", "{s:?} -> {} prints {printed:?}: {e}", describe(&v)),
        }
        ev.class("parsed-finite");
    } else {
        ev.class("parsed-non-finite");
    }
    // reflexivity
    ensure!(v == v.clone() && v.cmp(&v.clone()) == Ordering::Equal, "c16:not-reflexive", "{s:?}");
    Ok(true)
}

const ALPHABET: [&str; 10] = ["0", "7", "9", ".", "A", "z", " ", "-", "é", "٣"];

fn nth_string(mut i: u64, maxlen: u32) -> Option<String> {
    // strings ordered by length then lexicographically over ALPHABET
    let mut len = 0u32;
    let mut block = 1u64;
    loop {
        if i < block {
            break;
        }
        i -= block;
        len += 1;
        block *= 10;
        if len > maxlen {
            return None;
        }
    }
    let mut s: Vec<&str> = vec![];
    for _ in 0..len {
        s.push(ALPHABET[(i % 10) as usize]);
        i /= 10;
    }
    s.reverse();
    Some(s.concat())
}

// ------------------------------------------------------------------ every finite number, by bit pattern
/// One case = the 65 536 single-precision numbers whose upper 16 bits are `block` (non-negative finite numbers are the
/// blocks 0..0x7f80). Each number n is printed as the version "nA" and parsed back. A number that does not come back is a
/// violation only if some string parses to it (the property speaks of versions obtained by parsing): the witness tried is the
/// number's exact decimal expansion.
pub struct EveryNumber;
impl Part for EveryNumber {
    type Case = u32;
    fn name(&self) -> &'static str {
        "every-finite-number"
    }
    fn check(&self, block: &u32, ev: &mut Local) -> Result<(), Fail> {
        let block = *block;
        let bad: Result<Option<(u32, String, String)>, String> = guard(|| {
            use std::fmt::Write;
            let mut text = String::with_capacity(64);
            for lo in 0..=0xffffu32 {
                let bits = (block << 16) | lo;
                let major = f32::from_bits(bits);
                if !major.is_finite() {
                    continue;
                }
                let v = GameVersion { major, minor: 'A', patch: None };
                text.clear();
                let _ = write!(text, "{v}");
                match GameVersion::from_str(&text) {
                    Ok(b) if b == v && b.major.to_bits() == bits => {},
                    other => return Some((bits, text.clone(), format!("{other:?}"))),
                }
            }
            None
        });
        match bad {
            Err(p) => fail!("c16:parse-panic", "numbers with upper bits {block:#06x}: {p}"),
            Ok(None) => {},
            Ok(Some((bits, printed, got))) => {
                let major = f32::from_bits(bits);
                let exact = format!("{major:.160}A");
                let reachable = matches!(parse(&exact), Ok(Ok(ref w)) if w.major.to_bits() == bits);
                if reachable {
                    fail!(
                        "c16:print-reparse-differs",
                        "{exact:?} parses to the number with bits {bits:#x}, whose version prints {printed:?}, which parses to {got}"
                    );
                }
                ev.class("a number no string was found to parse to: not judged");
            },
        }
        ev.nontrivial(&block);
        ev.class(if block < 0x3f80 { "numbers below 1" } else { "numbers from 1" });
        Ok(())
    }
    fn to_json(&self, c: &u32) -> Value {
        json!({"upper_16_bits": c})
    }
    fn from_json(&self, v: &Value) -> Option<u32> {
        Some(v.get("upper_16_bits")?.as_u64()? as u32)
    }
}

// ------------------------------------------------------------------ what was parsed before does not matter
/// parse(b) gives the same answer on a pristine thread and right after parse(a) - whatever a was (a string that is refused
/// half-way, a very long one, one in another script). The first string is built to stress whatever a parser might keep between
/// calls: digit runs of 1..600 characters (around 255 / 256 / 257 and the width of usize), non-ASCII numerals, several dots.
pub struct AfterAnother;
impl Part for AfterAnother {
    type Case = (String, String);
    fn name(&self) -> &'static str {
        "parse-after-another-parse"
    }
    fn check(&self, c: &(String, String), ev: &mut Local) -> Result<(), Fail> {
        let show = |r: &Result<Result<GameVersion, String>, String>| match r {
            Ok(Ok(v)) => format!("Ok{}", describe(v)),
            Ok(Err(e)) => format!("Err({e})"),
            Err(p) => format!("panic: {p}"),
        };
        let alone = in_fresh_thread(|| show(&parse(&c.1)));
        let first = show(&parse(&c.0));
        let after = show(&parse(&c.1));
        ensure!(
            after == alone,
            "c16:parse-depends-on-earlier-parse",
            "{:?} parses to {alone} on a fresh thread, but to {after} right after parsing {:?} ({} characters; that gave {first})",
            c.1,
            c.0.chars().take(60).collect::<String>(),
            c.0.chars().count()
        );
        // ... and the first string itself parses the same way a second time
        let again = show(&parse(&c.0));
        ensure!(again == first, "c16:parse-depends-on-earlier-parse", "{:?} ({} characters) parses to {first}, then to {again}", c.0.chars().take(60).collect::<String>(), c.0.chars().count());
        if first.starts_with("Err") && after.starts_with("Ok") {
            ev.nontrivial(c);
            ev.class("a refused string, then a version");
        } else {
            ev.class("other");
        }
        ev.max("first-string-length", c.0.chars().count() as u64);
        Ok(())
    }
    fn to_json(&self, c: &(String, String)) -> Value {
        json!({"first": c.0, "then": c.1})
    }
    fn from_json(&self, v: &Value) -> Option<(String, String)> {
        Some((v.get("first")?.as_str()?.to_string(), v.get("then")?.as_str()?.to_string()))
    }
}

fn after_strategy() -> impl Strategy<Value = (String, String)> {
    let run_len = prop_oneof![3 => 1usize..30, 3 => 30usize..300, 2 => 250usize..262, 2 => 300usize..600, 1 => Just(1024usize)];
    let digit = prop::sample::select(vec!["7", "0", "9", "\u{0663}", "\u{ff17}", "\u{00b2}", "\u{0967}"]);
    let first = (prop_oneof![Just("0.7A"), Just("0."), Just(""), Just("0.7"), Just("1.2."), Just("0.6U")], digit, run_len, prop_oneof![Just(""), Just("A"), Just("A3"), Just("."), Just("x"), Just("\u{0663}")])
        .prop_map(|(head, d, n, tail)| format!("{head}{}{tail}", d.repeat(n)));
    let then = prop_oneof![
        3 => prop::sample::select(vec!["0.7F3", "0.7f", "0.6U", "0.04k", "0.7E15", "0.3H", "1", "0.7A", "10.25Z9"]).prop_map(String::from),
        2 => "[0-9]{1,2}\\.[0-9]{1,2}[A-Za-z][0-9]{0,2}",
        1 => random_strategy(),
    ];
    ((any::<u8>(), first, random_strategy()).prop_map(|(k, a, b)| if k % 5 == 0 { b } else { a }), then)
}

pub struct AlphabetStrings;
impl Part for AlphabetStrings {
    type Case = String;
    fn name(&self) -> &'static str {
        "alphabet-strings"
    }
    fn check(&self, s: &String, ev: &mut Local) -> Result<(), Fail> {
        if judge_string(s, ev)? {
            ev.nontrivial_distinct();
            if s.len() >= 4 {
                ev.sample(|| json!({"input": s, "parsed": parse(s).ok().and_then(|r| r.ok()).map(|v| v.to_string())}));
            }
        }
        Ok(())
    }
    fn to_json(&self, c: &String) -> Value {
        json!({"input": c})
    }
    fn from_json(&self, v: &Value) -> Option<String> {
        Some(v.get("input")?.as_str()?.to_string())
    }
}

pub struct RandomStrings;
impl Part for RandomStrings {
    type Case = String;
    fn name(&self) -> &'static str {
        "random-strings"
    }
    fn check(&self, s: &String, ev: &mut Local) -> Result<(), Fail> {
        if judge_string(s, ev)? {
            ev.nontrivial(s);
            ev.sample(|| json!({"input": s, "parsed": parse(s).ok().and_then(|r| r.ok()).map(|v| v.to_string())}));
        }
        Ok(())
    }
    fn to_json(&self, c: &String) -> Value {
        json!({"input": c})
    }
    fn from_json(&self, v: &Value) -> Option<String> {
        Some(v.get("input")?.as_str()?.to_string())
    }
}

fn random_strategy() -> impl Strategy<Value = String> {
    let digits = "[0-9]{1,3}";
    let versionish = (
        digits,
        prop_oneof![Just(".".to_string()), Just("".to_string()), Just("..".to_string())],
        "[0-9]{0,4}",
        prop_oneof![
            "[A-Za-z]",
            Just("".to_string()),
            "[^A-Za-z0-9]",
            Just("İ".to_string()),
            Just("ǅ".to_string())
        ],
        prop_oneof![
            3 => "[0-9]{0,3}",
            1 => "[0-9]{18,22}",
            1 => "[0-9]{1,2}[A-Za-z.\\-]",
            1 => Just("٣".to_string()),
            1 => Just("²".to_string()),
        ],
    )
        .prop_map(|(a, b, c, d, e)| format!("{a}{b}{c}{d}{e}"));
    let huge = ("[0-9]{30,60}", "[A-Za-z]?", "[0-9]{0,25}").prop_map(|(a, b, c)| format!("{a}{b}{c}"));
    let soup = proptest::collection::vec(
        prop_oneof![
            5 => proptest::char::range('0', '9'),
            2 => Just('.'),
            3 => proptest::char::range('A', 'z'),
            1 => any::<char>(),
            1 => prop::sample::select(vec!['٣', '²', '½', '０', '\0', ' ', '-', '+', 'e', 'E', '∞', 'ß', 'İ']),
        ],
        0..24,
    )
    .prop_map(|v| v.into_iter().collect::<String>());
    // long strings that do parse: a number spelled with many digits (leading zeros, a bare leading point, tiny and huge values),
    // a letter and a long revision - total lengths of 20..170 characters, every length around 32 / 64 / 128 among them
    let long_valid = (prop_oneof![Just(""), Just("0"), Just("00"), Just("7")], 0usize..70, "[0-9]{1,9}", "[A-Za-z]", prop_oneof![Just(String::new()), "[0-9]{1,19}".prop_map(|s: String| s), (0usize..40, "[0-9]{1,9}").prop_map(|(z, d)| format!("{}{d}", "0".repeat(z)))])
        .prop_map(|(int, zeros, digits, letter, rev)| format!("{int}.{}{digits}{letter}{rev}", "0".repeat(zeros)));
    prop_oneof![4 => versionish, 1 => huge, 3 => soup, 2 => long_valid]
}

// --- wire forms through the VER packet ---------------------------------------------------

#[derive(Clone, Debug)]
pub enum WireCase {
    /// all forms starting with the digits d1 '.' d2
    Block(u8, u8),
    One([u8; 8]),
}

fn ver_frame(ver: &[u8; 8]) -> Vec<u8> {
    let mut f = vec![20u8, 2, 1, 0];
    f.extend_from_slice(ver);
    f.extend_from_slice(b"S3\0\0\0\0");
    f.push(9);
    f.push(0);
    f
}

fn judge_wire(w: &[u8; 8], ev: &mut Local) -> Result<(), Fail> {
    let text = std::str::from_utf8(w).unwrap().trim_end_matches('\0').to_string();
    let direct = parse(&text).map_err(|p| Fail::new("c16:parse-panic", format!("{text:?}: {p}")))?;
    let mut buf = BytesMut::from(&ver_frame(w)[..]);
    let codec = Codec::new(Mode::Uncompressed);
    let dec = guard(|| codec.decode(&mut buf)).map_err(|p| Fail::new("c16:ver-decode-panic", format!("{text:?}: {p}")))?;
    match (&direct, dec) {
        (Ok(v), Ok(Some(Packet::Ver(p)))) => {
            ensure!(
                p.version == *v,
                "c16:wire-parse-differs",
                "{text:?}: VER field {} vs direct parse {}",
                describe(&p.version),
                describe(v)
            );
            ensure!(v.major.is_finite(), "c16:wire-form-not-finite", "{text:?} -> {}", describe(v));
        },
        (Err(_), Err(_)) => {},
        (d, o) => fail!("c16:wire-parse-differs", "{text:?}: direct {d:?}, via VER packet {o:?}"),
    }
    judge_string(&text, ev)?;
    Ok(())
}

fn wire_tails() -> &'static Vec<Vec<u8>> {
    static T: std::sync::OnceLock<Vec<Vec<u8>>> = std::sync::OnceLock::new();
    T.get_or_init(|| {
        // [D] L [D[D]]
        let mut out = vec![];
        let mut d3: Vec<Vec<u8>> = vec![vec![]];
        for d in b'0'..=b'9' {
            d3.push(vec![d]);
        }
        let mut revs: Vec<Vec<u8>> = vec![vec![]];
        for a in b'0'..=b'9' {
            revs.push(vec![a]);
            for b in b'0'..=b'9' {
                revs.push(vec![a, b]);
            }
        }
        let letters: Vec<u8> = (b'A'..=b'Z').chain(b'a'..=b'z').collect();
        for x in &d3 {
            for l in &letters {
                for r in &revs {
                    let mut t = x.clone();
                    t.push(*l);
                    t.extend_from_slice(r);
                    out.push(t);
                }
            }
        }
        out
    })
}

pub struct WireForms;
impl Part for WireForms {
    type Case = WireCase;
    fn name(&self) -> &'static str {
        "ver-wire-forms"
    }
    fn check(&self, c: &WireCase, ev: &mut Local) -> Result<(), Fail> {
        match c {
            WireCase::One(w) => {
                judge_wire(w, ev)?;
                ev.nontrivial(w);
                Ok(())
            },
            WireCase::Block(a, b) => {
                let tails = wire_tails();
                for t in tails {
                    let mut w = [0u8; 8];
                    w[0] = *a;
                    w[1] = b'.';
                    w[2] = *b;
                    w[3..3 + t.len()].copy_from_slice(t);
                    if let Err(f) = judge_wire(&w, ev) {
                        return Err(f.with_case(json!({"wire": hex(&w)})));
                    }
                }
                ev.add_evals(tails.len() as u64 - 1);
                ev.add_nontrivial_distinct(tails.len() as u64);
                ev.sample(|| json!({"block": format!("{}.{}[D]L[D[D]]", *a as char, *b as char), "forms": tails.len()}));
                Ok(())
            },
        }
    }
    fn to_json(&self, c: &WireCase) -> Value {
        match c {
            WireCase::Block(a, b) => json!({"block": [a, b]}),
            WireCase::One(w) => json!({"wire": hex(w)}),
        }
    }
    fn from_json(&self, v: &Value) -> Option<WireCase> {
        if let Some(w) = v.get("wire").and_then(|w| w.as_str()) {
            return Some(WireCase::One(unhex(w)?.try_into().ok()?));
        }
        let b = v.get("block")?.as_array()?;
        Some(WireCase::Block(b[0].as_u64()? as u8, b[1].as_u64()? as u8))
    }
}

// --- order axioms ------------------------------------------------------------------------

fn pool() -> &'static Vec<String> {
    static P: std::sync::OnceLock<Vec<String>> = std::sync::OnceLock::new();
    P.get_or_init(|| {
        // deterministic pool of source strings whose parses are pairwise distinguishable or deliberately equal
        let mut v: Vec<String> = vec![];
        let majors = [
            "0", "0.0", "0.04", "0.1", "0.3", "0.5", "0.6", "0.7", "0.70", "0.8", "1", "1.0", "10", "7", "07", "00.7", ".7",
            "16777216", "16777217", "99999999999999999999999999999999999999999", "340282350000000000000000000000000000000",
            "0.0000000000000000000000000000000000000000000001", "0.69999999", "0.7000001",
            // neighbouring f32 values (one unit in the last place apart) and numbers closer to each other than f32::EPSILON
            "0.70000005", "0.69999993", "0.0000001", "0.0000002", "1.0000001", "0.99999994", "0.50000006",
        ];
        let minors = ["A", "a", "B", "F", "f", "Z", "z", "M"];
        let patches = ["", "0", "00", "1", "2", "9", "10", "15", "64", "007", "18446744073709551615"];
        for m in majors {
            for l in minors {
                for p in patches {
                    v.push(format!("{m}{l}{p}"));
                }
            }
        }
        v.sort();
        v.dedup();
        v.retain(|s| matches!(parse(s), Ok(Ok(_))));
        v
    })
}

fn judge_pair(a: &str, b: &str) -> Result<(), Fail> {
    let (Ok(Ok(x)), Ok(Ok(y))) = (parse(a), parse(b)) else {
        return Ok(());
    };
    let c = guard(|| x.cmp(&y)).map_err(|p| Fail::new("c16:cmp-panic", p))?;
    let d = guard(|| y.cmp(&x)).map_err(|p| Fail::new("c16:cmp-panic", p))?;
    ensure!(c == d.reverse(), "c16:not-antisymmetric", "{a:?} vs {b:?}: {c:?} / {d:?}");
    ensure!(
        (c == Ordering::Equal) == (x == y) && (x == y) == (y == x),
        "c16:order-inconsistent-with-eq",
        "{a:?} {} vs {b:?} {}: cmp {c:?}, eq {}",
        describe(&x),
        describe(&y),
        x == y
    );
    ensure!(x.partial_cmp(&y) == Some(c), "c16:partial-cmp-differs", "{a:?} vs {b:?}");
    if let Some(r) = ref_cmp(&x, &y) {
        ensure!(
            c == r,
            "c16:order-differs-from-reference",
            "{a:?} {} vs {b:?} {}: cmp {c:?}, reference (number, letter, revision-or-0) {r:?}",
            describe(&x),
            describe(&y)
        );
    }
    Ok(())
}

pub struct Pairs;
impl Part for Pairs {
    type Case = (String, String);
    fn name(&self) -> &'static str {
        "order-pairs"
    }
    fn check(&self, c: &(String, String), ev: &mut Local) -> Result<(), Fail> {
        judge_pair(&c.0, &c.1)?;
        ev.nontrivial_distinct();
        Ok(())
    }
    fn to_json(&self, c: &(String, String)) -> Value {
        json!({"a": c.0, "b": c.1})
    }
    fn from_json(&self, v: &Value) -> Option<(String, String)> {
        Some((v.get("a")?.as_str()?.to_string(), v.get("b")?.as_str()?.to_string()))
    }
}

pub struct Triples;
impl Part for Triples {
    type Case = (String, String, String);
    fn name(&self) -> &'static str {
        "order-triples"
    }
    fn check(&self, c: &(String, String, String), ev: &mut Local) -> Result<(), Fail> {
        let (Ok(Ok(x)), Ok(Ok(y)), Ok(Ok(z))) = (parse(&c.0), parse(&c.1), parse(&c.2)) else {
            return Ok(());
        };
        let xy = x.cmp(&y);
        let yz = y.cmp(&z);
        let xz = x.cmp(&z);
        if xy != Ordering::Greater && yz != Ordering::Greater {
            ensure!(xz != Ordering::Greater, "c16:not-transitive", "{:?} <= {:?} <= {:?} but first > third", c.0, c.1, c.2);
            if xy == Ordering::Less || yz == Ordering::Less {
                ensure!(xz == Ordering::Less, "c16:not-transitive", "{:?} {:?} {:?}", c.0, c.1, c.2);
            }
        }
        if x == y && y == z {
            ensure!(x == z, "c16:eq-not-transitive", "{:?} {:?} {:?}", c.0, c.1, c.2);
        }
        ev.nontrivial(c);
        ev.class(&format!("{xy:?}/{yz:?}"));
        ev.sample(|| json!([c.0, c.1, c.2]));
        Ok(())
    }
    fn to_json(&self, c: &(String, String, String)) -> Value {
        json!([c.0, c.1, c.2])
    }
    fn from_json(&self, v: &Value) -> Option<(String, String, String)> {
        let a = v.as_array()?;
        Some((a[0].as_str()?.into(), a[1].as_str()?.into(), a[2].as_str()?.into()))
    }
}

pub fn parts() -> Vec<Box<dyn DynPart>> {
    vec![
        Box::new(AlphabetStrings),
        Box::new(EveryNumber),
        Box::new(AfterAnother),
        Box::new(RandomStrings),
        Box::new(WireForms),
        Box::new(Pairs),
        Box::new(Triples),
    ]
}

pub fn run(run: &mut Run) {
    let maxlen = run.budget(6, 7) as u32;
    run.rule = format!(
        "All strings of length <= {maxlen} over the alphabet {ALPHABET:?} (complete), every non-negative finite single-precision number printed and parsed back (thorough tier: all 2.1e9 of them; quick tier: one block of 65 536 in every 32, chosen by the seed), random version-like / Unicode strings \
         (proptest), all 8-byte wire forms D.D[D]L[D[D]] sent through a VER frame (complete), all ordered pairs and sampled \
         triples from a pool of parsed versions for the order axioms. Oracles: no panic; finite => print/re-parse equal; \
         ASCII-lowercase and -uppercase spellings parse alike; cmp == reference lexicographic (number, letter, revision-or-0), \
         antisymmetric, transitive, Equal <=> ==; a parse right after another parse (digit runs of 1..1024 characters, non-ASCII numerals) must give what a fresh thread gives. Non-trivial = the string parses successfully."
    );
    run.assumptions = vec!["reference order: f32 partial_cmp on the number, char order on the letter, usize order on revision-or-0".into()];
    let total: u64 = (0..=maxlen).map(|k| 10u64.pow(k)).sum();
    run.enumerate(&AlphabetStrings, total, true, |i| nth_string(i, maxlen));
    // every non-negative finite number (thorough), or one block in 32 chosen by the seed (quick)
    let stride = run.budget(32, 1);
    let first = run.seed % stride;
    run.enumerate(&EveryNumber, 0x7f80 / stride, stride == 1, move |i| Some((i * stride + first) as u32));
    let n = run.budget(300_000, 20_000_000);
    run.prop(&RandomStrings, random_strategy(), n);
    let n = run.budget(40_000, 2_000_000);
    run.prop(&AfterAnother, after_strategy(), n);
    run.enumerate(&WireForms, 100, true, |i| Some(WireCase::Block(b'0' + (i / 10) as u8, b'0' + (i % 10) as u8)));
    let p = pool();
    let n = p.len() as u64;
    run.extra.insert("order_pool_size".into(), json!(n));
    run.enumerate(&Pairs, n * n, true, |i| Some((p[(i / n) as usize].clone(), p[(i % n) as usize].clone())));
    let idx = 0..p.len();
    let strat = (idx.clone(), idx.clone(), idx).prop_map(|(a, b, c)| (p[a].clone(), p[b].clone(), p[c].clone()));
    let n = run.budget(2_000_000, 40_000_000);
    run.prop(&Triples, strat, n);
}
