//! C20 — the WebSocket relay transport carries the same byte stream as TCP (loopback tungstenite server).

use std::time::Duration;

use futures_util::{SinkExt, StreamExt};
use insim::net::{Codec, Mode};
use proptest::prelude::*;
use serde_json::{json, Value};
use tokio::io::{AsyncRead, AsyncReadExt};
use tokio_tungstenite::tungstenite::Message;

use crate::engine::*;
use crate::props::session::*;
use crate::refs::compare::decode_one;
use crate::transport::{model_results, render, ReadStep};

#[derive(Clone, Debug, PartialEq)]
pub enum Msg {
    Binary(Vec<u8>),
    Text(String),
    Ping(Vec<u8>),
    Pong(Vec<u8>),
}

#[derive(Clone, Debug)]
pub struct WsCase {
    pub messages: Vec<Msg>,
    /// frames whose packets the client writes first
    pub writes: Vec<Vec<u8>>,
    /// None: read through Framed; Some(sizes): read raw bytes with caller buffers of these sizes (cycled)
    pub raw_read_sizes: Option<Vec<usize>>,
    /// raw reads only: each caller buffer is filled completely over as many polls as it takes (what read_exact / io::copy do:
    /// the adaptor is polled with a buffer that already holds bytes) instead of one read call per buffer
    pub raw_fill: bool,
}

const SESSION_LIMIT: Duration = Duration::from_secs(10);
// the relay always speaks uncompressed InSim
const MODE: Mode = Mode::Uncompressed;

struct Observed {
    results: Vec<String>,
    raw: Vec<u8>,
    server_saw: Vec<Msg>,
    error: Option<String>,
}

fn payload(c: &WsCase) -> Vec<u8> {
    c.messages.iter().filter_map(|m| if let Msg::Binary(b) = m { Some(b.clone()) } else { None }).flatten().collect()
}

fn run_session(c: &WsCase) -> Observed {
    run_session_until(c, None)
}

/// `abandon_after`: the client stops reading after that many results and drops the connection (a reconnect, giving up)
fn run_session_until(c: &WsCase, abandon_after: Option<usize>) -> Observed {
    let rt = tokio::runtime::Builder::new_current_thread().enable_all().build().expect("runtime");
    let c = c.clone();
    let out = guard(move || {
        rt.block_on(async move {
            let mut o = Observed { results: vec![], raw: vec![], server_saw: vec![], error: None };
            let listener = match tokio::net::TcpListener::bind("127.0.0.1:0").await {
                Ok(l) => l,
                Err(e) => {
                    o.error = Some(format!("bind: {e}"));
                    return o;
                },
            };
            let addr = listener.local_addr().unwrap();
            let script = c.messages.clone();
            let expect_writes = if c.raw_read_sizes.is_some() { 0 } else { c.writes.iter().filter(|f| decode_one(f, &MODE).map(|p| Codec::new(MODE).encode(&p).is_ok()).unwrap_or(false)).count() };
            let server = tokio::spawn(async move {
                let (stream, _) = listener.accept().await.ok()?;
                let mut ws = tokio_tungstenite::accept_async(stream).await.ok()?;
                let mut saw = vec![];
                // phase 1: what the client writes
                while saw.iter().filter(|m| matches!(m, Msg::Binary(_))).count() < expect_writes {
                    match ws.next().await {
                        Some(Ok(Message::Binary(b))) => saw.push(Msg::Binary(b.to_vec())),
                        Some(Ok(Message::Text(t))) => saw.push(Msg::Text(t.to_string())),
                        Some(Ok(_)) => {},
                        _ => return Some(saw),
                    }
                }
                // phase 2: the scripted messages, then a close handshake
                for m in script {
                    let msg = match m {
                        Msg::Binary(b) => Message::binary(b),
                        Msg::Text(t) => Message::text(t),
                        Msg::Ping(b) => Message::Ping(b.into()),
                        Msg::Pong(b) => Message::Pong(b.into()),
                    };
                    if ws.send(msg).await.is_err() {
                        return Some(saw);
                    }
                }
                let _ = ws.close(None).await;
                // drain until the peer has closed too (keep-alive replies, pongs, close echo)
                while let Some(Ok(m)) = ws.next().await {
                    if let Message::Binary(b) = m {
                        saw.push(Msg::Binary(b.to_vec()));
                    }
                }
                Some(saw)
            });
            let client = async {
                let url = format!("ws://{addr}/connect");
                let (ws, _) = tokio_tungstenite::connect_async(url).await.map_err(|e| format!("connect: {e}"))?;
                let stream = insim::net::tokio_impl::WebsocketStream::from(ws);
                match &c.raw_read_sizes {
                    None => {
                        let mut framed = insim::net::tokio_impl::Framed::new(Box::new(stream), Codec::new(MODE));
                        for f in &c.writes {
                            if let Ok(p) = decode_one(f, &MODE) {
                                if Codec::new(MODE).encode(&p).is_ok() {
                                    framed.write(p).await.map_err(|e| format!("write: {e}"))?;
                                }
                            }
                        }
                        let mut results = vec![];
                        loop {
                            let r = framed.read().await;
                            let s = render(&r);
                            let stop = s == "Err(Disconnected)" || s == "Err(framing)" || s.starts_with("Err(transient") || s.starts_with("Err(other");
                            results.push(s);
                            if stop || results.len() > 200_000 || abandon_after.map(|k| results.len() >= k).unwrap_or(false) {
                                break;
                            }
                        }
                        Ok::<(Vec<String>, Vec<u8>), String>((results, vec![]))
                    },
                    Some(sizes) => {
                        let mut stream = stream;
                        let mut raw = vec![];
                        let mut i = 0;
                        loop {
                            let sz = sizes[i % sizes.len()].max(1);
                            i += 1;
                            let mut buf = vec![0u8; sz];
                            if c.raw_fill {
                                let mut rb = tokio::io::ReadBuf::new(&mut buf);
                                let mut eof = false;
                                while rb.remaining() > 0 {
                                    let before = rb.filled().len();
                                    if let Err(e) = std::future::poll_fn(|cx| std::pin::Pin::new(&mut stream).poll_read(cx, &mut rb)).await {
                                        return Err(format!("raw read: {e}"));
                                    }
                                    if rb.filled().len() == before {
                                        eof = true;
                                        break;
                                    }
                                }
                                raw.extend_from_slice(rb.filled());
                                if eof {
                                    break;
                                }
                            } else {
                                match stream.read(&mut buf).await {
                                    Ok(0) => break,
                                    Ok(n) => raw.extend_from_slice(&buf[..n]),
                                    Err(e) => return Err(format!("raw read: {e}")),
                                }
                            }
                            if raw.len() > 4_000_000 {
                                break;
                            }
                        }
                        Ok((vec![], raw))
                    },
                }
            };
            match tokio::time::timeout(SESSION_LIMIT, client).await {
                Err(_) => o.error = Some("hang: the session did not finish within 10 s although the server sent everything and closed".into()),
                Ok(Err(e)) => o.error = Some(e),
                Ok(Ok((results, raw))) => {
                    o.results = results;
                    o.raw = raw;
                },
            }
            match tokio::time::timeout(Duration::from_secs(5), server).await {
                Ok(Ok(Some(saw))) => o.server_saw = saw,
                _ => {
                    if o.error.is_none() {
                        o.error = Some("server task did not finish".into());
                    }
                },
            }
            o
        })
    });
    match out {
        Ok(o) => o,
        Err(p) => Observed { results: vec![], raw: vec![], server_saw: vec![], error: Some(format!("panic: {p}")) },
    }
}

pub fn judge(c: &WsCase, ev: &mut Local) -> Result<(), Fail> {
    let o = run_session(c);
    if let Some(e) = &o.error {
        if e.starts_with("bind") || e.starts_with("connect") {
            eprintln!("INCONCLUSIVE: loopback websocket unavailable: {e}");
            std::process::exit(2);
        }
        if e.starts_with("panic") {
            fail!("c20:panic", "{e}");
        }
        if e.starts_with("hang") {
            fail!("c20:session-hangs", "{e}");
        }
        fail!("c20:transport-error", "{e}");
    }
    let bytes = payload(c);
    match &c.raw_read_sizes {
        None => {
            let want = model_results(&MODE, false, &[ReadStep::Data(bytes.clone())], false, bytes.len() / 4 + 16);
            if o.results != want {
                let i = (0..want.len().max(o.results.len())).find(|i| o.results.get(*i) != want.get(*i)).unwrap();
                let sig = if o.results.last().map(|s| s != "Err(Disconnected)").unwrap_or(true) { "c20:close-not-disconnected" } else { "c20:packets-differ-from-tcp" };
                fail!(
                    sig,
                    "result #{i}: websocket delivered {} but the same bytes over TCP give {} ({} vs {} results, {} messages)",
                    o.results.get(i).map(|s| s.chars().take(90).collect::<String>()).unwrap_or("<nothing>".into()),
                    want.get(i).map(|s| s.chars().take(90).collect::<String>()).unwrap_or("<nothing>".into()),
                    o.results.len(),
                    want.len(),
                    c.messages.len()
                );
            }
        },
        Some(_) => {
            ensure!(
                o.raw == bytes,
                "c20:raw-bytes-differ",
                "raw reads returned {} bytes, the binary payloads are {} bytes; first difference at {:?}",
                o.raw.len(),
                bytes.len(),
                o.raw.iter().zip(bytes.iter()).position(|(a, b)| a != b)
            );
        },
    }
    // writes: exactly one binary message per packet, equal to its frame (keep-alive replies may follow later)
    if c.raw_read_sizes.is_none() {
        // a fresh codec per packet: the expected messages are independent encodings
        let want_out: Vec<Msg> = c.writes.iter().filter_map(|f| decode_one(f, &MODE).ok()).filter_map(|p| Codec::new(MODE).encode(&p).ok()).map(|b| Msg::Binary(b.to_vec())).collect();
        let got: Vec<Msg> = o.server_saw.iter().take(want_out.len()).cloned().collect();
        ensure!(got == want_out, "c20:write-not-one-binary-message", "{} packets written; the server saw {:?}", want_out.len(), o.server_saw.iter().take(want_out.len() + 2).map(|m| format!("{m:?}").chars().take(60).collect::<String>()).collect::<Vec<_>>());
        // replies to keep-alives are whole frames, one per message
        let keepalives = o.results.iter().filter(|r| r.as_str() == "Ok(Tiny(Tiny { reqi: RequestId(0), subt: None }))").count();
        let replies: Vec<&Msg> = o.server_saw.iter().skip(want_out.len()).collect();
        ensure!(
            replies.len() == keepalives && replies.iter().all(|m| **m == Msg::Binary(vec![4, 3, 0, 0])),
            "c20:keepalive-replies",
            "{keepalives} keep-alives, server saw afterwards {:?}",
            replies
        );
    }
    // classification
    let bounds = boundaries(&bytes, &MODE);
    let mut pos = 0usize;
    let mut spans = false;
    let mut interleaved = false;
    let mut mid_frame = false;
    for m in &c.messages {
        match m {
            Msg::Binary(b) => {
                pos += b.len();
                mid_frame = !bounds.contains(&pos) && pos < bytes.len();
                if mid_frame {
                    spans = true;
                }
            },
            _ => {
                if mid_frame {
                    interleaved = true;
                }
            },
        }
    }
    if spans {
        ev.class("frame-spans-messages");
    }
    if interleaved {
        ev.class("non-binary-message-inside-a-frame");
    }
    if c.messages.iter().any(|m| matches!(m, Msg::Binary(b) if b.len() > 1020)) {
        ev.class("message-larger-than-adaptor-buffer");
    }
    if c.messages.iter().any(|m| matches!(m, Msg::Binary(b) if b.is_empty())) {
        ev.class("empty-binary-message");
    }
    if c.raw_read_sizes.is_some() {
        ev.class(if c.raw_fill { "raw-reads filling each buffer over several polls" } else { "raw-reads" });
    }
    // longest run of consecutive messages that carry no data
    let mut longest = 0;
    let mut cur = 0;
    for m in &c.messages {
        if matches!(m, Msg::Binary(b) if !b.is_empty()) {
            cur = 0;
        } else {
            cur += 1;
            longest = longest.max(cur);
        }
    }
    if longest >= 100 {
        ev.class("a run of 100 or more messages without data");
    }
    if spans || interleaved || longest >= 100 {
        ev.nontrivial(&format!("{c:?}"));
    }
    ev.max("payload-bytes", bytes.len() as u64);
    Ok(())
}

fn msg_json(m: &Msg) -> Value {
    match m {
        Msg::Binary(b) => json!({"binary": hex(b)}),
        Msg::Text(t) => json!({"text": t}),
        Msg::Ping(b) => json!({"ping": hex(b)}),
        Msg::Pong(b) => json!({"pong": hex(b)}),
    }
}
fn msg_from(v: &Value) -> Option<Msg> {
    if let Some(b) = v.get("binary").and_then(|b| b.as_str()) {
        return Some(Msg::Binary(unhex(b)?));
    }
    if let Some(t) = v.get("text").and_then(|b| b.as_str()) {
        return Some(Msg::Text(t.to_string()));
    }
    if let Some(b) = v.get("ping").and_then(|b| b.as_str()) {
        return Some(Msg::Ping(unhex(b)?));
    }
    Some(Msg::Pong(unhex(v.get("pong")?.as_str()?)?))
}

pub struct WsSessions;
impl Part for WsSessions {
    type Case = WsCase;
    fn name(&self) -> &'static str {
        "loopback-websocket-sessions"
    }
    fn check(&self, c: &WsCase, ev: &mut Local) -> Result<(), Fail> {
        judge(c, ev)?;
        if ev.wants_sample() && c.messages.len() <= 5 && c.messages.len() >= 2 {
            ev.sample(|| json!({"messages": c.messages.iter().map(msg_json).collect::<Vec<_>>(), "raw_read_sizes": c.raw_read_sizes}));
        }
        Ok(())
    }
    fn to_json(&self, c: &WsCase) -> Value {
        json!({"messages": c.messages.iter().map(msg_json).collect::<Vec<_>>(), "writes": c.writes.iter().map(|f| hex(f)).collect::<Vec<_>>(), "raw_read_sizes": c.raw_read_sizes, "raw_fill": c.raw_fill})
    }
    fn from_json(&self, v: &Value) -> Option<WsCase> {
        Some(WsCase {
            messages: v.get("messages")?.as_array()?.iter().map(msg_from).collect::<Option<Vec<_>>>()?,
            writes: v.get("writes")?.as_array()?.iter().map(|f| unhex(f.as_str()?)).collect::<Option<Vec<_>>>()?,
            raw_read_sizes: v.get("raw_read_sizes").and_then(|s| s.as_array()).map(|a| a.iter().filter_map(|x| x.as_u64().map(|x| x as usize)).collect()),
            raw_fill: v.get("raw_fill").and_then(|b| b.as_bool()).unwrap_or(false),
        })
    }
}

pub fn ws_strategy() -> impl Strategy<Value = WsCase> {
    let other = prop_oneof![
        "[ -~]{0,12}".prop_map(Msg::Text),
        // long texts, mostly of multi-byte characters (whatever is done with an ignored message - logged, measured, cut - is done
        // to these too)
        "[a-z]{0,3}[€é𝄞ш]{60,200}".prop_map(Msg::Text),
        proptest::collection::vec(any::<u8>(), 0..8).prop_map(Msg::Ping),
        proptest::collection::vec(any::<u8>(), 0..8).prop_map(Msg::Pong),
        Just(Msg::Binary(vec![])),
    ];
    (
        proptest::collection::vec(frame_strategy(2, 1), 0..40),
        cutting_strategy(),
        proptest::collection::vec((any::<prop::sample::Index>(), other), 0..6),
        proptest::collection::vec(frame_strategy(0, 1), 0..5),
        prop::option::weighted(0.3, proptest::collection::vec(prop_oneof![Just(1usize), 1usize..2048, Just(1020usize), Just(4usize)], 1..6)),
        prop::option::weighted(0.2, any::<prop::sample::Index>()),
    )
        .prop_map(|(frames, cutting, others, writes, raw_read_sizes, truncate)| {
            let mut stream = vec![];
            for f in &frames {
                stream.extend_from_slice(&frame_bytes(f, &MODE));
            }
            if let Some(t) = truncate {
                if stream.len() > 1 {
                    stream.truncate(1 + t.index(stream.len() - 1));
                }
            }
            let mut messages: Vec<Msg> = cut_stream(&stream, &MODE, &cutting).into_iter().map(Msg::Binary).collect();
            // single-byte cutting of long streams would mean tens of thousands of messages: cap the count
            if messages.len() > 400 {
                let mut merged: Vec<Msg> = vec![];
                let mut acc: Vec<u8> = vec![];
                for (i, m) in messages.iter().enumerate() {
                    if let Msg::Binary(b) = m {
                        acc.extend_from_slice(b);
                    }
                    if i % 97 == 0 || i < 100 {
                        merged.push(Msg::Binary(std::mem::take(&mut acc)));
                    }
                }
                if !acc.is_empty() {
                    merged.push(Msg::Binary(acc));
                }
                messages = merged;
            }
            for (ix, m) in others {
                let at = ix.index(messages.len() + 1);
                messages.insert(at, m);
            }
            {
                let raw_fill = raw_read_sizes.as_ref().map(|v| v.iter().sum::<usize>() % 2 == 0).unwrap_or(false);
                WsCase { messages, writes: writes.iter().map(|f| frame_bytes(f, &MODE)).collect(), raw_read_sizes, raw_fill }
            }
        })
}

/// long runs of messages that carry no data (pings, pongs, text, empty binary) between - or inside - the frames: a peer may send
/// any number of them, and all of them may be waiting when the connection is polled
pub fn ws_ignored_run_strategy() -> impl Strategy<Value = WsCase> {
    let other = prop_oneof![
        "[ -~]{0,12}".prop_map(Msg::Text),
        // long texts, mostly of multi-byte characters (whatever is done with an ignored message - logged, measured, cut - is done
        // to these too)
        "[a-z]{0,3}[€é𝄞ш]{60,200}".prop_map(Msg::Text),
        proptest::collection::vec(any::<u8>(), 0..8).prop_map(Msg::Ping),
        proptest::collection::vec(any::<u8>(), 0..8).prop_map(Msg::Pong),
        Just(Msg::Binary(vec![])),
    ];
    let run = (prop_oneof![1usize..40, 100usize..300, 300usize..1500, Just(127usize), Just(128), Just(255), Just(256), Just(1024)], proptest::collection::vec(other, 1..4), any::<prop::sample::Index>());
    (proptest::collection::vec(frame_strategy(1, 1), 1..8), proptest::collection::vec(run, 1..3), any::<bool>()).prop_map(|(frames, runs, inside)| {
        let mut stream = vec![];
        for f in &frames {
            stream.extend_from_slice(&frame_bytes(f, &MODE));
        }
        // message boundaries: at the frame boundaries, or (inside) two bytes into each frame
        let mut messages: Vec<Msg> = vec![];
        let b = boundaries(&stream, &MODE);
        let mut last = 0;
        for &e in b.iter().chain(std::iter::once(&stream.len())) {
            let e = if inside && e + 2 <= stream.len() { e + 2 } else { e };
            if e > last {
                messages.push(Msg::Binary(stream[last..e].to_vec()));
                last = e;
            }
        }
        for (n, kinds, at) in runs {
            let at = at.index(messages.len() + 1);
            let items: Vec<Msg> = (0..n).map(|i| kinds[i % kinds.len()].clone()).collect();
            messages.splice(at..at, items);
        }
        WsCase { messages, writes: vec![], raw_read_sizes: None, raw_fill: false }
    })
}

/// bursts: 20..200 KB of small frames in one to three binary messages (a single message far beyond every buffer involved)
pub fn ws_burst_strategy() -> impl Strategy<Value = WsCase> {
    (
        prop_oneof![Just(4usize), Just(68), Just(20)],
        20_000usize..200_000,
        proptest::collection::vec(any::<prop::sample::Index>(), 0..3),
        prop::option::weighted(0.3, proptest::collection::vec(prop_oneof![Just(1020usize), 500usize..4096, Just(65_536usize)], 1..3)),
    )
        .prop_map(|(flen, total, cuts, raw_read_sizes)| {
            let n = total / flen;
            let mut stream = Vec::with_capacity(n * flen);
            for i in 0..n {
                let f: Vec<u8> = match flen {
                    4 => vec![4, 3, (i % 250 + 1) as u8, 3],
                    20 => {
                        let mut v = vec![20u8, 2, 1, 0];
                        v.extend_from_slice(b"0.7A\0\0\0\0S3\0\0\0\0");
                        v.push(9);
                        v.push(0);
                        v
                    },
                    _ => {
                        // IS_MST: 64 bytes of text
                        let mut v = vec![68u8, 13, 0, 0];
                        v.extend((0..63).map(|k| b'a' + ((i + k) % 26) as u8));
                        v.push(0);
                        v
                    },
                };
                stream.extend_from_slice(&f);
            }
            let mut at: Vec<usize> = cuts.iter().map(|ix| ix.index(stream.len() + 1)).collect();
            at.push(0);
            at.push(stream.len());
            at.sort();
            at.dedup();
            let messages: Vec<Msg> = at.windows(2).map(|w| Msg::Binary(stream[w[0]..w[1]].to_vec())).collect();
            let raw_fill = raw_read_sizes.as_ref().map(|v| v.iter().sum::<usize>() % 2 == 0).unwrap_or(false);
            WsCase { messages, writes: vec![], raw_read_sizes, raw_fill }
        })
}

// ---------------------------------------------------------------------------------------
// writes under TCP back-pressure: the peer does not read until the writer has stalled
// ---------------------------------------------------------------------------------------
#[derive(Clone, Debug)]
pub struct PressureCase {
    pub packets: usize,
    /// requested SO_SNDBUF of the client socket
    pub sndbuf: u32,
    /// text length pattern (cycled): frames of different sizes
    pub lens: Vec<usize>,
}

fn pressure_packet(i: usize, len: usize) -> insim::Packet {
    let mut text = format!("message number {i:08} ");
    while text.len() < len {
        text.push((b'a' + (text.len() % 26) as u8) as char);
    }
    text.truncate(len.max(24).min(95));
    insim::Packet::Msx(insim::insim::Msx { reqi: insim::identifiers::RequestId((i % 255) as u8 + 1), msg: text })
}

pub struct BackPressure;
impl Part for BackPressure {
    type Case = PressureCase;
    fn name(&self) -> &'static str {
        "writes-under-tcp-back-pressure"
    }
    fn check(&self, c: &PressureCase, ev: &mut Local) -> Result<(), Fail> {
        use std::sync::atomic::{AtomicUsize, Ordering};
        use std::sync::Arc;
        let rt = tokio::runtime::Builder::new_current_thread().enable_all().build().expect("runtime");
        let c2 = c.clone();
        let expected: Vec<Vec<u8>> = (0..c.packets).map(|i| Codec::new(MODE).encode(&pressure_packet(i, c.lens[i % c.lens.len()])).unwrap().to_vec()).collect();
        let out = guard(move || {
            rt.block_on(async move {
                let listener = tokio::net::TcpListener::bind("127.0.0.1:0").await.map_err(|e| format!("bind: {e}"))?;
                let addr = listener.local_addr().unwrap();
                let written = Arc::new(AtomicUsize::new(0));
                let w2 = written.clone();
                let total = c2.packets;
                let server = tokio::spawn(async move {
                    let (stream, _) = listener.accept().await.ok()?;
                    let mut ws = tokio_tungstenite::accept_async(stream).await.ok()?;
                    // do not read until the writer has made no progress for a while (its send buffer is full) or is done
                    let mut last = usize::MAX;
                    let mut same = 0;
                    let mut stalled_at = None;
                    loop {
                        tokio::time::sleep(Duration::from_millis(15)).await;
                        let now = w2.load(Ordering::SeqCst);
                        if now == last {
                            same += 1;
                        } else {
                            same = 0;
                        }
                        last = now;
                        if now >= total || same >= 4 {
                            if now < total {
                                stalled_at = Some(now);
                            }
                            break;
                        }
                    }
                    // The adaptor reports a frame as written once tungstenite has queued it; whatever the socket did not
                    // take yet leaves with the connection's next write. Like a real host, send a keep-alive now and then:
                    // the client's reply is that next write (the replies themselves are filtered out below).
                    let mut got: Vec<Vec<u8>> = vec![];
                    let mut idle = 0;
                    while got.len() < total && idle < 40 {
                        match tokio::time::timeout(Duration::from_millis(150), ws.next()).await {
                            Ok(Some(Ok(Message::Binary(b)))) => {
                                idle = 0;
                                if b[..] != [4u8, 3, 0, 0] {
                                    got.push(b.to_vec());
                                }
                            },
                            Ok(Some(Ok(_))) => {},
                            Ok(_) => break,
                            Err(_) => {
                                idle += 1;
                                if ws.send(Message::binary(vec![4u8, 3, 0, 0])).await.is_err() {
                                    break;
                                }
                            },
                        }
                    }
                    // anything beyond the expected number is a duplicate: give it a moment to arrive, then close
                    while let Ok(Some(Ok(m))) = tokio::time::timeout(Duration::from_millis(60), ws.next()).await {
                        if let Message::Binary(b) = m {
                            if b[..] != [4u8, 3, 0, 0] {
                                got.push(b.to_vec());
                            }
                        }
                        if got.len() > total + 8 {
                            break;
                        }
                    }
                    let _ = ws.close(None).await;
                    while let Ok(Some(Ok(_))) = tokio::time::timeout(Duration::from_secs(2), ws.next()).await {}
                    Some((got, stalled_at))
                });
                let sock = tokio::net::TcpSocket::new_v4().map_err(|e| format!("bind: {e}"))?;
                let _ = sock.set_send_buffer_size(c2.sndbuf);
                let tcp = sock.connect(addr).await.map_err(|e| format!("connect: {e}"))?;
                let url = format!("ws://{addr}/connect");
                let (ws, _) = tokio_tungstenite::client_async(url, tokio_tungstenite::MaybeTlsStream::Plain(tcp)).await.map_err(|e| format!("connect: {e}"))?;
                let mut framed = insim::net::tokio_impl::Framed::new(Box::new(insim::net::tokio_impl::WebsocketStream::from(ws)), Codec::new(MODE));
                for i in 0..c2.packets {
                    let p = pressure_packet(i, c2.lens[i % c2.lens.len()]);
                    match tokio::time::timeout(SESSION_LIMIT, framed.write(p)).await {
                        Ok(Ok(())) => {},
                        Ok(Err(e)) => return Err(format!("write #{i}: {e}")),
                        Err(_) => return Err(format!("hang: write #{i} did not complete within 10 s")),
                    }
                    written.store(i + 1, Ordering::SeqCst);
                }
                // like an application's main loop, keep reading until the peer closes (the read path also drives
                // tungstenite's pending output); dropping the connection right after the last write would discard
                // whatever the websocket layer still buffers, which is not what the property is about
                let _ = tokio::time::timeout(SESSION_LIMIT, async {
                    loop {
                        if framed.read().await.is_err() {
                            break;
                        }
                    }
                })
                .await;
                drop(framed);
                match tokio::time::timeout(Duration::from_secs(20), server).await {
                    Ok(Ok(Some(r))) => Ok(r),
                    _ => Err("server task did not finish".to_string()),
                }
            })
        });
        let (got, stalled_at) = match out {
            Err(p) => fail!("c20:panic", "{p}"),
            Ok(Err(e)) => {
                if e.starts_with("bind") || e.starts_with("connect") {
                    eprintln!("INCONCLUSIVE: loopback websocket unavailable: {e}");
                    std::process::exit(2);
                }
                fail!("c20:transport-error", "{e}");
            },
            Ok(Ok(r)) => r,
        };
        if got != expected {
            let i = (0..got.len().max(expected.len())).find(|i| got.get(*i) != expected.get(*i)).unwrap();
            let dup = i > 0 && got.get(i) == expected.get(i - 1);
            fail!(
                if dup { "c20:message-sent-twice" } else { "c20:write-not-one-binary-message" },
                "{} packets written under back-pressure (writer stalled at {:?}); binary message #{i} is {} but packet #{i} encodes to {}; the server saw {} messages",
                expected.len(),
                stalled_at,
                got.get(i).map(|f| hex(&f[..f.len().min(28)])).unwrap_or("<nothing>".into()),
                expected.get(i).map(|f| hex(&f[..f.len().min(28)])).unwrap_or("<nothing>".into()),
                got.len()
            );
        }
        // the adaptor never pushes back on the writer (tungstenite queues in user space), so a stall is rarely seen;
        // what matters is that far more was written than the socket buffers hold while the peer was not reading
        ev.nontrivial(&format!("{c:?}"));
        ev.class(if stalled_at.is_some() { "writer-stalled-on-full-send-buffer" } else { "output-queued-beyond-socket-buffers" });
        ev.max("packets", c.packets as u64);
        if ev.wants_sample() {
            ev.sample(|| json!({"packets": c.packets, "sndbuf": c.sndbuf, "stalled_after": stalled_at}));
        }
        Ok(())
    }
    fn to_json(&self, c: &PressureCase) -> Value {
        json!({"packets": c.packets, "sndbuf": c.sndbuf, "lens": c.lens})
    }
    fn from_json(&self, v: &Value) -> Option<PressureCase> {
        Some(PressureCase { packets: v.get("packets")?.as_u64()? as usize, sndbuf: v.get("sndbuf")?.as_u64()? as u32, lens: v.get("lens")?.as_array()?.iter().filter_map(|x| x.as_u64().map(|x| x as usize)).collect() })
    }
}



/// Premise of the write-call part, established on the real adaptor once per process: does one write call holding two frames
/// leave as ONE binary message? (If a future adaptor re-frames what it is given, write-call granularity is immaterial and the
/// part does not apply.)
fn adaptor_maps_write_calls_to_messages() -> Option<bool> {
    static PROBE: std::sync::OnceLock<Option<bool>> = std::sync::OnceLock::new();
    *PROBE.get_or_init(|| {
        let rt = tokio::runtime::Builder::new_current_thread().enable_all().build().ok()?;
        guard(move || {
            rt.block_on(async move {
                use tokio::io::AsyncWriteExt;
                let listener = tokio::net::TcpListener::bind("127.0.0.1:0").await.ok()?;
                let addr = listener.local_addr().ok()?;
                let server = tokio::spawn(async move {
                    let (stream, _) = listener.accept().await.ok()?;
                    let mut ws = tokio_tungstenite::accept_async(stream).await.ok()?;
                    let mut sizes = vec![];
                    while sizes.iter().sum::<usize>() < 8 {
                        match tokio::time::timeout(std::time::Duration::from_secs(5), ws.next()).await {
                            Ok(Some(Ok(Message::Binary(b)))) => sizes.push(b.len()),
                            Ok(Some(Ok(_))) => {},
                            _ => break,
                        }
                    }
                    Some(sizes)
                });
                let url = format!("ws://{addr}/connect");
                let (ws, _) = tokio_tungstenite::connect_async(url).await.ok()?;
                let mut stream = insim::net::tokio_impl::WebsocketStream::from(ws);
                // two TINY frames handed over in one call
                stream.write_all(&[4, 3, 1, 3, 4, 3, 2, 3]).await.ok()?;
                stream.flush().await.ok()?;
                let sizes = server.await.ok()??;
                Some(sizes == vec![8])
            })
        })
        .ok()
        .flatten()
    })
}

/// Each write call of the connection becomes one binary message in the WebSocket adaptor (and one datagram over UDP), so a
/// write call must never carry bytes of two frames - also not when a keep-alive reply was left unfinished by a cancelled read
/// and the application writes next. Scripted transport, the schedules of C19 (drops, partial acceptance, Pending).
pub struct WriteCalls;
impl Part for WriteCalls {
    type Case = crate::props::c19::DropCase;
    fn name(&self) -> &'static str {
        "one-frame-per-write-call"
    }
    fn check(&self, c: &crate::props::c19::DropCase, ev: &mut Local) -> Result<(), Fail> {
        let mode = c.session.mode();
        match adaptor_maps_write_calls_to_messages() {
            Some(true) => {},
            Some(false) => {
                ev.class("not applicable: the adaptor re-frames what a write call hands it");
                return Ok(());
            },
            None => {
                ev.class("premise could not be established on loopback: skipped");
                return Ok(());
            },
        }
        for with_drops in [false, true] {
            // a message adaptor does not gather: the stand-in transport is not vectored
            let o = crate::props::c19::drive_on(c, with_drops, false);
            if let Some(p) = o.panic {
                fail!("c20:panic", "scripted session panicked: {p}");
            }
            if let Some(why) = crate::transport::write_call_spanning_frames(&o.written, &o.offers, &mode) {
                fail!("c20:write-not-one-binary-message", "{} read futures dropped: {why}; outgoing stream {}", o.dropped_in_read + o.dropped_in_write, hex(&o.written[..o.written.len().min(40)]));
            }
            if with_drops && o.dropped_in_write > 0 && o.writes_after_drop > 0 {
                ev.class("application-write-after-a-read-dropped-inside-the-reply");
            }
            if with_drops && o.offers.len() >= 2 {
                ev.nontrivial(&(crate::props::session::session_json(&c.session).to_string(), &c.drops, &c.user_writes));
            }
        }
        Ok(())
    }
    fn to_json(&self, c: &crate::props::c19::DropCase) -> Value {
        crate::props::c19::Generated.to_json(c)
    }
    fn from_json(&self, v: &Value) -> Option<crate::props::c19::DropCase> {
        crate::props::c19::Generated.from_json(v)
    }
}

// ------------------------------------------------------------------ a second connection after an abandoned one
/// The relay drops idle connections and applications reconnect: a first connection receives a large binary message, the
/// client reads a few packets and drops it; a second connection made by the same thread must carry exactly its own stream.
#[derive(Clone, Debug)]
pub struct SecondCase {
    pub first: WsCase,
    pub read_before_dropping: usize,
    pub second: WsCase,
}

pub struct SecondConnection;
impl Part for SecondConnection {
    type Case = SecondCase;
    fn name(&self) -> &'static str {
        "a-second-connection-after-an-abandoned-one"
    }
    fn check(&self, c: &SecondCase, ev: &mut Local) -> Result<(), Fail> {
        let o = run_session_until(&c.first, Some(c.read_before_dropping.max(1)));
        if let Some(e) = &o.error {
            if e.starts_with("bind") || e.starts_with("connect") {
                eprintln!("INCONCLUSIVE: loopback websocket unavailable: {e}");
                std::process::exit(2);
            }
        }
        // (what the abandoned connection delivered is judged by the other parts; here only what follows it)
        judge(&c.second, ev).map_err(|f| Fail::new(f.sig.clone(), format!("[second connection of this thread; the first one received {} bytes in {} messages and was dropped after {} results] {}", payload(&c.first).len(), c.first.messages.len(), o.results.len(), f.msg)))?;
        ev.class("second connection judged");
        Ok(())
    }
    fn to_json(&self, c: &SecondCase) -> Value {
        json!({"first": WsSessions.to_json(&c.first), "read_before_dropping": c.read_before_dropping, "second": WsSessions.to_json(&c.second)})
    }
    fn from_json(&self, v: &Value) -> Option<SecondCase> {
        Some(SecondCase { first: WsSessions.from_json(v.get("first")?)?, read_before_dropping: v.get("read_before_dropping")?.as_u64()? as usize, second: WsSessions.from_json(v.get("second")?)? })
    }
}

pub fn parts() -> Vec<Box<dyn DynPart>> {
    vec![Box::new(WsSessions), Box::new(SecondConnection), Box::new(BackPressure), Box::new(WriteCalls)]
}

pub fn run(run: &mut Run) {
    run.rule = "A loopback tokio-tungstenite server sends a generated frame sequence (all packet kinds, unknown types, keep-alives, \
        maximum-size frames, optionally ending mid-frame) partitioned into binary messages (one frame per message, several per message, \
        frames split anywhere, empty messages, messages larger than 1020 bytes, and bursts of 20..200 KB in one to three messages) with Text / Ping / Pong messages interleaved, then \
        performs a close handshake. The client wraps the socket with the crate's WebsocketStream. Oracle: packets delivered through Framed \
        equal the TCP model's list for the concatenated binary payloads and end in Disconnected; raw reads with caller buffers of 1..2048 \
        bytes return exactly the payload bytes; each Framed::write (and each keep-alive reply) reaches the server as exactly one binary \
        message equal to the frame; runs of 1..1500 messages without data; raw reads that fill each caller buffer over several polls; a second connection made by the thread of an abandoned one must carry exactly its own stream. A second part writes 2 000..12 000 packets through a client socket with a small send buffer while the server refuses to read until the writer has stalled, then compares every binary message with its frame. A third part runs C19's cancellation schedules on the scripted transport and requires that no write call of the connection ever offers bytes of two frames (each call becomes one message). Non-trivial = a frame spans two or more messages, or a non-binary message sits inside a frame."
        .into();
    run.assumptions = vec![
        "tokio-tungstenite on loopback delivers messages in order; the 10 s session limit can only be hit if data was lost (the server sends everything and closes)".into(),
        "the relay speaks uncompressed InSim, so sessions use Mode::Uncompressed".into(),
    ];
    run.max_shrink_iters = std::env::var("VP_SHRINK").ok().and_then(|s| s.parse().ok()).unwrap_or(300);
    let n = run.budget(600, 20_000);
    run.prop(&WsSessions, ws_strategy(), n);
    // long runs of messages without data
    let n = run.budget(200, 6_000);
    run.prop(&WsSessions, ws_ignored_run_strategy(), n);
    // bursts: single messages of up to 200 KB
    run.max_shrink_iters = 8;
    let n = run.budget(16, 300);
    run.prop(&WsSessions, ws_burst_strategy(), n);
    // a second connection on the thread of an abandoned one: the first receives 1..20 KB in one to three messages and is dropped
    // after a few packets
    let first = (prop_oneof![Just(4usize), Just(20), Just(68)], prop_oneof![3 => 1_000usize..20_000, 2 => 6_000usize..8_200], proptest::collection::vec(any::<prop::sample::Index>(), 0..3)).prop_map(|(flen, total, cuts)| {
        let n = total / flen;
        let mut stream = Vec::with_capacity(n * flen);
        for i in 0..n {
            let mut f = vec![0u8; flen];
            f[0] = flen as u8;
            f[1] = if flen == 4 { 3 } else if flen == 20 { 2 } else { 13 };
            f[2] = (i % 250 + 1) as u8;
            if flen == 4 {
                f[3] = 3;
            } else if flen == 20 {
                f[4..8].copy_from_slice(b"0.7A");
                f[18] = 9;
            } else {
                for k in 4..67 {
                    f[k] = b'a' + ((i + k) % 26) as u8;
                }
            }
            stream.extend_from_slice(&f);
        }
        let mut at: Vec<usize> = cuts.iter().map(|ix| ix.index(stream.len() + 1)).collect();
        at.push(0);
        at.push(stream.len());
        at.sort();
        at.dedup();
        let messages: Vec<Msg> = at.windows(2).map(|w| Msg::Binary(stream[w[0]..w[1]].to_vec())).collect();
        WsCase { messages, writes: vec![], raw_read_sizes: None, raw_fill: false }
    });
    let strat = (first, 1usize..40, ws_strategy()).prop_map(|(first, read_before_dropping, second)| SecondCase { first, read_before_dropping, second });
    let n = run.budget(120, 4_000);
    run.prop(&SecondConnection, strat, n);
    // back-pressure: the harness owns the peer's schedule (it does not read until the writer stalls)
    run.max_shrink_iters = 12;
    let strat = (2_000usize..12_000, prop_oneof![Just(4096u32), Just(8192), Just(16384), Just(65536)], proptest::collection::vec(24usize..96, 1..5)).prop_map(|(packets, sndbuf, lens)| PressureCase { packets, sndbuf, lens });
    let n = run.budget(24, 400);
    run.prop(&BackPressure, strat, n);
    // write-call granularity on the scripted transport, under the cancellation schedules of C19
    run.max_shrink_iters = 2000;
    let n = run.budget(30_000, 2_000_000);
    run.prop(&WriteCalls, crate::props::c19::drop_case_strategy(), n);
}
