//! C13 — vehicle identifiers map one-to-one onto their 4 wire bytes (complete 2^32 enumeration).

use std::io::Cursor;

use insim_core::binrw::{BinRead, BinWrite};
use insim_core::vehicle::Vehicle;
use serde_json::{json, Value};

use crate::engine::*;

/// Name table transcribed from InSim.txt (v9): the 20 built-in cars.
pub const BUILTIN: [&str; 20] = [
    "XFG", "XRG", "FBM", "XRT", "RB4", "FXO", "LX4", "LX6", "MRT", "UF1", "RAC", "FZ5", "FOX", "XFR",
    "UFR", "FO8", "FXR", "XRR", "FZR", "BF1",
];

/// Which enum variant is this — decided by pattern matching, not by Display/Debug.
fn variant_name(v: &Vehicle) -> Option<&'static str> {
    Some(match v {
        Vehicle::Xfg => "XFG",
        Vehicle::Xrg => "XRG",
        Vehicle::Fbm => "FBM",
        Vehicle::Xrt => "XRT",
        Vehicle::Rb4 => "RB4",
        Vehicle::Fxo => "FXO",
        Vehicle::Lx4 => "LX4",
        Vehicle::Lx6 => "LX6",
        Vehicle::Mrt => "MRT",
        Vehicle::Uf1 => "UF1",
        Vehicle::Rac => "RAC",
        Vehicle::Fz5 => "FZ5",
        Vehicle::Fox => "FOX",
        Vehicle::Xfr => "XFR",
        Vehicle::Ufr => "UFR",
        Vehicle::Fo8 => "FO8",
        Vehicle::Fxr => "FXR",
        Vehicle::Xrr => "XRR",
        Vehicle::Fzr => "FZR",
        Vehicle::Bf1 => "BF1",
        _ => return None,
    })
}

#[derive(Debug, PartialEq)]
enum Expect {
    Unknown,
    Builtin(&'static str),
    Error,
    Mod(u32),
}

fn reference(b: [u8; 4]) -> Expect {
    if b == [0, 0, 0, 0] {
        return Expect::Unknown;
    }
    let shaped = b[..3].iter().all(|c| c.is_ascii_alphanumeric()) && b[3] == 0;
    if shaped {
        for n in BUILTIN {
            if n.as_bytes() == &b[..3] {
                return Expect::Builtin(n);
            }
        }
        return Expect::Error;
    }
    Expect::Mod(u32::from_le_bytes(b))
}

pub fn read_vehicle(b: [u8; 4]) -> Result<Vehicle, String> {
    let mut c = Cursor::new(&b[..]);
    Vehicle::read_le(&mut c).map_err(|e| e.to_string())
}

pub fn write_vehicle(v: &Vehicle) -> Result<Vec<u8>, String> {
    let mut buf = [0u8; 16];
    let mut c = Cursor::new(&mut buf[..]);
    v.write_le(&mut c).map_err(|e| e.to_string())?;
    let n = c.position() as usize;
    Ok(buf[..n].to_vec())
}

fn write_vehicle_fixed(v: &Vehicle) -> Result<([u8; 16], usize), String> {
    let mut buf = [0u8; 16];
    let mut c = Cursor::new(&mut buf[..]);
    v.write_le(&mut c).map_err(|e| e.to_string())?;
    let n = c.position() as usize;
    Ok((buf, n))
}

fn check_one(b: [u8; 4]) -> Result<bool, Fail> {
    match guard(|| check_one_raw(b)) {
        Ok(r) => r,
        Err(p) => Err(Fail::new("c13:panic", format!("{b:02x?}: panic {p}"))),
    }
}

#[inline]
fn check_one_raw(b: [u8; 4]) -> Result<bool, Fail> {
    let want = reference(b);
    let got = {
        let mut c = Cursor::new(&b[..]);
        Vehicle::read_le(&mut c)
    };
    let nontrivial = b[3] == 0 || !matches!(want, Expect::Mod(_));
    match (&want, &got) {
        (Expect::Error, Err(_)) => return Ok(nontrivial),
        (Expect::Error, Ok(v)) => {
            return Err(Fail::new(
                "c13:unknown-builtin-name-accepted",
                format!("{b:02x?}: unrecognised built-in-style name decoded to {v:?}"),
            ))
        },
        (_, Err(e)) => {
            return Err(Fail::new(
                "c13:valid-id-rejected",
                format!("{b:02x?}: expected {want:?}, decoder error {e}"),
            ))
        },
        _ => {},
    }
    let v = got.unwrap();
    match &want {
        Expect::Unknown => {
            if !matches!(v, Vehicle::Unknown) {
                return Err(Fail::new("c13:zero-not-unknown", format!("{b:02x?} decoded to {v:?}")));
            }
        },
        Expect::Builtin(n) => {
            if variant_name(&v) != Some(n) {
                return Err(Fail::new(
                    "c13:wrong-builtin",
                    format!("{b:02x?} ({n}) decoded to {v:?}"),
                ));
            }
            if v.is_mod() || !v.is_builtin() {
                return Err(Fail::new("c13:builtin-reported-as-mod", format!("{n}: is_mod()")));
            }
            let shown = v.to_string();
            if shown != *n {
                return Err(Fail::new(
                    "c13:display-differs-from-wire-name",
                    format!("{n} prints as {shown:?}"),
                ));
            }
        },
        Expect::Mod(id) => {
            match v {
                Vehicle::Mod(m) if m == *id => {},
                _ => {
                    return Err(Fail::new(
                        "c13:wrong-mod-id",
                        format!("{b:02x?} expected Mod({id:#x}) got {v:?}"),
                    ))
                },
            }
            if !v.is_mod() || v.is_builtin() {
                return Err(Fail::new("c13:mod-reported-as-builtin", format!("{b:02x?}")));
            }
        },
        Expect::Error => unreachable!(),
    }
    let (buf, n) = match write_vehicle_fixed(&v) {
        Ok(w) => w,
        Err(e) => return Err(Fail::new("c13:reencode-error", format!("{b:02x?}: {e}"))),
    };
    let back = &buf[..n];
    if back != b {
        return Err(Fail::new(
            "c13:reencode-differs",
            format!("{b:02x?} -> {v:?} -> {back:02x?}"),
        ));
    }
    Ok(nontrivial)
}

/// Case = one block of 65536 consecutive u32 values (high half fixed), or a single value.
#[derive(Clone, Debug)]
pub enum Case {
    Block(u16),
    One(u32),
}

pub struct Exhaustive;
impl Part for Exhaustive {
    type Case = Case;
    fn name(&self) -> &'static str {
        "all-u32"
    }
    fn check(&self, c: &Case, ev: &mut Local) -> Result<(), Fail> {
        match c {
            Case::One(v) => {
                let b = v.to_le_bytes();
                if check_one(b)? {
                    ev.nontrivial_distinct();
                }
                Ok(())
            },
            Case::Block(hi) => {
                let mut nt = 0u64;
                // fast path: one panic guard for the whole block; on a panic re-run value by value
                let fast = guard(|| {
                    let mut nt = 0u64;
                    for lo in 0..=u16::MAX {
                        let v = ((*hi as u32) << 16) | lo as u32;
                        match check_one_raw(v.to_le_bytes()) {
                            Ok(true) => nt += 1,
                            Ok(false) => {},
                            Err(f) => return Err(f.with_case(json!({"value": v}))),
                        }
                    }
                    Ok(nt)
                });
                match fast {
                    Ok(Ok(n)) => nt = n,
                    Ok(Err(f)) => return Err(f),
                    Err(_) => {
                        for lo in 0..=u16::MAX {
                            let v = ((*hi as u32) << 16) | lo as u32;
                            match check_one(v.to_le_bytes()) {
                                Ok(true) => nt += 1,
                                Ok(false) => {},
                                Err(f) => return Err(f.with_case(json!({"value": v}))),
                            }
                        }
                    },
                }
                ev.add_evals(65535);
                ev.add_nontrivial_distinct(nt);
                if *hi % 4099 == 0 {
                    ev.sample(|| {
                        let v = ((*hi as u32) << 16) | 0x4758;
                        json!({"bytes": hex(&v.to_le_bytes()), "decoded": format!("{:?}", read_vehicle(v.to_le_bytes()))})
                    });
                }
                Ok(())
            },
        }
    }
    fn to_json(&self, c: &Case) -> Value {
        match c {
            Case::Block(h) => json!({"block_hi16": h}),
            Case::One(v) => json!({"value": v}),
        }
    }
    fn from_json(&self, v: &Value) -> Option<Case> {
        if let Some(x) = v.get("value").and_then(|x| x.as_u64()) {
            return Some(Case::One(x as u32));
        }
        v.get("block_hi16").and_then(|x| x.as_u64()).map(|x| Case::Block(x as u16))
    }
}

/// The 20 names plus neighbours (case variants, one character off) as explicit cases, so that
/// samples and classes show the interesting points.
pub struct Names;
impl Part for Names {
    type Case = [u8; 4];
    fn name(&self) -> &'static str {
        "builtin-names-and-neighbours"
    }
    fn check(&self, c: &[u8; 4], ev: &mut Local) -> Result<(), Fail> {
        let r = reference(*c);
        ev.class(match r {
            Expect::Unknown => "unknown",
            Expect::Builtin(_) => "builtin",
            Expect::Error => "unrecognised-builtin-style-name",
            Expect::Mod(_) => "mod",
        });
        if check_one(*c)? {
            ev.nontrivial(c);
        }
        ev.sample(|| json!({"bytes": hex(c), "expected": format!("{r:?}"), "decoded": format!("{:?}", read_vehicle(*c))}));
        Ok(())
    }
    fn to_json(&self, c: &[u8; 4]) -> Value {
        json!({"bytes": hex(c)})
    }
    fn from_json(&self, v: &Value) -> Option<[u8; 4]> {
        let b = unhex(v.get("bytes")?.as_str()?)?;
        b.try_into().ok()
    }
}


/// The same classification must come out when the 4 bytes travel inside packets (SLC.cname, NPL.cname, RES.cname):
/// a packet-level wrapper must not bypass or alter the identifier codec.
pub struct ViaPackets;
impl Part for ViaPackets {
    type Case = [u8; 4];
    fn name(&self) -> &'static str {
        "through-slc-npl-res-frames"
    }
    fn check(&self, c: &[u8; 4], ev: &mut Local) -> Result<(), Fail> {
        use insim::net::{Codec, Mode};
        let want = reference(*c);
        let codec = Codec::new(Mode::Uncompressed);
        // (type, frame length, offset of the identifier)
        // the identifier travels in three surroundings: (0) all other fields zero, (1) the neighbouring text fields (player /
        // user / skin name, plate) hold car-like names such as "XRT_DEFAULT", (2) they repeat the identifier's own bytes.
        // What the neighbours say must never change what the 4 identifier bytes mean.
        const NAMES: [&str; 20] = ["XFG", "XRG", "XRT", "RB4", "FXO", "LX4", "LX6", "MRT", "UF1", "RAC", "FZ5", "FOX", "XFR", "UFR", "FO8", "FXR", "XRR", "FZR", "BF1", "FBM"];
        let pick = (c[0] as usize + c[1] as usize * 3 + c[2] as usize * 7) % 20;
        for (name, ty, len, off, ctx) in [
            ("Slc", 62u8, 8usize, 4usize, 0u8),
            ("Npl", 21, 76, 40, 0),
            ("Npl", 21, 76, 40, 1),
            ("Npl", 21, 76, 40, 2),
            ("Res", 35, 84, 60, 0),
            ("Res", 35, 84, 60, 1),
            ("Res", 35, 84, 60, 2),
        ] {
            let mut f = vec![0u8; len];
            f[0] = len as u8;
            f[1] = ty;
            // text fields around the identifier: (offset, width)
            let texts: &[(usize, usize)] = match name {
                "Npl" => &[(8, 24), (32, 8), (44, 16)],
                "Res" => &[(4, 24), (28, 24), (52, 8)],
                _ => &[],
            };
            for (k, (o, w)) in texts.iter().enumerate() {
                let text: Vec<u8> = match ctx {
                    1 => format!("{}_{}", NAMES[(pick + k) % 20], ["DEFAULT", "x", "2"][k % 3]).into_bytes(),
                    2 => c.iter().cloned().filter(|b| *b != 0).chain(*b"_A").collect(),
                    _ => vec![],
                };
                let n = text.len().min(*w - 1);
                f[*o..*o + n].copy_from_slice(&text[..n]);
            }
            f[off..off + 4].copy_from_slice(c);
            if name == "Npl" {
                for t in 60..64 {
                    f[t] = 255; // tyres: NoChange
                }
            }
            let mut b = bytes::BytesMut::from(&f[..]);
            let r = guard(|| codec.decode(&mut b)).map_err(|p| Fail::new("c13:panic", format!("{name} {c:02x?}: {p}")))?;
            match (&want, r) {
                (Expect::Error, Err(_)) => {},
                (Expect::Error, Ok(p)) => fail!("c13:unknown-builtin-name-accepted", "{name}: {c:02x?} accepted as {p:?}"),
                (_, Err(e)) => fail!("c13:valid-id-rejected", "{name}: {c:02x?} rejected: {e}"),
                (w, Ok(Some(p))) => {
                    let d = format!("{p:?}");
                    let shown = match w {
                        Expect::Unknown => "cname: Unknown".to_string(),
                        Expect::Builtin(n) => format!("cname: {n}"),
                        Expect::Mod(id) => format!("cname: MOD({id:06X})"),
                        Expect::Error => unreachable!(),
                    };
                    ensure!(d.contains(&shown), "c13:packet-path-differs", "{name}: {c:02x?} expected `{shown}` in {d}");
                    let back = guard(|| codec.encode(&p)).map_err(|p| Fail::new("c13:panic", p))?.map_err(|e| Fail::new("c13:reencode-error", format!("{name}: {e}")))?;
                    ensure!(back[off..off + 4] == c[..], "c13:reencode-differs", "{name}: {c:02x?} -> {:02x?}", &back[off..off + 4]);
                },
                (_, Ok(None)) => fail!("harness:frame", "incomplete"),
            }
        }
        // IS_MAL: a list of mod ids - here every 4-byte value is a mod id (also all zeros and car-like names), and the frame
        // re-encodes to the identical bytes
        {
            let other = [c[0] ^ 0xFF, 0x02, 0x03, 0x04];
            let mut f = vec![16u8, 65, 0, 2, 0, 0, 0, 0];
            f.extend_from_slice(c);
            f.extend_from_slice(&other);
            let mut b = bytes::BytesMut::from(&f[..]);
            let r = guard(|| codec.decode(&mut b)).map_err(|p| Fail::new("c13:panic", format!("Mal {c:02x?}: {p}")))?;
            match r {
                Ok(Some(p)) => {
                    let d = format!("{p:?}");
                    let shown = format!("MOD({:06X})", u32::from_le_bytes(*c));
                    ensure!(d.contains(&shown), "c13:packet-path-differs", "Mal: {c:02x?} expected `{shown}` in {d}");
                    let back = guard(|| codec.encode(&p)).map_err(|p| Fail::new("c13:panic", format!("Mal {c:02x?}: re-encoding {d}: {p}")))?.map_err(|e| Fail::new("c13:reencode-error", format!("Mal: {e}")))?;
                    ensure!(back[..] == f[..], "c13:reencode-differs", "Mal: {} -> {}", hex(&f), hex(&back));
                },
                Ok(None) => fail!("harness:frame", "incomplete"),
                Err(e) => fail!("c13:valid-id-rejected", "Mal: {c:02x?} rejected: {e}"),
            }
        }
        if c[3] == 0 {
            ev.nontrivial(c);
        }
        ev.class(match want {
            Expect::Unknown => "unknown",
            Expect::Builtin(_) => "builtin",
            Expect::Error => "unrecognised-builtin-style-name",
            Expect::Mod(_) => "mod",
        });
        Ok(())
    }
    fn to_json(&self, c: &[u8; 4]) -> Value {
        json!({"bytes": hex(c)})
    }
    fn from_json(&self, v: &Value) -> Option<[u8; 4]> {
        unhex(v.get("bytes")?.as_str()?)?.try_into().ok()
    }
}


/// the identifier read through a reader that delivers its bytes piecewise must decode exactly as from a slice
pub struct Piecewise;
impl Part for Piecewise {
    type Case = [u8; 4];
    fn name(&self) -> &'static str {
        "piecewise-readers"
    }
    fn check(&self, b: &[u8; 4], ev: &mut Local) -> Result<(), Fail> {
        use insim_core::binrw::BinRead;
        use insim_core::vehicle::Vehicle;
        let bytes = [b[0], b[1], b[2], b[3], 0xAA, 0xBB];
        let whole = guard(|| {
            let mut c = std::io::Cursor::new(&bytes[..]);
            (Vehicle::read_le(&mut c).map(|t| format!("{t:?}")).map_err(|_| ()), c.position())
        })
        .map_err(|p| Fail::new("c13:panic", p))?;
        // four bytes have no byte order: the endianness argument of the public BinRead impl must not matter
        let be = guard(|| {
            let mut c = std::io::Cursor::new(&bytes[..]);
            (Vehicle::read_be(&mut c).map(|t| format!("{t:?}")).map_err(|_| ()), c.position())
        })
        .map_err(|p| Fail::new("c13:panic", p))?;
        ensure!(be.0 == whole.0, "c13:depends-on-the-endianness-argument", "identifier {:02x?}: read_le gives {:?}, read_be gives {:?}", b, whole.0, be.0);
        for pattern in [&[1usize][..], &[2], &[3], &[3, 1], &[1, 3]] {
            let got = guard(|| {
                let mut t = Trickle::new(&bytes[..], pattern);
                let r = Vehicle::read_le(&mut t).map(|t| format!("{t:?}")).map_err(|_| ());
                (r, t.inner.position())
            })
            .map_err(|p| Fail::new("c13:panic", p))?;
            ensure!(
                got.0 == whole.0 && (got.0.is_err() || got.1 == whole.1),
                "c13:depends-on-how-the-reader-delivers-bytes",
                "identifier {:02x?}: from a slice {:?} (position {}), from a reader delivering {pattern:?} bytes per call {:?} (position {})",
                b,
                whole.0,
                whole.1,
                got.0,
                got.1
            );
        }
        ev.nontrivial(b);
        Ok(())
    }
    fn to_json(&self, c: &[u8; 4]) -> Value {
        json!({"bytes": hex(c)})
    }
    fn from_json(&self, v: &Value) -> Option<[u8; 4]> {
        unhex(v.get("bytes")?.as_str()?)?.try_into().ok()
    }
}


/// "one-to-one": two identifiers are the same value exactly when their 4 bytes are the same. Equality, hashing and the
/// set-valued packets (MAL keeps its ids in a hash set) must follow the bytes: (x, x with one bit flipped / one byte changed).
pub struct Identity;
impl Part for Identity {
    type Case = ([u8; 4], [u8; 4]);
    fn name(&self) -> &'static str {
        "equality-follows-the-bytes"
    }
    fn check(&self, c: &([u8; 4], [u8; 4]), ev: &mut Local) -> Result<(), Fail> {
        use std::hash::{Hash, Hasher};
        let (Ok(a), Ok(b)) = (read_vehicle(c.0), read_vehicle(c.1)) else {
            ev.class("one of the two is not an identifier");
            return Ok(());
        };
        let same = c.0 == c.1;
        ensure!((a == b) == same, "c13:equality-does-not-follow-the-bytes", "{:02x?} decodes to {a:?}, {:02x?} to {b:?}: == says {}", c.0, c.1, a == b);
        if same {
            let h = |v: &insim_core::vehicle::Vehicle| {
                let mut s = std::collections::hash_map::DefaultHasher::new();
                v.hash(&mut s);
                s.finish()
            };
            ensure!(h(&a) == h(&b), "c13:equality-does-not-follow-the-bytes", "equal identifiers hash differently");
        }
        // both in one IS_MAL (mod ids only): the packet must keep two entries iff the bytes differ
        if let (insim_core::vehicle::Vehicle::Mod(_), insim_core::vehicle::Vehicle::Mod(_)) = (&a, &b) {
            let mut m = insim::insim::Mal::default();
            let r1 = m.insert(a.clone());
            let r2 = m.insert(b.clone());
            ensure!(matches!(r1, Ok(true)) && matches!(r2, Ok(x) if x != same), "c13:equality-does-not-follow-the-bytes", "Mal::insert of {:02x?} then {:02x?} returned {r1:?}, {r2:?}", c.0, c.1);
            ensure!(m.len() == if same { 1 } else { 2 }, "c13:equality-does-not-follow-the-bytes", "a MAL built from {:02x?} and {:02x?} holds {} ids", c.0, c.1, m.len());
            let mut frame = vec![4u8, 65, 0, 2, 0, 0, 0, 0];
            frame.extend_from_slice(&c.0);
            frame.extend_from_slice(&c.1);
            let codec = insim::net::Codec::new(insim::net::Mode::Compressed);
            let mut buf = bytes::BytesMut::from(&frame[..]);
            if let Ok(Some(insim::Packet::Mal(d))) = codec.decode(&mut buf) {
                ensure!(same || d.len() == 2, "c13:equality-does-not-follow-the-bytes", "an IS_MAL frame carrying {:02x?} and {:02x?} decodes to {} ids", c.0, c.1, d.len());
            }
            ev.class("two mod ids in one MAL");
        }
        ev.nontrivial(c);
        Ok(())
    }
    fn to_json(&self, c: &([u8; 4], [u8; 4])) -> Value {
        json!({"a": hex(&c.0), "b": hex(&c.1)})
    }
    fn from_json(&self, v: &Value) -> Option<([u8; 4], [u8; 4])> {
        Some((unhex(v.get("a")?.as_str()?)?.try_into().ok()?, unhex(v.get("b")?.as_str()?)?.try_into().ok()?))
    }
}

pub fn parts() -> Vec<Box<dyn DynPart>> {
    vec![Box::new(Exhaustive), Box::new(Names), Box::new(ViaPackets), Box::new(Piecewise), Box::new(Identity)]
}

pub fn run(run: &mut Run) {
    run.claims_exhaustive = true;
    run.rule = "Complete enumeration of all 2^32 four-byte identifiers (both tiers), judged by a reference \
        classifier written from the InSim v9 rule and a name table transcribed from the specification; \
        non-trivial = byte 3 is NUL (built-in-shaped, zero, or a mod id whose top byte is 0), counted exactly. \
        A second part lists the 20 names with case/character neighbours; further parts send identifiers through SLC / NPL / RES frames in three surroundings and through IS_MAL (where every value is a mod id), through readers that deliver the 4 bytes piecewise, and compare equality / hashing / set membership of pairs of identifiers with their bytes."
        .into();
    run.assumptions = vec![
        "the 20 built-in car names are those listed in InSim.txt v9".into(),
        "variant identity is observed by pattern matching on the public enum".into(),
    ];
    // neighbours
    let mut cases: Vec<[u8; 4]> = vec![[0, 0, 0, 0]];
    for n in BUILTIN {
        let b = n.as_bytes();
        let base = [b[0], b[1], b[2], 0];
        cases.push(base);
        cases.push([b[0].to_ascii_lowercase(), b[1], b[2], 0]);
        cases.push([b[0], b[1], b[2].to_ascii_lowercase(), 0]);
        cases.push([b[0], b[1], b[2], 1]);
        cases.push([b[0], b[1], b[2], b' ']);
        cases.push([b[0], b[1], b[2].wrapping_add(1), 0]);
        cases.push([b[2], b[1], b[0], 0]);
        cases.push([0, b[0], b[1], b[2]]);
        cases.push([b[0], b[1], 0, 0]);
    }
    cases.sort();
    cases.dedup();
    run.list(&Names, "builtin-names-and-neighbours", cases.clone());
    run.list(&Piecewise, "piecewise-readers", cases.clone());
    run.list(&ViaPackets, "through-slc-npl-res-frames", cases);
    {
        use proptest::prelude::*;
        let alnum = prop::sample::select(b"ABCFGLMORTUXZ0123456789abxz".to_vec());
        let strat = prop_oneof![
            3 => (alnum.clone(), alnum.clone(), alnum, prop_oneof![4 => Just(0u8), 1 => any::<u8>()]).prop_map(|(a, b, c, d)| [a, b, c, d]),
            2 => any::<[u8; 4]>(),
            2 => (any::<[u8; 3]>(), Just(0u8)).prop_map(|(x, d)| [x[0], x[1], x[2], d]),
            1 => (0x80u8..=0xff, 0x80u8..=0xff, 0x80u8..=0xff).prop_map(|(a, b, c)| [a, b, c, 0]),
        ];
        let n = run.budget(150_000, 5_000_000);
        run.prop(&ViaPackets, strat, n);
    }
    // identity: every listed / random identifier against itself, every single-bit neighbour and every single-byte neighbour
    {
        use proptest::prelude::*;
        let mut pairs: Vec<([u8; 4], [u8; 4])> = vec![];
        let mut seeds: Vec<[u8; 4]> = vec![[0xEF, 0xCD, 0xAB, 0x01], [0, 0, 0, 0], [b'X', b'R', b'T', 0], [0xFF; 4], [1, 0, 0, 0], [0, 0, 0, 0x80], [b'A', b'7', 0x9c, 0]];
        seeds.extend((0..40u32).map(|i| (i.wrapping_mul(0x9E37_79B9) | 0x0100_0000).to_le_bytes()));
        for s in &seeds {
            pairs.push((*s, *s));
            for bit in 0..32 {
                let v = u32::from_le_bytes(*s) ^ (1 << bit);
                pairs.push((*s, v.to_le_bytes()));
            }
            for pos in 0..4 {
                for val in [0u8, 1, 0x7f, 0x80, 0xff] {
                    let mut o = *s;
                    o[pos] = val;
                    pairs.push((*s, o));
                }
            }
        }
        run.list(&Identity, "equality-follows-the-bytes", pairs);
        let strat = (any::<[u8; 4]>(), 0u32..32, any::<bool>()).prop_map(|(a, bit, same)| {
            let b = if same { a } else { (u32::from_le_bytes(a) ^ (1 << bit)).to_le_bytes() };
            (a, b)
        });
        let n = run.budget(100_000, 3_000_000);
        run.prop(&Identity, strat, n);
    }
    run.enumerate(&Exhaustive, 65536, true, |i| Some(Case::Block(i as u16)));
}
