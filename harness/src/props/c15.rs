//! C15 — time and race-length conversions are exact, or refused - never wrong.

use std::time::Duration;

use insim::insim::RaceLaps;
use insim::net::Mode;
use proptest::prelude::*;
use serde_json::{json, Value};

use crate::engine::*;
use crate::refs::build::{self, DURATION_FIELDS, RACELAPS_FIELDS};
use crate::refs::compare::*;
use crate::refs::dbgtree;
use crate::refs::image;
use crate::refs::spec::{coverage_problem, spec, Field, Kind};

/// cross-check build::DURATION_FIELDS against the specification table (harness self-check)
fn spec_durations() -> Vec<(String, String, usize, u64, usize)> {
    fn walk(fields: &[Field], base: usize, prefix: &str, variant: &str, out: &mut Vec<(String, String, usize, u64, usize)>) {
        for f in fields {
            let path = if prefix.is_empty() { f.path.clone() } else { format!("{prefix}.{}", f.path) };
            match &f.kind {
                Kind::Dur { bytes, scale } => out.push((variant.to_string(), path, *bytes, *scale, base + f.off)),
                Kind::Struct { fields } => walk(fields, base + f.off, &path, variant, out),
                _ => {},
            }
        }
    }
    let mut out = vec![];
    for p in &spec().packets {
        walk(&p.fields, 0, "", &p.variant, &mut out);
    }
    out
}

fn base_frame(variant: &str, mode: &Mode) -> Vec<u8> {
    image::one_hot(spec().packet(variant).unwrap(), mode, None).image
}

fn small_subtype(path: &str) -> u8 {
    match path {
        "Ssp" => 1,
        "Ssg" => 2,
        "Stp" => 5,
        "Rtp" => 6,
        _ => 7,
    }
}

fn read_wire(frame: &[u8], off: usize, width: usize) -> u64 {
    let mut b = [0u8; 8];
    b[..width].copy_from_slice(&frame[off..off + width]);
    u64::from_le_bytes(b)
}

// ------------------------------------------------------------------------ decode side
#[derive(Clone, Debug)]
pub enum WireCase {
    /// all 65536 values of a 16-bit field
    All16 { field: usize, compressed: bool },
    One { field: usize, compressed: bool, wire: u64 },
}

fn judge_wire(field: usize, compressed: bool, w: u64) -> Result<(), Fail> {
    let (variant, path, width, scale, off) = DURATION_FIELDS[field];
    let mode = if compressed { Mode::Compressed } else { Mode::Uncompressed };
    let name = format!("{variant}.{path}");
    let mut frame = base_frame(variant, &mode);
    frame[off..off + width].copy_from_slice(&w.to_le_bytes()[..width]);
    if variant == "Small" {
        frame[3] = small_subtype(path);
    }
    let pkt = decode_one(&frame, &mode).map_err(|e| Fail::new(format!("c15:wire-value-rejected:{name}"), format!("{name} wire {w}: {e}")))?;
    let want = Duration::from_millis(w * scale);
    let tree = dbgtree::parse(&format!("{pkt:?}")).map_err(|e| Fail::new("harness:debug-parse", e))?;
    let got = if variant == "Small" {
        tree.get("subt").map(|n| n.text())
    } else {
        tree.get(path).map(|n| n.text())
    }
    .ok_or_else(|| Fail::new("harness:path-missing", name.clone()))?;
    let want_text = if variant == "Small" { format!("{path}({want:?})") } else { format!("{want:?}") };
    ensure!(got == want_text, format!("c15:decoded-duration-wrong:{name}"), "{name}: wire {w} (x{scale} ms) decodes to {got}, expected {want_text}");
    let back = encode_one(&pkt, &mode).map_err(|e| Fail::new(format!("c15:decoded-value-not-encodable:{name}"), format!("{name}: wire {w} -> {got}: {e}")))?;
    let w2 = read_wire(&back, off, width);
    ensure!(w2 == w && back == frame, format!("c15:wire-value-does-not-roundtrip:{name}"), "{name}: wire {w} -> {got} -> wire {w2}");
    Ok(())
}

pub struct DecodeSide;
impl Part for DecodeSide {
    type Case = WireCase;
    fn name(&self) -> &'static str {
        "wire-values"
    }
    fn check(&self, c: &WireCase, ev: &mut Local) -> Result<(), Fail> {
        match c {
            WireCase::One { field, compressed, wire } => {
                judge_wire(*field, *compressed, *wire)?;
                if *wire > 1 {
                    ev.nontrivial(&(field, wire));
                }
                ev.class(&format!("{}.{}", DURATION_FIELDS[*field].0, DURATION_FIELDS[*field].1));
                Ok(())
            },
            WireCase::All16 { field, compressed } => {
                for w in 0..=0xffffu64 {
                    if let Err(f) = judge_wire(*field, *compressed, w) {
                        return Err(f.with_case(json!({"field": format!("{}.{}", DURATION_FIELDS[*field].0, DURATION_FIELDS[*field].1), "compressed": compressed, "wire": w})));
                    }
                }
                ev.add_evals(0xffff);
                ev.add_nontrivial_distinct(0xfffe);
                ev.class(&format!("{}.{}", DURATION_FIELDS[*field].0, DURATION_FIELDS[*field].1));
                ev.sample(|| json!({"field": format!("{}.{}", DURATION_FIELDS[*field].0, DURATION_FIELDS[*field].1), "values": 65536}));
                Ok(())
            },
        }
    }
    fn to_json(&self, c: &WireCase) -> Value {
        match c {
            WireCase::All16 { field, compressed } => json!({"field": format!("{}.{}", DURATION_FIELDS[*field].0, DURATION_FIELDS[*field].1), "compressed": compressed}),
            WireCase::One { field, compressed, wire } => json!({"field": format!("{}.{}", DURATION_FIELDS[*field].0, DURATION_FIELDS[*field].1), "compressed": compressed, "wire": wire}),
        }
    }
    fn from_json(&self, v: &Value) -> Option<WireCase> {
        let f = v.get("field")?.as_str()?;
        let field = DURATION_FIELDS.iter().position(|d| format!("{}.{}", d.0, d.1) == f)?;
        let compressed = v.get("compressed")?.as_bool()?;
        Some(match v.get("wire").and_then(|w| w.as_u64()) {
            Some(wire) => WireCase::One { field, compressed, wire },
            None => WireCase::All16 { field, compressed },
        })
    }
}

// ------------------------------------------------------------------------ encode side
#[derive(Clone, Debug)]
pub struct DurCase {
    pub field: usize,
    pub secs: u64,
    pub nanos: u32,
}

pub struct EncodeSide;
impl Part for EncodeSide {
    type Case = DurCase;
    fn name(&self) -> &'static str {
        "durations"
    }
    fn check(&self, c: &DurCase, ev: &mut Local) -> Result<(), Fail> {
        let (variant, path, width, scale, off) = DURATION_FIELDS[c.field];
        let name = format!("{variant}.{path}");
        let d = Duration::new(c.secs, c.nanos % 1_000_000_000);
        let mode = Mode::Compressed;
        let p = build::duration_packet(variant, path, d).ok_or_else(|| Fail::new("harness:builder", name.clone()))?;
        let units: u128 = d.as_millis() / scale as u128;
        let max: u128 = if width == 2 { 0xffff } else { 0xffff_ffff };
        let fits = units <= max;
        match encode_one(&p, &mode) {
            Ok(frame) => {
                let w = read_wire(&frame, off, width) as u128;
                if !fits {
                    fail!(
                        format!("c15:out-of-range-duration-silently-encoded:{name}"),
                        "{name}: {d:?} = {units} units does not fit {width} bytes, but was encoded as {w} (= {:?})",
                        Duration::from_millis(w as u64 * scale)
                    );
                }
                ensure!(w == units, format!("c15:duration-not-floored-to-resolution:{name}"), "{name}: {d:?} encoded as {w} units of {scale} ms, expected floor = {units}");
                ev.class("encoded");
            },
            Err(e) => {
                ensure!(!fits, format!("c15:in-range-duration-refused:{name}"), "{name}: {d:?} = {units} units fits but was refused: {e}");
                ev.class("refused-out-of-range");
            },
        }
        let near_edge = units + 2 >= max || !fits;
        let sub_resolution = d.as_nanos() % (scale as u128 * 1_000_000) != 0;
        if units > 1 && (near_edge || sub_resolution) {
            ev.nontrivial(&(c.field, c.secs, c.nanos));
        }
        ev.class(&name);
        if ev.wants_sample() && near_edge {
            ev.sample(|| json!({"field": name, "duration": format!("{d:?}"), "units": units.to_string(), "fits": fits}));
        }
        Ok(())
    }
    fn to_json(&self, c: &DurCase) -> Value {
        json!({"field": format!("{}.{}", DURATION_FIELDS[c.field].0, DURATION_FIELDS[c.field].1), "secs": c.secs, "nanos": c.nanos})
    }
    fn from_json(&self, v: &Value) -> Option<DurCase> {
        let f = v.get("field")?.as_str()?;
        let field = DURATION_FIELDS.iter().position(|d| format!("{}.{}", d.0, d.1) == f)?;
        Some(DurCase { field, secs: v.get("secs")?.as_u64()?, nanos: v.get("nanos")?.as_u64()? as u32 })
    }
}


// ------------------------------------------------------------------------ wire values next to bytes of any value
/// "exact, or refused - never wrong" also when the rest of the frame is not what LFS would send: the other bytes of the frame
/// hold anything (unknown enumeration values, set spare bytes). Either the frame is refused, or the time field decodes to
/// exactly its wire value and is written back as the same bytes.
#[derive(Clone, Debug)]
pub struct NoiseCase {
    pub field: usize,
    pub compressed: bool,
    pub wire: u64,
    pub tape: Vec<u8>,
    /// (position, value) pairs written over the image (positions are taken modulo the frame length; size, type and the time
    /// field itself are left alone)
    pub noise: Vec<(u16, u8)>,
}

pub struct WireInNoise;
impl Part for WireInNoise {
    type Case = NoiseCase;
    fn name(&self) -> &'static str {
        "wire-values-next-to-arbitrary-bytes"
    }
    fn check(&self, c: &NoiseCase, ev: &mut Local) -> Result<(), Fail> {
        let (variant, path, width, scale, off) = DURATION_FIELDS[c.field];
        if variant == "Small" {
            return Ok(());
        }
        let name = format!("{variant}.{path}");
        let mode = if c.compressed { Mode::Compressed } else { Mode::Uncompressed };
        let mut frame = image::from_tape(spec().packet(variant).unwrap(), &mode, &c.tape, false).image;
        let len = frame.len();
        for (p, v) in &c.noise {
            let p = *p as usize % len;
            if p >= 2 && !(off..off + width).contains(&p) {
                frame[p] = *v;
            }
        }
        let w = c.wire & if width == 2 { 0xffff } else { 0xffff_ffff };
        frame[off..off + width].copy_from_slice(&w.to_le_bytes()[..width]);
        let Ok(pkt) = decode_one(&frame, &mode) else {
            ev.class("refused");
            return Ok(());
        };
        if crate::props::c03::kind_of(&pkt) != variant {
            return Ok(());
        }
        let want = format!("{:?}", Duration::from_millis(w * scale));
        let tree = dbgtree::parse(&format!("{pkt:?}")).map_err(|e| Fail::new("harness:debug-parse", e))?;
        let got = tree.get(path).map(|n| n.text()).ok_or_else(|| Fail::new("harness:path-missing", name.clone()))?;
        ensure!(
            got == want,
            format!("c15:decoded-duration-wrong:{name}"),
            "{name} ({}): frame {} - wire value {w} (x{scale} ms) - is accepted and decodes to {got}, expected {want}",
            mode_name(&mode),
            hex(&frame[..frame.len().min(64)])
        );
        if let Ok(back) = encode_one(&pkt, &mode) {
            if back.len() >= off + width {
                let w2 = read_wire(&back, off, width);
                ensure!(w2 == w, format!("c15:wire-value-does-not-roundtrip:{name}"), "{name} ({}): frame {}: wire {w} -> {got} -> wire {w2}", mode_name(&mode), hex(&frame[..frame.len().min(64)]));
            }
        }
        ev.class("accepted");
        ev.class(&name);
        ev.nontrivial(&(c.field, c.compressed, c.wire, &c.tape, &c.noise));
        Ok(())
    }
    fn to_json(&self, c: &NoiseCase) -> Value {
        json!({"field": format!("{}.{}", DURATION_FIELDS[c.field].0, DURATION_FIELDS[c.field].1), "compressed": c.compressed, "wire": c.wire, "tape": hex(&c.tape), "noise": c.noise.iter().map(|(p, v)| json!([p, v])).collect::<Vec<_>>()})
    }
    fn from_json(&self, v: &Value) -> Option<NoiseCase> {
        let f = v.get("field")?.as_str()?;
        let field = DURATION_FIELDS.iter().position(|d| format!("{}.{}", d.0, d.1) == f)?;
        let noise = v.get("noise")?.as_array()?.iter().map(|x| Some((x.get(0)?.as_u64()? as u16, x.get(1)?.as_u64()? as u8))).collect::<Option<Vec<_>>>()?;
        Some(NoiseCase { field, compressed: v.get("compressed")?.as_bool()?, wire: v.get("wire")?.as_u64()?, tape: unhex(v.get("tape")?.as_str()?)?, noise })
    }
}

fn noise_strategy() -> impl Strategy<Value = NoiseCase> {
    let wire = prop_oneof![2 => 0u64..4, 2 => any::<u16>().prop_map(|x| x as u64), 2 => any::<u32>().prop_map(|x| x as u64), 1 => Just(0xffffu64), 1 => Just(0xffff_ffffu64), 1 => Just(0x100u64), 1 => Just(0x0001_0000u64)];
    let value = prop_oneof![3 => any::<u8>(), 2 => 1u8..12, 1 => Just(0xffu8), 1 => Just(0x80u8)];
    (0..DURATION_FIELDS.len(), any::<bool>(), wire, proptest::collection::vec(any::<u8>(), 0..120), proptest::collection::vec((any::<u16>(), value), 1..6))
        .prop_map(|(field, compressed, wire, tape, noise)| NoiseCase { field, compressed, wire, tape, noise })
}

// ------------------------------------------------------------------------ the same conversions in other surroundings
/// The conversion of a time field must not depend on what the packet's other fields hold: the packet is obtained by decoding
/// a generated frame of its kind (every other field drawn freely), the duration is set on it, and the encoded frame must
/// differ from the frame it was decoded from in the bytes of the time field only, which hold floor(d / resolution) - or the
/// packet is refused because the duration does not fit.
#[derive(Clone, Debug)]
pub struct SurroundCase {
    pub dur: DurCase,
    pub compressed: bool,
    pub tape: Vec<u8>,
}

pub struct InSurroundings;
impl Part for InSurroundings {
    type Case = SurroundCase;
    fn name(&self) -> &'static str {
        "durations-in-other-surroundings"
    }
    fn check(&self, c: &SurroundCase, ev: &mut Local) -> Result<(), Fail> {
        let (variant, path, width, scale, off) = DURATION_FIELDS[c.dur.field];
        let name = format!("{variant}.{path}");
        let d = Duration::new(c.dur.secs, c.dur.nanos % 1_000_000_000);
        let mode = if c.compressed { Mode::Compressed } else { Mode::Uncompressed };
        let mut frame = image::from_tape(spec().packet(variant).unwrap(), &mode, &c.tape, false).image;
        if variant == "Small" {
            frame[3] = small_subtype(path);
        }
        let Ok(base) = decode_one(&frame, &mode) else {
            ev.class("surroundings not decodable: skipped");
            return Ok(());
        };
        // the surroundings as the library itself writes them (with whatever the time field held before)
        let Ok(before) = encode_one(&base, &mode) else {
            ev.class("surroundings not encodable: skipped");
            return Ok(());
        };
        let p = build::duration_packet_in(base, path, d).ok_or_else(|| Fail::new("harness:builder", name.clone()))?;
        let units: u128 = d.as_millis() / scale as u128;
        let max: u128 = if width == 2 { 0xffff } else { 0xffff_ffff };
        let fits = units <= max;
        match encode_one(&p, &mode) {
            Ok(after) => {
                ensure!(fits, format!("c15:out-of-range-duration-silently-encoded:{name}"), "{name} ({}): {d:?} = {units} units does not fit {width} bytes, but was encoded as {}; surroundings {}", mode_name(&mode), read_wire(&after, off, width), hex(&before[..before.len().min(48)]));
                let w = read_wire(&after, off, width) as u128;
                ensure!(
                    w == units,
                    format!("c15:duration-not-floored-to-resolution:{name}"),
                    "{name} ({}): {d:?} encoded as {w} units of {scale} ms, expected floor = {units}; the packet's other fields: {}",
                    mode_name(&mode),
                    hex(&before[..before.len().min(48)])
                );
                let mut expect = before.clone();
                expect[off..off + width].copy_from_slice(&(units as u64).to_le_bytes()[..width]);
                ensure!(after == expect, format!("c15:setting-a-duration-changes-other-bytes:{name}"), "{name} ({}): setting {d:?} turned {} into {}", mode_name(&mode), hex(&before[..before.len().min(64)]), hex(&after[..after.len().min(64)]));
                ev.class("encoded");
            },
            Err(e) => {
                ensure!(!fits, format!("c15:in-range-duration-refused:{name}"), "{name} ({}): {d:?} = {units} units fits but was refused: {e}; the packet's other fields: {}", mode_name(&mode), hex(&before[..before.len().min(48)]));
                ev.class("refused-out-of-range");
            },
        }
        if before.iter().enumerate().filter(|(i, b)| **b != 0 && *i > 3 && !(off..off + width).contains(i)).count() > 0 {
            ev.nontrivial(&(c.dur.field, c.dur.secs, c.dur.nanos, &c.tape));
        }
        ev.class(&name);
        Ok(())
    }
    fn to_json(&self, c: &SurroundCase) -> Value {
        json!({"dur": EncodeSide.to_json(&c.dur), "compressed": c.compressed, "tape": hex(&c.tape)})
    }
    fn from_json(&self, v: &Value) -> Option<SurroundCase> {
        Some(SurroundCase { dur: EncodeSide.from_json(v.get("dur")?)?, compressed: v.get("compressed")?.as_bool()?, tape: unhex(v.get("tape")?.as_str()?)? })
    }
}

fn surround_strategy() -> impl Strategy<Value = SurroundCase> {
    ((any::<u8>(), duration_strategy(), wrap_strategy()).prop_map(|(k, a, b)| if k % 4 == 0 { b } else { a }), any::<bool>(), proptest::collection::vec(any::<u8>(), 0..200)).prop_map(|(dur, compressed, tape)| SurroundCase { dur, compressed, tape })
}

/// durations that a narrowing conversion would wrap into the valid range: (k * 2^W + r) counted in nanoseconds, microseconds,
/// milliseconds, field units or seconds, for the integer widths W a conversion might pass through
fn wrap_strategy() -> impl Strategy<Value = DurCase> {
    (0..DURATION_FIELDS.len(), prop::sample::select(vec![8u32, 16, 31, 32, 63, 64]), 0usize..5, prop_oneof![Just(1u128), 1u128..4, 1u128..1000], prop_oneof![0u128..4, 0u128..70_000, any::<u32>().prop_map(|x| x as u128)]).prop_map(
        |(field, w, unit, k, r)| {
            let (_, _, _, scale, _) = DURATION_FIELDS[field];
            let unit_ns: u128 = match unit {
                0 => 1,
                1 => 1_000,
                2 => 1_000_000,
                3 => scale as u128 * 1_000_000,
                _ => 1_000_000_000,
            };
            let total = (k << w).saturating_add(r).saturating_mul(unit_ns);
            let max = u64::MAX as u128 * 1_000_000_000 + 999_999_999;
            let total = total.min(max);
            DurCase { field, secs: (total / 1_000_000_000) as u64, nanos: (total % 1_000_000_000) as u32 }
        },
    )
}

fn duration_strategy() -> impl Strategy<Value = DurCase> {
    (0..DURATION_FIELDS.len(), 0usize..10, any::<u32>(), any::<u32>(), -3i64..4).prop_map(|(field, class, a, nanos, delta)| {
        let (_, _, width, scale, _) = DURATION_FIELDS[field];
        let max_units: u64 = if width == 2 { 0xffff } else { 0xffff_ffff };
        let edge_ms = max_units * scale;
        let (ms, nanos): (u64, u32) = match class {
            0 => (0, nanos % 2_000_000),
            1 => (a as u64 % 100_000, nanos % 1_000_000),
            2 => ((edge_ms as i64 + delta * scale as i64).max(0) as u64, nanos % 1_000_000),
            3 => ((edge_ms as i64 + delta).max(0) as u64, 0),
            4 => (edge_ms + scale, 0),
            5 => ((1u64 << 32) + (delta + 3) as u64, nanos % 1_000_000), // 2^32 ms
            6 => (u64::MAX / 2_000, 0),
            7 => (a as u64 * scale, 0),
            8 => (a as u64 * scale + (nanos as u64 % scale), nanos % 1_000_000),
            _ => (a as u64, nanos % 1_000_000),
        };
        DurCase { field, secs: ms / 1000, nanos: ((ms % 1000) as u32) * 1_000_000 + nanos % 1_000_000 }
    })
}

// ------------------------------------------------------------------------ race length
#[derive(Clone, Debug)]
pub enum LapsCase {
    Byte(usize, u8),
    Laps(usize, usize),
    Hours(usize, usize),
}

fn model_byte(rl: &LapsCase) -> u8 {
    match rl {
        LapsCase::Laps(_, n) => match *n {
            1..=99 => *n as u8,
            100..=1000 => ((n - 100) / 10 + 100) as u8,
            _ => 0,
        },
        LapsCase::Hours(_, h) => match *h {
            1..=48 => (*h + 190) as u8,
            _ => 0,
        },
        LapsCase::Byte(_, b) => *b,
    }
}

pub struct RaceLength;
impl Part for RaceLength {
    type Case = LapsCase;
    fn name(&self) -> &'static str {
        "race-length"
    }
    fn check(&self, c: &LapsCase, ev: &mut Local) -> Result<(), Fail> {
        let mode = Mode::Uncompressed;
        match c {
            LapsCase::Byte(which, b) => {
                let (variant, off) = RACELAPS_FIELDS[*which];
                let mut frame = base_frame(variant, &mode);
                frame[off] = *b;
                let pkt = decode_one(&frame, &mode).map_err(|e| Fail::new("c15:race-length-byte-rejected", format!("{variant}: byte {b}: {e}")))?;
                let tree = dbgtree::parse(&format!("{pkt:?}")).map_err(|e| Fail::new("harness:debug-parse", e))?;
                let got = tree.get("racelaps").map(|n| n.text()).unwrap_or_default();
                let want = match *b {
                    0 => "Practice".to_string(),
                    1..=99 => format!("Laps({b})"),
                    100..=190 => format!("Laps({})", (*b as usize - 100) * 10 + 100),
                    191..=238 => format!("Hours({})", *b as usize - 190),
                    _ => "Practice".to_string(),
                };
                ensure!(got == want, "c15:race-length-decoded-wrong", "{variant}: byte {b} decodes to {got}, expected {want}");
                let back = encode_one(&pkt, &mode).map_err(|e| Fail::new("c15:race-length-not-encodable", format!("{variant}: {got}: {e}")))?;
                let want_byte = if *b <= 238 { *b } else { 0 };
                ensure!(back[off] == want_byte, "c15:race-length-byte-does-not-roundtrip", "{variant}: byte {b} -> {got} -> byte {}", back[off]);
                ev.class(if *b <= 238 { "defined-byte" } else { "undefined-byte" });
                ev.nontrivial(&(which, b));
            },
            LapsCase::Laps(which, _) | LapsCase::Hours(which, _) => {
                let (variant, off) = RACELAPS_FIELDS[*which];
                let rl = match c {
                    LapsCase::Laps(_, n) => RaceLaps::Laps(*n),
                    LapsCase::Hours(_, n) => RaceLaps::Hours(*n),
                    _ => unreachable!(),
                };
                let p = build::racelaps_packet(variant, rl).unwrap();
                let want = model_byte(c);
                match encode_one(&p, &mode) {
                    Ok(frame) => {
                        ensure!(
                            frame[off] == want,
                            if want == 0 { "c15:out-of-range-race-length-silently-encoded" } else { "c15:race-length-encoded-wrong" },
                            "{variant}: {rl:?} encoded as byte {} (= {:?}), expected {want}",
                            frame[off],
                            RaceLaps::from(frame[off])
                        );
                        ev.class(if want == 0 { "fallback-practice" } else { "encoded" });
                    },
                    Err(e) => {
                        ensure!(want == 0, "c15:in-range-race-length-refused", "{variant}: {rl:?} refused: {e}");
                        ev.class("refused");
                    },
                }
                ev.nontrivial(&format!("{c:?}"));
                if ev.wants_sample() && want == 0 {
                    ev.sample(|| json!({"packet": variant, "value": format!("{rl:?}"), "wire": want}));
                }
            },
        }
        Ok(())
    }
    fn to_json(&self, c: &LapsCase) -> Value {
        match c {
            LapsCase::Byte(w, b) => json!({"packet": RACELAPS_FIELDS[*w].0, "byte": b}),
            LapsCase::Laps(w, n) => json!({"packet": RACELAPS_FIELDS[*w].0, "laps": n.to_string()}),
            LapsCase::Hours(w, n) => json!({"packet": RACELAPS_FIELDS[*w].0, "hours": n.to_string()}),
        }
    }
    fn from_json(&self, v: &Value) -> Option<LapsCase> {
        let w = RACELAPS_FIELDS.iter().position(|f| f.0 == v.get("packet").and_then(|p| p.as_str()).unwrap_or(""))?;
        if let Some(b) = v.get("byte").and_then(|b| b.as_u64()) {
            return Some(LapsCase::Byte(w, b as u8));
        }
        if let Some(n) = v.get("laps").and_then(|b| b.as_str()) {
            return Some(LapsCase::Laps(w, n.parse().ok()?));
        }
        Some(LapsCase::Hours(w, v.get("hours")?.as_str()?.parse().ok()?))
    }
}

pub fn parts() -> Vec<Box<dyn DynPart>> {
    vec![Box::new(DecodeSide), Box::new(WireInNoise), Box::new(EncodeSide), Box::new(InSurroundings), Box::new(RaceLength)]
}

pub fn run(run: &mut Run) {
    if let Some(p) = coverage_problem() {
        eprintln!("HARNESS OUT OF DATE: {p}");
        std::process::exit(2);
    }
    // self-check: the duration field list must be the specification table's
    let sd = spec_durations();
    for (v, p, w, s, o) in DURATION_FIELDS.iter().filter(|d| d.0 != "Small") {
        if !sd.iter().any(|x| x.0 == *v && x.1 == *p && x.2 == *w && x.3 == *s && x.4 == *o) {
            eprintln!("HARNESS ERROR: duration field {v}.{p} disagrees with spec/insim9.spec");
            std::process::exit(2);
        }
    }
    if sd.len() != DURATION_FIELDS.iter().filter(|d| d.0 != "Small").count() {
        eprintln!("HARNESS ERROR: spec/insim9.spec has {} duration fields, the harness knows {}", sd.len(), DURATION_FIELDS.len() - 5);
        std::process::exit(2);
    }
    run.rule = "Decode side: every wire value w of each time field must decode to w x scale ms and re-encode to w (complete for the five 16-bit \
        fields x 2 modes; boundary-biased samples for the 18 32-bit fields incl. the IS_SMALL sub-types). Encode side: a Duration d must be \
        written as floor(d / resolution) when that fits the field and refused otherwise - generated around 0, exact multiples, \
        sub-resolution parts, max, max+1 unit, 2^32 ms, huge. Race length: all 256 bytes x {STA, RST} (complete); Laps(n) / Hours(n) for \
        n in 0..=2000 and usize boundaries against the reference mapping (1-99, 100-1000 floored to the 10-lap grid, 1-48 hours, else \
        practice or an error). Non-trivial = value > 1 unit and (encode side) within 2 units of the range edge, beyond it, or not a \
        multiple of the resolution. Further parts: the same conversions on packets whose other fields hold generated values (only the field's bytes may change), and wire values in frames whose other bytes hold anything (refused, or decoded to exactly the wire value and written back unchanged)."
        .into();
    run.assumptions = vec!["field offsets, widths and scales come from spec/insim9.spec; SMALL_SSP/SSG use the crate's 10 ms scale (unit not pinned down by InSim.txt)".into()];
    // decode side, complete for 16-bit fields
    let mut cases = vec![];
    for (i, d) in DURATION_FIELDS.iter().enumerate() {
        if d.2 == 2 {
            for compressed in [false, true] {
                cases.push(WireCase::All16 { field: i, compressed });
            }
        }
    }
    let n = cases.len() as u64;
    run.enumerate(&DecodeSide, n, true, |i| Some(cases[i as usize].clone()));
    // 32-bit fields: boundary-biased
    let four: Vec<usize> = (0..DURATION_FIELDS.len()).filter(|i| DURATION_FIELDS[*i].2 == 4).collect();
    let wire32 = (0..four.len(), any::<bool>(), 0usize..8, any::<u32>(), 0u32..4).prop_filter_map("32-bit fields", move |(field, compressed, class, r, d)| {
        let field = four[field];
        let wire = match class {
            0 => d as u64,
            1 => 0xffff_ffff - d as u64,
            2 => 0x1999_9999 + d as u64,
            3 => 0x7fff_ffff + d as u64,
            4 => (1u64 << (r % 32)) + d as u64,
            5 => 429_496_729 + d as u64,
            _ => r as u64,
        }
        .min(0xffff_ffff);
        Some(WireCase::One { field, compressed, wire })
    });
    let n = run.budget(200_000, 10_000_000);
    run.prop(&DecodeSide, wire32, n);
    // 32-bit fields: every "round" wire value a special case might be keyed on (whole seconds up to 2 h, whole minutes up to a
    // day, whole hours, the same in hundredths, powers of ten and two, the ends of the range), each with its two neighbours
    let mut round: Vec<u64> = vec![];
    for k in 0..=7200u64 {
        round.push(k * 1000);
        round.push(k * 100);
    }
    for k in 0..=1440u64 {
        round.push(k * 60_000);
        round.push(k * 6_000);
    }
    for k in 0..=1193u64 {
        round.push(k * 3_600_000);
        round.push(k * 360_000);
    }
    for e in 0..=9u32 {
        round.push(10u64.pow(e));
    }
    for e in 0..=32u32 {
        round.push(1u64 << e);
    }
    let mut with_neighbours: Vec<u64> = round.iter().flat_map(|v| [v.saturating_sub(1), *v, v + 1]).filter(|v| *v <= 0xffff_ffff).collect();
    with_neighbours.sort();
    with_neighbours.dedup();
    let four: Vec<usize> = (0..DURATION_FIELDS.len()).filter(|i| DURATION_FIELDS[*i].2 == 4).collect();
    let per = with_neighbours.len() as u64;
    let total = per * four.len() as u64;
    run.enumerate(&DecodeSide, total, false, |i| Some(WireCase::One { field: four[(i / per) as usize], compressed: i % 2 == 0, wire: with_neighbours[(i % per) as usize] }));
    // decode side, the rest of the frame holding anything
    let n = run.budget(300_000, 10_000_000);
    run.prop(&WireInNoise, noise_strategy(), n);
    // encode side
    let n = run.budget(300_000, 10_000_000);
    run.prop(&EncodeSide, duration_strategy(), n);
    // encode side: values that a narrowing step (u128 -> u64 -> u32 -> u16 ...) would wrap into the valid range
    let n = run.budget(150_000, 5_000_000);
    run.prop(&EncodeSide, wrap_strategy(), n);
    // encode side: the same, with every other field of the packet drawn freely
    let n = run.budget(150_000, 5_000_000);
    run.prop(&InSurroundings, surround_strategy(), n);
    // race length
    let mut rl = vec![];
    for w in 0..RACELAPS_FIELDS.len() {
        for b in 0..=255u8 {
            rl.push(LapsCase::Byte(w, b));
        }
        for n in (0..=2000usize).chain([usize::MAX, usize::MAX - 190, usize::MAX / 2, 1 << 32, (1 << 32) + 5, 65536 + 7, 256 + 1, 256 + 191]) {
            rl.push(LapsCase::Laps(w, n));
            rl.push(LapsCase::Hours(w, n));
        }
    }
    // every value that a narrowing step would wrap into a valid byte: k * 2^W + r for the widths a conversion may pass through
    for w in 0..RACELAPS_FIELDS.len() {
        for width in [8u32, 16, 31, 32, 63] {
            for k in [1usize, 2, 3, 255] {
                for r in (0..=260usize).chain([1000, 1001, 65535]) {
                    let Some(base) = k.checked_shl(width) else { continue };
                    let Some(n) = base.checked_add(r) else { continue };
                    rl.push(LapsCase::Laps(w, n));
                    rl.push(LapsCase::Hours(w, n));
                    // ... and values that become valid after the offset (190) or the /10 step is applied first
                    rl.push(LapsCase::Hours(w, n.wrapping_sub(190)));
                    rl.push(LapsCase::Laps(w, n.saturating_mul(10).saturating_add(100)));
                }
            }
        }
    }
    let n = rl.len() as u64;
    run.enumerate(&RaceLength, n, true, |i| Some(rl[i as usize].clone()));
}
