//! C14 — track table coherence: code, wire bytes, flags and licence agree.

use std::collections::{BTreeMap, HashMap};
use std::io::Cursor;
use std::sync::OnceLock;

use insim_core::binrw::{BinRead, BinWrite};
use insim_core::track::Track;
use proptest::prelude::*;
use serde_json::{json, Value};

use crate::engine::*;
use crate::generated::{track_by_variant, TRACK_VARIANTS};

pub fn read_track(b: &[u8; 6]) -> Result<Track, String> {
    let mut c = Cursor::new(&b[..]);
    Track::read_le(&mut c).map_err(|e| e.to_string())
}

pub fn write_track(t: &Track) -> Result<Vec<u8>, String> {
    let mut buf = [0u8; 16];
    let mut c = Cursor::new(&mut buf[..]);
    t.write_le(&mut c).map_err(|e| e.to_string())?;
    let n = c.position() as usize;
    Ok(buf[..n].to_vec())
}

/// expected short code = upper-cased variant name (variant list comes from the enum declaration)
fn expected_code(variant: &str) -> String {
    variant.to_ascii_uppercase()
}

fn expected_wire(variant: &str) -> [u8; 6] {
    let c = expected_code(variant);
    let mut w = [0u8; 6];
    w[..c.len()].copy_from_slice(c.as_bytes());
    w
}

fn wires() -> &'static HashMap<[u8; 6], &'static str> {
    static W: OnceLock<HashMap<[u8; 6], &'static str>> = OnceLock::new();
    W.get_or_init(|| TRACK_VARIANTS.iter().map(|v| (expected_wire(v), *v)).collect())
}

// ---------------------------------------------------------------------------------------

/// Part 1: every variant, all accessor tables.
pub struct Variants;
impl Part for Variants {
    type Case = String;
    fn name(&self) -> &'static str {
        "variants"
    }
    fn check(&self, v: &String, ev: &mut Local) -> Result<(), Fail> {
        let Some(t) = track_by_variant(v) else {
            fail!("harness:unknown-variant", "variant {v} not in the enum of this tree")
        };
        let code = expected_code(v);
        ensure!(code.len() <= 6, "harness:code-too-long", "{code}");
        let got_code = guard(|| t.code()).map_err(|p| Fail::new("c14:panic", p))?;
        ensure!(got_code == code, "c14:code-table", "{v}: code() = {got_code:?}, expected {code:?}");
        let shown = t.to_string();
        ensure!(shown == code, "c14:display", "{v}: Display = {shown:?}, expected {code:?}");
        let wire = expected_wire(v);
        let w = guard(|| write_track(&t))
            .map_err(|p| Fail::new("c14:panic", p))?
            .map_err(|e| Fail::new("c14:write-error", format!("{v}: {e}")))?;
        ensure!(w == wire, "c14:wire-table", "{v}: wire form {:02x?}, expected {:02x?}", w, wire);
        let back = guard(|| read_track(&wire)).map_err(|p| Fail::new("c14:panic", p))?;
        match back {
            Ok(b) => ensure!(b == t, "c14:read-table", "{v}: wire form decodes to {b:?}"),
            Err(e) => fail!("c14:read-table", "{v}: own wire form rejected: {e}"),
        }
        let last = code.chars().last().unwrap();
        let rev = matches!(last, 'R' | 'Y');
        let open = matches!(last, 'X' | 'Y');
        ensure!(t.is_reverse() == rev, "c14:reverse-table", "{v}: is_reverse() = {}", t.is_reverse());
        ensure!(t.is_open() == open, "c14:open-table", "{v}: is_open() = {}", t.is_open());
        if open {
            ensure!(
                t.distance_mile().is_none() && t.distance_km().is_none(),
                "c14:open-has-distance",
                "{v}: open configuration reports a lap distance {:?}",
                t.distance_mile()
            );
        }
        ev.class(match (rev, open) {
            (false, false) => "forward-closed",
            (true, false) => "reversed",
            (false, true) => "open",
            (true, true) => "open-reversed",
        });
        ev.nontrivial(v);
        ev.sample(|| json!({"variant": v, "code": code, "wire": hex(&wire), "license": format!("{:?}", t.license()), "mile": t.distance_mile()}));
        Ok(())
    }
    fn to_json(&self, c: &String) -> Value {
        json!({"variant": c})
    }
    fn from_json(&self, v: &Value) -> Option<String> {
        Some(v.get("variant")?.as_str()?.to_string())
    }
}

/// Part 2b: "no other 6-byte value decodes to it", judged with the library's own equality: the values decoded from the wire
/// forms of two different configurations are never equal (and each equals itself), in every ordered pair.
pub struct Distinct;
impl Part for Distinct {
    type Case = (String, String);
    fn name(&self) -> &'static str {
        "pairs-of-configurations-are-distinct"
    }
    fn check(&self, c: &(String, String), ev: &mut Local) -> Result<(), Fail> {
        let (a, b) = (&c.0, &c.1);
        let dec = |v: &String| -> Result<Track, Fail> {
            guard(|| read_track(&expected_wire(v))).map_err(|p| Fail::new("c14:panic", p))?.map_err(|e| Fail::new("c14:read-table", format!("{v}: own wire form rejected: {e}")))
        };
        let (ta, tb) = (dec(a)?, dec(b)?);
        #[allow(clippy::eq_op)]
        let reflexive = ta == ta.clone() && !(ta != ta.clone());
        ensure!(reflexive, "c14:equality", "{a}: the decoded value does not equal itself");
        if a == b {
            return Ok(());
        }
        let eq = guard(|| (ta == tb, ta != tb)).map_err(|p| Fail::new("c14:panic", p))?;
        ensure!(
            !eq.0 && eq.1,
            "c14:two-wire-values-one-configuration",
            "wire forms {:?} and {:?} decode to configurations that compare equal ({ta:?} == {tb:?}: {}, != : {}), although their codes are {:?} / {:?} and lap distances {:?} / {:?}",
            expected_code(a),
            expected_code(b),
            eq.0,
            eq.1,
            ta.code(),
            tb.code(),
            ta.distance_mile(),
            tb.distance_mile()
        );
        ev.nontrivial(c);
        ev.class(if expected_code(a)[..2] == expected_code(b)[..2] { "same area" } else { "different areas" });
        Ok(())
    }
    fn to_json(&self, c: &(String, String)) -> Value {
        json!({"a": c.0, "b": c.1})
    }
    fn from_json(&self, v: &Value) -> Option<(String, String)> {
        Some((v.get("a")?.as_str()?.to_string(), v.get("b")?.as_str()?.to_string()))
    }
}

/// Part 2: one licence per track area (first two letters of the code).
pub struct Licences;
impl Part for Licences {
    type Case = String; // area
    fn name(&self) -> &'static str {
        "licence-per-area"
    }
    fn check(&self, area: &String, ev: &mut Local) -> Result<(), Fail> {
        let mut seen: BTreeMap<String, Vec<&str>> = BTreeMap::new();
        for v in TRACK_VARIANTS {
            if expected_code(v).starts_with(area.as_str()) {
                let t = track_by_variant(v).unwrap();
                seen.entry(format!("{:?}", t.license())).or_default().push(v);
            }
        }
        ensure!(!seen.is_empty(), "harness:empty-area", "{area}");
        ensure!(
            seen.len() == 1,
            "c14:licence-differs-within-area",
            "area {area}: licences {:?}",
            seen
        );
        ev.nontrivial(area);
        ev.sample(|| json!({"area": area, "licence": seen.keys().next().unwrap(), "configs": seen.values().next().unwrap().len()}));
        Ok(())
    }
    fn to_json(&self, c: &String) -> Value {
        json!({"area": c})
    }
    fn from_json(&self, v: &Value) -> Option<String> {
        Some(v.get("area")?.as_str()?.to_string())
    }
}

/// Judge one 6-byte value: it decodes to a configuration iff it is that configuration's wire form.
fn judge_bytes(b: &[u8; 6]) -> Result<bool, Fail> {
    // six bytes have no byte order: the reader's endianness argument (a caller of the public BinRead impl picks one) must not
    // change what they decode to, nor what the value is written as
    let le = guard(|| Track::read_le(&mut Cursor::new(&b[..])).map_err(|_| ()));
    let be = guard(|| Track::read_be(&mut Cursor::new(&b[..])).map_err(|_| ()));
    if let (Ok(le), Ok(be)) = (&le, &be) {
        if le != be {
            return Err(Fail::new("c14:depends-on-the-endianness-argument", format!("{b:02x?} ({:?}): read_le gives {le:?}, read_be gives {be:?}", String::from_utf8_lossy(b))));
        }
        if let Ok(t) = le {
            let mut out = Cursor::new(Vec::new());
            if t.write_be(&mut out).is_ok() && out.get_ref()[..] != b[..] {
                return Err(Fail::new("c14:depends-on-the-endianness-argument", format!("{t:?} is written as {:02x?} with write_be, its wire form is {b:02x?}", out.get_ref())));
            }
        }
    }
    let want = wires().get(b).copied();
    let got = match guard(|| read_track(b)) {
        Ok(r) => r,
        Err(p) => {
            if want.is_some() {
                return Err(Fail::new("c14:panic", format!("{b:02x?}: {p}")));
            }
            // totality on foreign input is C04's business
            return Ok(false);
        },
    };
    match (want, got) {
        (None, Err(_)) => Ok(false),
        (None, Ok(t)) => Err(Fail::new(
            "c14:foreign-bytes-accepted",
            format!("{b:02x?} ({:?}) decodes to {t:?} whose wire form is different", String::from_utf8_lossy(b)),
        )),
        (Some(v), Err(e)) => Err(Fail::new("c14:read-table", format!("{v}: wire form rejected: {e}"))),
        (Some(v), Ok(t)) => {
            if Some(t.clone()) != track_by_variant(v) {
                return Err(Fail::new("c14:read-table", format!("wire form of {v} decodes to {t:?}")));
            }
            Ok(true)
        },
    }
}

const LETTERS: &[u8; 52] = b"ABCDEFGHIJKLMNOPQRSTUVWXYZabcdefghijklmnopqrstuvwxyz";

#[derive(Clone, Debug)]
pub enum BytesCase {
    /// all shaped strings starting with these two letters
    Prefix(u8, u8),
    One([u8; 6]),
}

/// Part 3: all strings `[A-Za-z]{2}[0-9]{1,2}[A-Za-z]?` NUL-padded to 6 (15.76 M), block-wise.
pub struct Shaped;
impl Shaped {
    fn tails() -> &'static Vec<[u8; 4]> {
        static T: OnceLock<Vec<[u8; 4]>> = OnceLock::new();
        T.get_or_init(|| {
            let mut v = vec![];
            for d1 in b'0'..=b'9' {
                // one digit, optional letter
                v.push([d1, 0, 0, 0]);
                for l in LETTERS {
                    v.push([d1, *l, 0, 0]);
                }
                for d2 in b'0'..=b'9' {
                    v.push([d1, d2, 0, 0]);
                    for l in LETTERS {
                        v.push([d1, d2, *l, 0]);
                    }
                }
            }
            v
        })
    }
}
impl Part for Shaped {
    type Case = BytesCase;
    fn name(&self) -> &'static str {
        "shaped-6-byte-strings"
    }
    fn check(&self, c: &BytesCase, ev: &mut Local) -> Result<(), Fail> {
        match c {
            BytesCase::One(b) => {
                if judge_bytes(b)? {
                    ev.nontrivial(b);
                }
                Ok(())
            },
            BytesCase::Prefix(a, b) => {
                let tails = Self::tails();
                let mut valid = 0u64;
                for t in tails {
                    let bytes = [*a, *b, t[0], t[1], t[2], t[3]];
                    match judge_bytes(&bytes) {
                        Ok(true) => valid += 1,
                        Ok(false) => {},
                        Err(f) => return Err(f.with_case(json!({"bytes": hex(&bytes)}))),
                    }
                }
                ev.add_evals(tails.len() as u64 - 1);
                // non-trivial: decodes to a configuration, or differs from a valid wire form only by case
                ev.add_nontrivial_distinct(valid);
                ev.class_n("decodes-to-configuration", valid);
                ev.class_n("rejected", tails.len() as u64 - valid);
                if valid > 0 {
                    ev.sample(|| json!({"prefix": format!("{}{}", *a as char, *b as char), "strings": tails.len(), "valid": valid}));
                }
                Ok(())
            },
        }
    }
    fn to_json(&self, c: &BytesCase) -> Value {
        match c {
            BytesCase::Prefix(a, b) => json!({"prefix": format!("{}{}", *a as char, *b as char)}),
            BytesCase::One(b) => json!({"bytes": hex(b)}),
        }
    }
    fn from_json(&self, v: &Value) -> Option<BytesCase> {
        if let Some(s) = v.get("bytes").and_then(|s| s.as_str()) {
            return Some(BytesCase::One(unhex(s)?.try_into().ok()?));
        }
        let p = v.get("prefix")?.as_str()?.as_bytes();
        Some(BytesCase::Prefix(p[0], p[1]))
    }
}

/// Part 4: valid wire forms with one byte perturbed (pad byte non-zero, case flipped, any byte replaced)
pub struct Perturbed;
impl Part for Perturbed {
    type Case = [u8; 6];
    fn name(&self) -> &'static str {
        "perturbed-wire-forms"
    }
    fn check(&self, b: &[u8; 6], ev: &mut Local) -> Result<(), Fail> {
        let is_wire = judge_bytes(b)?;
        ev.class(if is_wire { "hits-another-valid-form" } else { "rejected" });
        ev.nontrivial(b);
        ev.sample(|| json!({"bytes": hex(b), "text": String::from_utf8_lossy(b)}));
        Ok(())
    }
    fn to_json(&self, c: &[u8; 6]) -> Value {
        json!({"bytes": hex(c)})
    }
    fn from_json(&self, v: &Value) -> Option<[u8; 6]> {
        unhex(v.get("bytes")?.as_str()?)?.try_into().ok()
    }
}

/// Part 5: random 6-byte values (proptest), biased towards the alphabet the codes use.
pub struct Random;
impl Part for Random {
    type Case = [u8; 6];
    fn name(&self) -> &'static str {
        "random-6-bytes"
    }
    fn check(&self, b: &[u8; 6], ev: &mut Local) -> Result<(), Fail> {
        let is_wire = judge_bytes(b)?;
        ev.class(if is_wire { "valid-form" } else { "rejected" });
        if b.iter().filter(|x| x.is_ascii_alphanumeric()).count() >= 3 {
            ev.nontrivial(b);
        }
        ev.sample(|| json!({"bytes": hex(b)}));
        Ok(())
    }
    fn to_json(&self, c: &[u8; 6]) -> Value {
        json!({"bytes": hex(c)})
    }
    fn from_json(&self, v: &Value) -> Option<[u8; 6]> {
        unhex(v.get("bytes")?.as_str()?)?.try_into().ok()
    }
}


/// the same verdict when the 6 bytes travel inside packets (STA.track, RST.track, relay HOS element)
pub struct ViaPackets;
impl Part for ViaPackets {
    type Case = [u8; 6];
    fn name(&self) -> &'static str {
        "through-sta-rst-hos-frames"
    }
    fn check(&self, b: &[u8; 6], ev: &mut Local) -> Result<(), Fail> {
        use insim::net::{Codec, Mode};
        let want = wires().get(b).copied();
        let codec = Codec::new(Mode::Uncompressed);
        // (name, type, length, offset of the track field, surroundings: 0 = zeros, 1 = the host name next to it is a track code,
        // 2 = the other numeric fields are non-zero)
        for (name, ty, len, off, ctx) in [("Sta", 5u8, 28usize, 20usize, 0u8), ("Sta", 5, 28, 20, 2), ("Rst", 17, 28, 8, 0), ("Rst", 17, 28, 8, 2), ("RelayHos", 253, 44, 36, 0), ("RelayHos", 253, 44, 36, 1)] {
            let mut f = vec![0u8; len];
            f[0] = len as u8;
            f[1] = ty;
            if name == "RelayHos" {
                f[3] = 1;
            }
            if ctx == 1 {
                let other = TRACK_VARIANTS[(b[0] as usize * 5 + b[3] as usize) % TRACK_VARIANTS.len()].to_uppercase();
                f[4..4 + other.len()].copy_from_slice(other.as_bytes());
            }
            if ctx == 2 {
                match name {
                    // STA: replay speed 1.0, flags, in-game cam, view player, players / connections / finished, race in progress,
                    // qualifying minutes, laps byte
                    "Sta" => f[4..20].copy_from_slice(&[0, 0, 0x80, 0x3f, 1, 0, 3, 2, 5, 6, 1, 1, 10, 5, 0, 0]),
                    // RST: laps, qualifying minutes, players, timing, nodes, finish, splits
                    _ => {
                        f[4..8].copy_from_slice(&[5, 10, 12, 0x43]);
                        f[16..28].copy_from_slice(&[100, 1, 200, 0, 30, 0, 60, 0, 90, 0, 0xff, 0xff]);
                    },
                }
            }
            f[off..off + 6].copy_from_slice(b);
            let mut buf = bytes::BytesMut::from(&f[..]);
            let r = match guard(|| codec.decode(&mut buf)) {
                Ok(r) => r,
                Err(p) => {
                    if want.is_some() {
                        fail!("c14:panic", "{name}: {p}");
                    }
                    continue;
                },
            };
            match (want, r) {
                (None, Err(_)) => {},
                (None, Ok(p)) => fail!("c14:foreign-bytes-accepted", "{name}: track bytes {:02x?} accepted: {:?}", b, p.map(|p| format!("{p:?}").chars().take(160).collect::<String>())),
                (Some(v), Err(e)) => fail!("c14:read-table", "{name}: wire form of {v} rejected: {e}"),
                (Some(v), Ok(Some(p))) => {
                    let d = format!("{p:?}");
                    ensure!(d.contains(&format!("track: {v},")), "c14:read-table", "{name}: wire form of {v} decodes to {}", d.chars().take(200).collect::<String>());
                    let back = guard(|| codec.encode(&p)).map_err(|p| Fail::new("c14:panic", p))?.map_err(|e| Fail::new("c14:write-error", format!("{name}: {e}")))?;
                    ensure!(back[off..off + 6] == b[..], "c14:wire-table", "{name}: {v} re-encoded as {:02x?}", &back[off..off + 6]);
                },
                (Some(_), Ok(None)) => fail!("harness:frame", "incomplete"),
            }
        }
        ev.class(if want.is_some() { "valid-form" } else { "rejected" });
        ev.nontrivial(b);
        Ok(())
    }
    fn to_json(&self, c: &[u8; 6]) -> Value {
        json!({"bytes": hex(c)})
    }
    fn from_json(&self, v: &Value) -> Option<[u8; 6]> {
        unhex(v.get("bytes")?.as_str()?)?.try_into().ok()
    }
}


/// The track field read through a reader that delivers its bytes piecewise (a BufReader at a buffer boundary, a file, a pipe)
/// must decode exactly as from a slice.
pub struct Piecewise;
impl Part for Piecewise {
    type Case = [u8; 6];
    fn name(&self) -> &'static str {
        "piecewise-readers"
    }
    fn check(&self, b: &[u8; 6], ev: &mut Local) -> Result<(), Fail> {
        use insim_core::binrw::BinRead;
        use insim_core::track::Track;
        // the field followed by two more bytes, so that "reads too little / too much" shows in the position
        let bytes = [b[0], b[1], b[2], b[3], b[4], b[5], 0xAA, 0xBB];
        let whole = guard(|| {
            let mut c = std::io::Cursor::new(&bytes[..]);
            (Track::read_le(&mut c).map(|t| format!("{t:?}")).map_err(|_| ()), c.position())
        })
        .map_err(|p| Fail::new("c14:panic", p))?;
        for pattern in [&[1usize][..], &[2], &[3], &[4, 2], &[5, 1], &[1, 5]] {
            let got = guard(|| {
                let mut t = Trickle::new(&bytes[..], pattern);
                let r = Track::read_le(&mut t).map(|t| format!("{t:?}")).map_err(|_| ());
                (r, t.inner.position())
            })
            .map_err(|p| Fail::new("c14:panic", p))?;
            ensure!(
                got.0 == whole.0 && (got.0.is_err() || got.1 == whole.1),
                "c14:depends-on-how-the-reader-delivers-bytes",
                "track bytes {:02x?}: from a slice {:?} (position {}), from a reader delivering {pattern:?} bytes per call {:?} (position {})",
                b,
                whole.0,
                whole.1,
                got.0,
                got.1
            );
        }
        ev.class(if whole.0.is_ok() { "valid-form" } else { "rejected" });
        ev.nontrivial(b);
        Ok(())
    }
    fn to_json(&self, c: &[u8; 6]) -> Value {
        json!({"bytes": hex(c)})
    }
    fn from_json(&self, v: &Value) -> Option<[u8; 6]> {
        unhex(v.get("bytes")?.as_str()?)?.try_into().ok()
    }
}

pub fn parts() -> Vec<Box<dyn DynPart>> {
    vec![
        Box::new(Variants),
        Box::new(Licences),
        Box::new(Distinct),
        Box::new(Shaped),
        Box::new(Perturbed),
        Box::new(Random),
        Box::new(ViaPackets),
        Box::new(Piecewise),
    ]
}

pub fn run(run: &mut Run) {
    run.claims_exhaustive = true;
    run.rule = format!(
        "All {} configurations (variant list extracted from the enum declaration at build time; expected code = \
         upper-cased variant name) checked against every accessor table; complete enumeration of the 15.76 M strings \
         of shape [A-Za-z]{{2}}[0-9]{{1,2}}[A-Za-z]? NUL-padded to 6 bytes (decodes iff it is a configuration's wire form); \
         every ordered pair of configurations compared with the library's own equality (different wire forms never decode to equal values); every single-byte perturbation of every wire form; random 6-byte values; the wire forms and a seventh of the perturbations also through STA / RST / HOS frames (in different surroundings) and through readers that deliver the 6 bytes piecewise. Non-trivial = the value decodes to a \
         configuration, is a perturbation of a wire form, or has >= 3 alphanumeric bytes.",
        TRACK_VARIANTS.len()
    );
    run.assumptions = vec![
        "a configuration's short code is its enum variant name upper-cased (how scripts/combos.py generates both)".into(),
    ];
    let variants: Vec<String> = TRACK_VARIANTS.iter().map(|s| s.to_string()).collect();
    run.list(&Variants, "variants", variants);
    let mut areas: Vec<String> = TRACK_VARIANTS.iter().map(|v| expected_code(v)[..2].to_string()).collect();
    areas.sort();
    areas.dedup();
    run.list(&Licences, "licence-per-area", areas);
    let nv = TRACK_VARIANTS.len() as u64;
    run.enumerate(&Distinct, nv * nv, true, |i| Some((TRACK_VARIANTS[(i / nv) as usize].to_string(), TRACK_VARIANTS[(i % nv) as usize].to_string())));
    run.enumerate(&Shaped, 52 * 52, true, |i| {
        Some(BytesCase::Prefix(LETTERS[(i / 52) as usize], LETTERS[(i % 52) as usize]))
    });
    // perturbations: every wire form x every position x every byte value
    let mut pert: Vec<[u8; 6]> = vec![];
    for v in TRACK_VARIANTS {
        let w = expected_wire(v);
        for pos in 0..6 {
            for val in 0..=255u8 {
                if w[pos] != val {
                    let mut x = w;
                    x[pos] = val;
                    pert.push(x);
                }
            }
        }
    }
    // through packets: every wire form, and every 7th perturbation
    let mut via: Vec<[u8; 6]> = TRACK_VARIANTS.iter().map(|v| expected_wire(v)).collect();
    via.extend(pert.iter().step_by(7).cloned());
    // values a lenient reader might wave through: blank / filler fields, wrong case, shifted, unterminated
    for special in [[0u8; 6], [0xFF; 6], [b' '; 6], *b"bl1\0\0\0", *b"Bl1\0\0\0", *b"\0BL1\0\0", *b"BL1   ", *b"BL1\0\0X", *b"BL\0\0\0\0", *b"B\0\0\0\0\0", *b"BL1BL1", *b"RO10X\0", *b"RO10XX", *b"ro10x\0"] {
        if wires().get(&special).is_none() || special == *b"RO10X\0" {
            via.push(special);
        }
    }
    run.list(&Perturbed, "perturbed-wire-forms", pert);
    run.list(&Piecewise, "piecewise-readers", via.clone());
    run.list(&ViaPackets, "through-sta-rst-hos-frames", via);
    let alphabet = prop_oneof![
        4 => prop::sample::select(b"ABEFKLORSTUWXY0123456789".to_vec()),
        1 => Just(0u8),
        1 => any::<u8>(),
    ];
    let strat = prop::array::uniform6(alphabet);
    let n = run.budget(1_000_000, 20_000_000);
    run.prop(&Random, strat.clone(), n);
    // random values through the three packet kinds as well (a packet-level reader may treat the field differently)
    let n = run.budget(100_000, 3_000_000);
    run.prop(&ViaPackets, strat, n);
}
