//! C03 — every successfully encoded frame is a single well-formed frame.

use insim::net::Mode;
use insim::Packet;
use proptest::prelude::*;
use serde_json::{json, Value};

use crate::engine::*;
use crate::props::c02::{tape_strategy, TapeCase};
use crate::refs::build;
use crate::refs::compare::*;
use crate::refs::image::{self, Tape};
use crate::refs::spec::{coverage_problem, spec};

fn limit(mode: &Mode) -> usize {
    match mode {
        Mode::Uncompressed => 255,
        Mode::Compressed => 1020,
    }
}

pub fn kind_of(p: &Packet) -> String {
    let d = format!("{p:?}");
    d.split(|c| c == '(' || c == ' ').next().unwrap_or("?").to_string()
}

#[derive(Debug, PartialEq, Clone, Copy)]
pub enum Origin {
    UserBuilt,
    Decoded,
}

/// The well-formedness oracle. Returns Ok(Some(frame)) when a frame was emitted, Ok(None) when the packet was refused.
pub fn judge_encode(p: &Packet, mode: &Mode, origin: Origin) -> Result<Option<Vec<u8>>, Fail> {
    let kind = kind_of(p);
    let codec = insim::net::Codec::new(mode.clone());
    let out = match guard(|| codec.encode(p)) {
        Err(panic) => {
            if origin == Origin::Decoded {
                return Err(Fail::new(
                    format!("c03:encoder-aborts-on-decoded-packet:{kind}"),
                    format!("{} mode: encoder panicked on a packet obtained by decoding: {panic}: {p:?}", mode_name(mode)),
                ));
            }
            return Ok(None); // refused loudly
        },
        Ok(Err(_)) => return Ok(None), // refused with an error
        Ok(Ok(b)) => b.to_vec(),
    };
    let len = out.len();
    let sig = |what: &str| format!("c03:{what}:{kind}");
    ensure!(len % 4 == 0, sig("length-not-multiple-of-4"), "{} mode: {kind} encoded to {len} bytes: {}", mode_name(mode), hex(&out[..len.min(64)]));
    ensure!(len >= 4 && len <= limit(mode), sig("length-out-of-range"), "{} mode: {kind} encoded to {len} bytes (limit {}), size byte {:#04x}", mode_name(mode), limit(mode), out[0]);
    let announced = match mode {
        Mode::Uncompressed => out[0] as usize,
        Mode::Compressed => out[0] as usize * 4,
    };
    ensure!(announced == len, sig("size-byte-wrong"), "{} mode: {kind}: size byte {:#04x} announces {announced}, frame is {len} bytes", mode_name(mode), out[0]);
    // element count byte
    if build::COUNTED.contains(&kind.as_str()) {
        let (hdr, elem, count_at, _max, pad) = build::counted_layout(&kind);
        let body = len - hdr;
        let n = out[count_at] as usize;
        let expect_body = n * elem;
        let padded = if pad && (hdr + expect_body) % 4 != 0 { expect_body + 2 } else { expect_body };
        ensure!(
            body == padded,
            sig("count-byte-wrong"),
            "{} mode: {kind}: count byte says {n} elements ({} bytes), but {body} bytes follow the header",
            mode_name(mode),
            padded
        );
        if let Some(typed) = build::counted_len(p) {
            ensure!(typed == n, sig("count-byte-wrong"), "{kind}: {typed} elements in the packet, count byte {n}");
        }
    }
    // decoding it consumes it completely and yields the same kind
    match decode_one(&out, mode) {
        Ok(q) => {
            let k2 = kind_of(&q);
            ensure!(k2 == kind, sig("decodes-to-other-kind"), "{kind} frame {} decodes as {k2}", hex(&out[..len.min(64)]));
        },
        Err(e) => fail!(sig("own-frame-not-decodable"), "{} mode: {kind}: {e}: frame {}", mode_name(mode), hex(&out[..len.min(80)])),
    }
    Ok(Some(out))
}

// ------------------------------------------------------------------ counts 0..=255, both modes (complete)
#[derive(Clone, Debug)]
pub struct CountCase {
    pub variant: String,
    pub compressed: bool,
    pub n: usize,
}

pub struct Counts;
impl Part for Counts {
    type Case = CountCase;
    fn name(&self) -> &'static str {
        "element-counts-0-255"
    }
    fn check(&self, c: &CountCase, ev: &mut Local) -> Result<(), Fail> {
        let mode = if c.compressed { Mode::Compressed } else { Mode::Uncompressed };
        let seed = [c.n as u8, 7, 99, 3, 1, 250, 13, 77];
        let mut t = Tape::new(&seed);
        let p = build::counted_packet(&c.variant, c.n, &mut t).ok_or_else(|| Fail::new("harness:builder", c.variant.clone()))?;
        let (hdr, elem, _, max, _) = build::counted_layout(&c.variant);
        let fits = hdr + c.n * elem <= limit(&mode);
        match judge_encode(&p, &mode, Origin::UserBuilt)? {
            Some(f) => {
                ev.class(if c.n > max { "emitted-beyond-protocol-max" } else { "emitted" });
                ev.max("frame-length", f.len() as u64);
            },
            None => {
                ev.class(if fits { "refused-though-it-would-fit" } else { "refused-too-large" });
            },
        }
        ev.nontrivial_distinct();
        if c.n % 50 == 1 {
            ev.sample(|| json!({"kind": c.variant, "mode": mode_name(&mode), "elements": c.n, "fits": fits}));
        }
        Ok(())
    }
    fn to_json(&self, c: &CountCase) -> Value {
        json!({"kind": c.variant, "compressed": c.compressed, "n": c.n})
    }
    fn from_json(&self, v: &Value) -> Option<CountCase> {
        Some(CountCase { variant: v.get("kind")?.as_str()?.to_string(), compressed: v.get("compressed")?.as_bool()?, n: v.get("n")?.as_u64()? as usize })
    }
}

// ------------------------------------------------------------------ texts of every encoded length 0..=2N
#[derive(Clone, Debug)]
pub struct TextLenCase {
    pub field: usize,
    pub compressed: bool,
    pub text: String,
}

pub struct TextLengths;
impl Part for TextLengths {
    type Case = TextLenCase;
    fn name(&self) -> &'static str {
        "text-lengths-0-2N"
    }
    fn check(&self, c: &TextLenCase, ev: &mut Local) -> Result<(), Fail> {
        let (variant, path) = build::TEXT_FIELDS[c.field];
        let mode = if c.compressed { Mode::Compressed } else { Mode::Uncompressed };
        let p = build::text_packet(variant, path, &c.text, 2).ok_or_else(|| Fail::new("harness:builder", variant))?;
        match judge_encode(&p, &mode, Origin::UserBuilt)? {
            Some(f) => {
                ev.class("emitted");
                if f.len() + 8 >= limit(&mode) {
                    ev.class("within-8-bytes-of-the-limit");
                }
            },
            None => ev.class(&format!("refused:{variant}.{path}")),
        }
        ev.nontrivial(&(c.field, c.compressed, &c.text));
        if ev.wants_sample() && !c.text.is_ascii() {
            ev.sample(|| json!({"field": format!("{variant}.{path}"), "mode": mode_name(&mode), "chars": c.text.chars().count(), "text": c.text.chars().take(12).collect::<String>()}));
        }
        Ok(())
    }
    fn to_json(&self, c: &TextLenCase) -> Value {
        let (v, p) = build::TEXT_FIELDS[c.field];
        json!({"field": format!("{v}.{p}"), "compressed": c.compressed, "text": c.text})
    }
    fn from_json(&self, v: &Value) -> Option<TextLenCase> {
        let f = v.get("field")?.as_str()?;
        let idx = build::TEXT_FIELDS.iter().position(|(a, b)| format!("{a}.{b}") == f)?;
        Some(TextLenCase { field: idx, compressed: v.get("compressed")?.as_bool()?, text: v.get("text")?.as_str()?.to_string() })
    }
}

// ------------------------------------------------------------------ packets from C01/C02's generator + decoded-origin
pub struct FromImages;
impl Part for FromImages {
    type Case = TapeCase;
    fn name(&self) -> &'static str {
        "decoded-conformant-frames"
    }
    fn check(&self, c: &TapeCase, ev: &mut Local) -> Result<(), Fail> {
        let p = spec().packet(&c.variant).ok_or_else(|| Fail::new("harness:variant", c.variant.clone()))?;
        let mode = if c.compressed { Mode::Compressed } else { Mode::Uncompressed };
        let inst = image::from_tape(p, &mode, &c.tape, true);
        let Ok(pkt) = decode_one(&inst.image, &mode) else {
            ev.class("reference-frame-not-accepted (see C02)");
            return Ok(());
        };
        // re-encode in BOTH modes: a packet decoded from a 1020-byte frame may not fit 255 bytes, which must be refused, not wrapped
        for m in [Mode::Compressed, Mode::Uncompressed] {
            let _ = judge_encode(&pkt, &m, Origin::Decoded)?;
        }
        ev.nontrivial(&inst.image);
        ev.class(&c.variant);
        Ok(())
    }
    fn to_json(&self, c: &TapeCase) -> Value {
        json!({"kind": c.variant, "compressed": c.compressed, "tape": hex(&c.tape)})
    }
    fn from_json(&self, v: &Value) -> Option<TapeCase> {
        Some(TapeCase { variant: v.get("kind")?.as_str()?.to_string(), compressed: v.get("compressed")?.as_bool()?, tape: unhex(v.get("tape")?.as_str()?)? })
    }
}

/// mutated / arbitrary frames that the decoder accepts: the resulting packet must never make the encoder abort
#[derive(Clone, Debug)]
pub struct MutCase {
    pub compressed: bool,
    pub frame: Vec<u8>,
}

pub struct AcceptedFrames;
impl Part for AcceptedFrames {
    type Case = MutCase;
    fn name(&self) -> &'static str {
        "decoded-arbitrary-accepted-frames"
    }
    fn check(&self, c: &MutCase, ev: &mut Local) -> Result<(), Fail> {
        let mode = if c.compressed { Mode::Compressed } else { Mode::Uncompressed };
        let codec = insim::net::Codec::new(mode.clone());
        let mut buf = bytes::BytesMut::from(&c.frame[..]);
        // decoder totality is C04's business: here only accepted frames matter
        let Ok(Ok(Some(pkt))) = guard(|| codec.decode(&mut buf)) else {
            ev.class("not-accepted");
            return Ok(());
        };
        for m in [Mode::Compressed, Mode::Uncompressed] {
            let _ = judge_encode(&pkt, &m, Origin::Decoded)?;
        }
        ev.nontrivial(&c.frame);
        ev.class(&format!("accepted:{}", kind_of(&pkt)));
        if ev.wants_sample() && c.frame.len() <= 24 {
            ev.sample(|| json!({"mode": mode_name(&mode), "frame": hex(&c.frame), "decoded": format!("{pkt:?}")}));
        }
        Ok(())
    }
    fn to_json(&self, c: &MutCase) -> Value {
        json!({"compressed": c.compressed, "frame": hex(&c.frame)})
    }
    fn from_json(&self, v: &Value) -> Option<MutCase> {
        Some(MutCase { compressed: v.get("compressed")?.as_bool()?, frame: unhex(v.get("frame")?.as_str()?)? })
    }
}

/// a conformant frame with a few bytes overwritten / its text region filled with high bytes / extended
pub fn mutated_frame_strategy() -> impl Strategy<Value = MutCase> {
    let muts = proptest::collection::vec((any::<prop::sample::Index>(), any::<u8>()), 0..6);
    (tape_strategy(), muts, 0usize..4, any::<u8>(), 0usize..200).prop_map(|(tc, muts, grow_kind, fill, grow)| {
        let p = spec().packet(&tc.variant).unwrap();
        let mode = if tc.compressed { Mode::Compressed } else { Mode::Uncompressed };
        let mut f = image::from_tape(p, &mode, &tc.tape, true).image;
        // optionally extend the frame (variable-size kinds accept longer bodies) and fix the size byte
        if grow_kind == 1 && tc.compressed {
            let extra = (grow / 4) * 4;
            let fillb = if fill < 128 { 0x80 } else { fill };
            f.extend(std::iter::repeat(fillb).take(extra));
            if f.len() <= 1020 {
                f[0] = (f.len() / 4) as u8;
            } else {
                f.truncate(1020);
                f[0] = 255;
            }
        }
        if grow_kind == 2 {
            // fill everything after the header region with one high byte (long multi-byte texts)
            let start = 8.min(f.len());
            for b in f.iter_mut().skip(start) {
                if *b != 0 {
                    *b = fill | 0x80;
                }
            }
        }
        for (ix, v) in muts {
            if f.len() > 2 {
                let i = 2 + ix.index(f.len() - 2);
                f[i] = v;
            }
        }
        MutCase { compressed: tc.compressed, frame: f }
    })
}


// ------------------------------------------------------------------ MSO: the one packet whose encoder moves an index (TextStart)
#[derive(Clone, Debug)]
pub struct MsoCase {
    pub compressed: bool,
    pub msg: String,
    /// TextStart as a character count into msg (converted to the byte index the public field wants)
    pub start_chars: usize,
}

pub struct MsoTextStart;
impl Part for MsoTextStart {
    type Case = MsoCase;
    fn name(&self) -> &'static str {
        "mso-text-start"
    }
    fn check(&self, c: &MsoCase, ev: &mut Local) -> Result<(), Fail> {
        let mode = if c.compressed { Mode::Compressed } else { Mode::Uncompressed };
        let byte_ix = c.msg.char_indices().nth(c.start_chars).map(|(i, _)| i).unwrap_or(c.msg.len());
        if byte_ix > 255 {
            ev.class("text-start-beyond-u8");
            return Ok(());
        }
        let mut m = insim::insim::Mso::default();
        m.msg = c.msg.clone();
        m.textstart = byte_ix as u8;
        m.usertype = insim::insim::MsoUserType::User;
        let p = Packet::Mso(m);
        match judge_encode(&p, &mode, Origin::UserBuilt)? {
            Some(f) => {
                ev.class("emitted");
                if f.len() == 8 + 128 {
                    ev.class("message-fills-128-bytes");
                }
                if f[7] as usize != byte_ix {
                    ev.class("text-start-moved-by-encoding");
                }
                if f[7] as usize >= 124 {
                    ev.class("text-start-in-the-last-word-or-beyond");
                }
            },
            None => ev.class("refused"),
        }
        ev.nontrivial(&(c.compressed, &c.msg, c.start_chars));
        if ev.wants_sample() && !c.msg.is_ascii() {
            ev.sample(|| json!({"mode": mode_name(&mode), "chars": c.msg.chars().count(), "start_chars": c.start_chars, "msg": c.msg.chars().take(16).collect::<String>()}));
        }
        Ok(())
    }
    fn to_json(&self, c: &MsoCase) -> Value {
        json!({"compressed": c.compressed, "msg": c.msg, "start_chars": c.start_chars})
    }
    fn from_json(&self, v: &Value) -> Option<MsoCase> {
        Some(MsoCase { compressed: v.get("compressed")?.as_bool()?, msg: v.get("msg")?.as_str()?.to_string(), start_chars: v.get("start_chars")?.as_u64()? as usize })
    }
}

/// messages around the 128-byte limit in multi-codepage text, with the text start anywhere (weighted towards the end)
pub fn mso_case_strategy() -> impl Strategy<Value = MsoCase> {
    let tables = crate::refs::cp::tables();
    let ch = prop_oneof![
        3 => (0x20u8..0x7F).prop_map(|b| b as char),
        4 => (0..tables.len(), any::<prop::sample::Index>()).prop_map(move |(t, ix)| {
            let e = &tables[t].entries;
            e[ix.index(e.len())].1
        }),
    ];
    (any::<bool>(), proptest::collection::vec(ch, 0..140), any::<prop::sample::Index>(), 0usize..4).prop_map(|(compressed, v, ix, place)| {
        let n = v.len();
        let start_chars = match place {
            0 => ix.index(n + 1),
            1 => n,
            2 => n.saturating_sub(ix.index(4)),
            _ => n / 2 + ix.index(n / 2 + 1),
        };
        MsoCase { compressed, msg: v.into_iter().collect(), start_chars }
    })
}

/// IS_MSO frames: any TextStart byte, message bytes made of ASCII runs, codepage markers, double-byte pairs and lone high bytes
pub fn mso_frame_strategy() -> impl Strategy<Value = MutCase> {
    let seg = prop_oneof![
        3 => proptest::collection::vec(0x20u8..0x7F, 1..6),
        2 => (0usize..13).prop_map(|k| vec![b'^', b"LGCETBJHSK8^0"[k]]),
        3 => (0x81u8..0xFF, 0x40u8..0xFF).prop_map(|(a, b)| vec![a, b]),
        1 => (0x80u8..=0xFF).prop_map(|a| vec![a]),
    ];
    (any::<bool>(), proptest::collection::vec(seg, 0..48), 0usize..5, any::<u8>(), any::<bool>()).prop_map(|(compressed, segs, place, ts, terminate)| {
        let mut msg: Vec<u8> = segs.into_iter().flatten().collect();
        msg.truncate(128);
        if terminate && msg.len() > 127 {
            msg.truncate(127);
        }
        let content = msg.len();
        while msg.len() % 4 != 0 || (terminate && msg.len() == content) {
            msg.push(0);
        }
        msg.truncate(128);
        let textstart = match place {
            0 => 0,
            1 => ts,
            2 => (content as u8).saturating_sub(ts % 6),
            3 => (content as u8).saturating_add(ts % 4),
            _ => ts % (content as u8).max(1),
        };
        let len = 8 + msg.len();
        let mut f = vec![if compressed { (len / 4) as u8 } else { len as u8 }, 11, 0, 0, 1, 0, 1, textstart];
        f.extend_from_slice(&msg);
        MutCase { compressed, frame: f }
    })
}



// ------------------------------------------------------------------ the public length -> size byte function itself
pub struct LengthFn;
impl Part for LengthFn {
    type Case = (bool, u64);
    fn name(&self) -> &'static str {
        "encode-length-function"
    }
    fn check(&self, c: &(bool, u64), ev: &mut Local) -> Result<(), Fail> {
        let mode = if c.0 { Mode::Compressed } else { Mode::Uncompressed };
        let len = c.1 as usize;
        match guard(|| mode.encode_length(len)) {
            Ok(Ok(b)) => {
                let announced = if c.0 { b as usize * 4 } else { b as usize };
                ensure!(
                    announced == len && len >= 4 && len <= limit(&mode),
                    "c03:size-byte-wrong:encode_length",
                    "{} mode: encode_length({len}) = Ok({b:#04x}), which announces {announced} bytes",
                    mode_name(&mode)
                );
                ev.class("size byte");
            },
            Ok(Err(_)) => ev.class("refused (error)"),
            Err(_) => ev.class("refused (panic)"),
        }
        ev.nontrivial_distinct();
        Ok(())
    }
    fn to_json(&self, c: &(bool, u64)) -> Value {
        json!({"compressed": c.0, "len": c.1})
    }
    fn from_json(&self, v: &Value) -> Option<(bool, u64)> {
        Some((v.get("compressed")?.as_bool()?, v.get("len")?.as_u64()?))
    }
}


// ------------------------------------------------------------------ hand-built IS_VER around any finite version
/// (bit pattern of the f32 number, letter, revision)
pub struct BuiltVer;
impl Part for BuiltVer {
    type Case = (u32, u8, Option<u64>, bool);
    fn name(&self) -> &'static str {
        "hand-built-version-packets"
    }
    fn check(&self, c: &(u32, u8, Option<u64>, bool), ev: &mut Local) -> Result<(), Fail> {
        let major = f32::from_bits(c.0);
        if !major.is_finite() || major < 0.0 {
            ev.class("not a finite non-negative number: skipped");
            return Ok(());
        }
        let mode = if c.3 { Mode::Compressed } else { Mode::Uncompressed };
        let mut v = insim::insim::Ver::default();
        v.version = insim_core::game_version::GameVersion { major, minor: (b'A' + c.1 % 26) as char, patch: c.2.map(|p| p as usize) };
        v.product = "S3".into();
        v.insimver = 9;
        let shown = format!("{}", v.version);
        let p = Packet::Ver(v);
        match judge_encode(&p, &mode, Origin::UserBuilt)? {
            Some(_) => ev.class(if shown.len() > 8 { "emitted: the printed version is cut to 8 bytes" } else { "emitted" }),
            None => ev.class("refused"),
        }
        ev.nontrivial(c);
        if ev.wants_sample() && shown.len() > 8 {
            ev.sample(|| json!({"version": shown, "mode": mode_name(&mode)}));
        }
        Ok(())
    }
    fn to_json(&self, c: &(u32, u8, Option<u64>, bool)) -> Value {
        json!({"major_bits": c.0, "major": f32::from_bits(c.0).to_string(), "letter": c.1, "revision": c.2, "compressed": c.3})
    }
    fn from_json(&self, v: &Value) -> Option<(u32, u8, Option<u64>, bool)> {
        Some((v.get("major_bits")?.as_u64()? as u32, v.get("letter")?.as_u64()? as u8, v.get("revision").and_then(|r| r.as_u64()), v.get("compressed")?.as_bool()?))
    }
}

// ------------------------------------------------------------------ sequences on one codec instance
/// A connection encodes all its packets with one `Codec`. Whatever happened before (refused packets, long packets, short
/// ones), each successful result must be the single well-formed frame a fresh codec produces for that packet.
#[derive(Clone, Debug)]
pub struct SeqCase {
    pub compressed: bool,
    /// each item: a frame to decode into the packet that is encoded, or a one-byte pseudo frame standing for a packet the encoder
    /// must refuse (0xFF: MCI x 60 = 1684 bytes; 0xFE: PLH x 70 = 284 bytes, refused uncompressed; 0xFD: HCP with a mass of 201 kg;
    /// 0xFC: MAL with 121 mods)
    pub items: Vec<Vec<u8>>,
}

pub fn seq_packet(item: &[u8], mode: &Mode) -> Option<Packet> {
    if item.len() == 1 {
        let tape = [7u8; 16];
        let mut t = crate::refs::image::Tape::new(&tape);
        return match item[0] {
            0xFF => build::counted_packet("Mci", 60, &mut t),
            0xFE => build::counted_packet("Plh", 70, &mut t),
            0xFD => {
                let mut h = insim::insim::Hcp::default();
                h.info[31].h_mass = 201;
                Some(Packet::Hcp(h))
            },
            _ => {
                let mut m = insim::insim::Mal::default();
                for i in 0..121u32 {
                    let _ = m.insert(insim_core::vehicle::Vehicle::Mod(0x0100_0000 + i));
                }
                Some(Packet::Mal(m))
            },
        };
    }
    decode_one(item, mode).ok()
}

/// the signature prefix names the property on whose behalf the part runs (C01 and C02 use it too: a frame that carries
/// left-overs of an earlier packet neither round-trips nor conforms to the layout)
pub struct OneCodec(pub &'static str);
impl Part for OneCodec {
    type Case = SeqCase;
    fn name(&self) -> &'static str {
        "sequences-on-one-codec"
    }
    fn check(&self, c: &SeqCase, ev: &mut Local) -> Result<(), Fail> {
        let mode = if c.compressed { Mode::Compressed } else { Mode::Uncompressed };
        // two long-lived codecs (two connections of one application) take the packets alternately ...
        let shared = [insim::net::Codec::new(mode.clone()), insim::net::Codec::new(mode.clone())];
        type Answer = Result<Result<Vec<u8>, String>, String>;
        let mut forward: Vec<(usize, Packet, Answer, Option<(Result<Result<String, String>, String>, usize)>)> = vec![];
        for (i, item) in c.items.iter().enumerate() {
            let Some(p) = seq_packet(item, &mode) else { continue };
            let codec = &shared[i % 2];
            let a: Answer = guard(|| codec.encode(&p).map(|b| b.to_vec()).map_err(|e| e.to_string()));
            // ... and read their own frames back
            let back = match &a {
                Ok(Ok(x)) => {
                    let mut b1 = bytes::BytesMut::from(&x[..]);
                    let d1 = guard(|| codec.decode(&mut b1).map(|p| format!("{p:?}")).map_err(|e| e.to_string()));
                    Some((d1, b1.len()))
                },
                _ => None,
            };
            forward.push((i, p, a, back));
        }
        // ... the reference answers come from a fresh codec per packet, computed afterwards and in REVERSE order: whatever
        // state a packet may leave behind - in the codec, in the thread or in the process - the two passes have different histories
        let mut refused_before = false;
        let mut after_refusal = 0usize;
        let n = forward.len();
        let mut verdicts: Vec<Option<bool>> = vec![None; n];
        for (k, (i, p, a, back)) in forward.iter().enumerate().rev() {
            let kind = kind_of(p);
            let b: Answer = guard(|| insim::net::Codec::new(mode.clone()).encode(p).map(|b| b.to_vec()).map_err(|e| e.to_string()));
            match (a, &b) {
                (Ok(Ok(x)), Ok(Ok(y))) => {
                    ensure!(
                        x == y,
                        format!("{}:codec-carries-state-between-packets:{kind}", self.0),
                        "{} mode, packet #{i} ({kind}) of the sequence: the connection's codec emitted {} bytes {}, a fresh codec {} bytes {}",
                        mode_name(&mode),
                        x.len(),
                        hex(&x[..x.len().min(40)]),
                        y.len(),
                        hex(&y[..y.len().min(40)])
                    );
                    let mut b2 = bytes::BytesMut::from(&x[..]);
                    let d2 = guard(|| insim::net::Codec::new(mode.clone()).decode(&mut b2).map(|p| format!("{p:?}")).map_err(|e| e.to_string()));
                    let (d1, left1) = back.clone().expect("decoded in the forward pass");
                    ensure!(
                        d1 == d2 && left1 == b2.len(),
                        format!("{}:codec-carries-state-between-packets:{kind}", self.0),
                        "{} mode, packet #{i} ({kind}): the connection's codec decodes its frame to {:?} (left {} bytes), a fresh codec to {:?} (left {})",
                        mode_name(&mode),
                        d1.as_ref().map(|r| r.as_ref().map(|s| s.chars().take(80).collect::<String>())),
                        left1,
                        d2.as_ref().map(|r| r.as_ref().map(|s| s.chars().take(80).collect::<String>())),
                        b2.len()
                    );
                    verdicts[k] = Some(true);
                },
                (Ok(Err(_)) | Err(_), Ok(Err(_)) | Err(_)) => verdicts[k] = Some(false),
                _ => fail!(
                    format!("{}:codec-carries-state-between-packets:{kind}", self.0),
                    "{} mode, packet #{i} ({kind}): the connection's codec answered {:?}, a fresh codec {:?}",
                    mode_name(&mode),
                    a.as_ref().map(|r| r.as_ref().map(|v| v.len())),
                    b.as_ref().map(|r| r.as_ref().map(|v| v.len()))
                ),
            }
        }
        for v in &verdicts {
            match v {
                Some(false) => refused_before = true,
                Some(true) if refused_before => after_refusal += 1,
                _ => {},
            }
        }
        if n >= 2 {
            ev.nontrivial(&(c.compressed, &c.items));
        }
        if after_refusal > 0 {
            ev.class("successful-encode-after-a-refused-packet");
        }
        ev.max("packets", n as u64);
        Ok(())
    }
    fn to_json(&self, c: &SeqCase) -> Value {
        json!({"compressed": c.compressed, "items": c.items.iter().map(|f| hex(f)).collect::<Vec<_>>()})
    }
    fn from_json(&self, v: &Value) -> Option<SeqCase> {
        Some(SeqCase { compressed: v.get("compressed")?.as_bool()?, items: v.get("items")?.as_array()?.iter().map(|f| unhex(f.as_str()?)).collect::<Option<Vec<_>>>()? })
    }
}

// ------------------------------------------------------------------ the same text travelling through several fields in a row
/// Names and messages are re-sent all the time: the same text goes into one field after another (IS_III then IS_RIP, plate then
/// skin name of one IS_NPL, a chat line as MST then MSX ...), on one thread. Each packet must encode to what it encodes to on
/// its own: the reference frames are produced first, on a thread of their own and in reverse order, so that no state a text
/// conversion may keep (per thread, per process) has the same history in both passes.
#[derive(Clone, Debug)]
pub struct SameTextCase {
    pub text: String,
    /// indices into build::TEXT_FIELDS, in the order of encoding
    pub fields: Vec<usize>,
    pub compressed: bool,
}

pub struct SameTextSeq(pub &'static str);
impl Part for SameTextSeq {
    type Case = SameTextCase;
    fn name(&self) -> &'static str {
        "one-text-through-several-fields"
    }
    fn check(&self, c: &SameTextCase, ev: &mut Local) -> Result<(), Fail> {
        let mode = if c.compressed { Mode::Compressed } else { Mode::Uncompressed };
        let packets: Vec<(String, Packet)> = c
            .fields
            .iter()
            .filter_map(|f| {
                let (v, p) = build::TEXT_FIELDS[*f % build::TEXT_FIELDS.len()];
                build::text_packet(v, p, &c.text, 1).map(|pk| (format!("{v}.{p}"), pk))
            })
            .collect();
        type Answer = Result<Result<Vec<u8>, String>, String>;
        let enc = |p: &Packet| -> Answer { guard(|| insim::net::Codec::new(mode.clone()).encode(p).map(|b| b.to_vec()).map_err(|e| e.to_string())) };
        let reference: Vec<Answer> = in_fresh_thread(|| {
            let mut r: Vec<Answer> = packets.iter().rev().map(|(_, p)| enc(p)).collect();
            r.reverse();
            r
        });
        for (i, (name, p)) in packets.iter().enumerate() {
            let got = enc(p);
            let same = match (&got, &reference[i]) {
                (Ok(Ok(a)), Ok(Ok(b))) => a == b,
                (Ok(Err(_)) | Err(_), Ok(Err(_)) | Err(_)) => true,
                _ => false,
            };
            let show = |a: &Answer| match a {
                Ok(Ok(b)) => format!("{} bytes {}", b.len(), hex(&b[..b.len().min(48)])),
                Ok(Err(e)) => format!("refused: {e}"),
                Err(p) => format!("panic: {p}"),
            };
            ensure!(
                same,
                format!("{}:encoding-depends-on-earlier-texts:{name}", self.0),
                "{} mode: the text {:?} was written into {:?} in turn; {name} (#{i}) then encodes to {}, on its own (fresh thread) to {}",
                mode_name(&mode),
                c.text,
                packets.iter().map(|(n, _)| n.as_str()).collect::<Vec<_>>(),
                show(&got),
                show(&reference[i])
            );
        }
        if packets.len() >= 2 && !c.text.is_ascii() {
            ev.nontrivial(&(c.compressed, &c.text, &c.fields));
        }
        ev.class(if c.text.is_ascii() { "ascii text" } else { "text with codepage switches" });
        Ok(())
    }
    fn to_json(&self, c: &SameTextCase) -> Value {
        json!({"text": c.text, "fields": c.fields.iter().map(|f| { let (v, p) = build::TEXT_FIELDS[*f % build::TEXT_FIELDS.len()]; format!("{v}.{p}") }).collect::<Vec<_>>(), "compressed": c.compressed})
    }
    fn from_json(&self, v: &Value) -> Option<SameTextCase> {
        let fields = v.get("fields")?.as_array()?.iter().map(|f| { let f = f.as_str()?; build::TEXT_FIELDS.iter().position(|(a, b)| format!("{a}.{b}") == f) }).collect::<Option<Vec<_>>>()?;
        Some(SameTextCase { text: v.get("text")?.as_str()?.to_string(), fields, compressed: v.get("compressed")?.as_bool()? })
    }
}

pub fn same_text_strategy() -> impl Strategy<Value = SameTextCase> {
    (crate::props::c01::field_text_strategy(), proptest::collection::vec(0..build::TEXT_FIELDS.len(), 2..7), any::<bool>()).prop_map(|(text, fields, compressed)| SameTextCase { text, fields, compressed })
}

pub fn seq_strategy() -> impl Strategy<Value = SeqCase> {
    let item = prop_oneof![
        6 => tape_strategy().prop_map(|tc| (0u8, tc.variant, tc.tape)),
        3 => (0xFCu8..=0xFF).prop_map(|b| (b, String::new(), vec![])),
    ];
    (any::<bool>(), proptest::collection::vec(item, 1..8)).prop_map(|(compressed, items)| {
        let mode = if compressed { Mode::Compressed } else { Mode::Uncompressed };
        let items = items
            .into_iter()
            .map(|(pseudo, variant, tape)| {
                if pseudo != 0 {
                    return vec![pseudo];
                }
                let p = spec().packet(&variant).unwrap();
                image::from_tape(p, &mode, &tape, true).image
            })
            .collect();
        SeqCase { compressed, items }
    })
}

/// an IS_VER frame around an arbitrary version text (cut to 8 bytes on a character boundary)
pub fn ver_frame_strategy() -> impl Strategy<Value = MutCase> {
    let text = prop_oneof![
        3 => "[0-9]{1,8}",
        3 => "[0-9]{1,3}\\.[0-9]{1,4}[A-Za-z]?[0-9]{0,3}",
        2 => "[0-9.]{0,6}[A-Za-z][0-9²³¹٣½①]{0,3}",
        2 => "[0-9.A-Za-z²٣½ ]{0,8}",
        // texts made of multi-byte characters only, behind 0..3 ASCII characters: wherever a byte offset falls (an error text
        // that echoes the field and is cut somewhere), it falls inside a character more often than not
        3 => "[0-9.A-Za-z]{0,3}[é€٣½²ß𝄞😀]{1,4}",
        1 => "[0-9]{1,2}\\.[0-9][A-Za-z][é€𝄞]{1,2}",
    ];
    (any::<bool>(), text, any::<u8>(), "[A-Z0-9]{0,6}").prop_map(|(compressed, t, insimver, product)| {
        let mut v = t.into_bytes();
        while v.len() > 8 || std::str::from_utf8(&v).is_err() {
            v.pop();
        }
        v.resize(8, 0);
        let mut f = vec![if compressed { 5u8 } else { 20 }, 2, 1, 0];
        f.extend_from_slice(&v);
        let mut p = product.into_bytes();
        p.resize(6, 0);
        f.extend_from_slice(&p);
        f.push(insimver);
        f.push(0);
        MutCase { compressed, frame: f }
    })
}

pub fn parts() -> Vec<Box<dyn DynPart>> {
    vec![Box::new(Counts), Box::new(TextLengths), Box::new(FromImages), Box::new(AcceptedFrames), Box::new(MsoTextStart), Box::new(OneCodec("c03")), Box::new(SameTextSeq("c03")), Box::new(LengthFn), Box::new(BuiltVer)]
}

pub fn run(run: &mut Run) {
    if let Some(p) = coverage_problem() {
        eprintln!("HARNESS OUT OF DATE: {p}");
        std::process::exit(2);
    }
    run.rule = "Whenever encode returns Ok: length % 4 == 0, 4 <= length <= 255|1020, size byte == length (or /4), count byte == elements \
        that follow == elements in the packet, and decoding consumes the frame completely and yields the same kind. Err or panic is accepted \
        for user-built packets (refused loudly); for packets obtained by decoding a panic is a violation. Generators: (1) complete: every \
        element count 0..=255 for the 7 counted kinds x 2 modes; (2) complete: ASCII text of every length 0..=2N in each of the 30 text \
        fields x 2 modes, plus random multi-byte text; (3) packets decoded from conformant frames of all 73 kinds, re-encoded in both modes; \
        (4) packets decoded from mutated / extended / high-byte-filled frames that the decoder accepted, plus IS_VER frames around free-form \
        version text and IS_MSO frames with any TextStart over codepage-switching text; (5) hand-built MSO with TextStart at every character \
        position of multi-codepage messages around the 128-byte limit; (6) sequences of 1..7 packets, refused ones among them, encoded by \
        one codec instance (as a connection does): every result must equal what a fresh codec gives for that packet; (7) Mode::encode_length for every length 0..=70 000 and \
        around every integer width: Ok only with the exact size byte, otherwise refused; (8) element counts whose serialisation is 2^8, 2^10, 2^16 or 2^17 bytes and up to 1 KiB more, and round counts up to 70 000 (must be refused, never emitted with a wrapped size byte); (9) IS_VER built by hand around any finite version; (10) one text through several fields in a row, each frame compared with a fresh thread's. Non-trivial = every case (each one \
        exercises the encoder on a distinct packet)."
        .into();
    run.assumptions = vec!["element size / header length / count offset of the counted kinds are taken from the specification transcription".into()];
    // (1)
    let mut cc = vec![];
    for v in build::COUNTED {
        for compressed in [false, true] {
            // 256..=260: the count byte cannot express these; they must be refused (by whatever guard), never emitted wrapped
            for n in 0..=260usize {
                cc.push(CountCase { variant: v.to_string(), compressed, n });
            }
        }
    }
    // counts whose serialisation is as long as a power of two and a little more (a length computed in 8, 16 or 17 bits would wrap
    // into the valid range): hdr + n * elem in 2^k .. 2^k + 1024 for 2^k = 256 (compressed mode only reaches beyond it), 2^16, 2^17
    for v in build::COUNTED {
        let (hdr, elem, _, _, _) = build::counted_layout(v);
        for compressed in [false, true] {
            for pow in [1usize << 8, 1 << 10, 1 << 16, 1 << 17] {
                let first = (pow - hdr.min(pow)).div_ceil(elem);
                let mut n = first.saturating_sub(1);
                while hdr + n * elem <= pow + 1024 + elem {
                    if n > 260 {
                        cc.push(CountCase { variant: v.to_string(), compressed, n });
                    }
                    n += 1;
                }
            }
            for n in [300usize, 511, 512, 513, 1000, 4095, 4096, 10_000, 65_535, 65_536, 65_537, 70_000] {
                cc.push(CountCase { variant: v.to_string(), compressed, n });
            }
        }
    }
    let n = cc.len() as u64;
    run.enumerate(&Counts, n, true, |i| Some(cc[i as usize].clone()));
    // (2) ASCII lengths, exhaustive
    let mut tc = vec![];
    for (i, (v, p)) in build::TEXT_FIELDS.iter().enumerate() {
        let (cap, _) = crate::props::c01::text_capacity(v, p);
        for compressed in [false, true] {
            for len in 0..=(2 * cap + 2) {
                let text: String = (0..len).map(|k| (b'a' + (k % 26) as u8) as char).collect();
                tc.push(TextLenCase { field: i, compressed, text });
            }
        }
    }
    let n = tc.len() as u64;
    run.enumerate(&TextLengths, n, true, |i| Some(tc[i as usize].clone()));
    // (2b) random multi-byte text of any length up to 2N characters
    let tables = crate::refs::cp::tables();
    let ch = prop_oneof![
        2 => (0x20u8..0x7F).prop_map(|b| b as char),
        3 => (0..tables.len(), any::<prop::sample::Index>()).prop_map(move |(t, ix)| {
            let e = &tables[t].entries;
            e[ix.index(e.len())].1
        }),
    ];
    let strat = (0..build::TEXT_FIELDS.len(), any::<bool>(), proptest::collection::vec(ch, 0..300)).prop_map(|(field, compressed, v)| {
        let (vn, p) = build::TEXT_FIELDS[field];
        let (cap, _) = crate::props::c01::text_capacity(vn, p);
        let text: String = v.into_iter().take(2 * cap).collect();
        TextLenCase { field, compressed, text }
    });
    let n = run.budget(60_000, 3_000_000);
    run.prop(&TextLengths, strat, n);
    // (3)
    let n = run.budget(73 * 2 * 400, 73 * 2 * 20_000);
    run.prop(&FromImages, tape_strategy(), n);
    // (4)
    let n = run.budget(200_000, 10_000_000);
    run.prop(&AcceptedFrames, mutated_frame_strategy(), n);
    // (4b) IS_VER frames whose 8-byte version text is free-form (digits only, long numbers, odd letters, Unicode digits)
    let n = run.budget(60_000, 3_000_000);
    run.prop(&AcceptedFrames, ver_frame_strategy(), n);
    // (4c) IS_MSO frames: the only decoder that re-computes an index (TextStart) from decoded text
    let n = run.budget(100_000, 5_000_000);
    run.prop(&AcceptedFrames, mso_frame_strategy(), n);
    // (5) hand-built MSO with a text start, messages around the 128-byte limit
    let n = run.budget(100_000, 5_000_000);
    run.prop(&MsoTextStart, mso_case_strategy(), n);
    // (6) sequences of packets (refused ones among them) on one codec instance, as a connection uses it
    let n = run.budget(40_000, 2_000_000);
    run.prop(&OneCodec("c03"), seq_strategy(), n);
    let n = run.budget(30_000, 1_000_000);
    run.prop(&SameTextSeq("c03"), same_text_strategy(), n);
    // (6b) hand-built IS_VER around any finite version: numbers with 1..9 integer digits with and without a fraction (the printed
    // form is cut to 8 bytes wherever that falls), tiny and huge numbers, revisions of any size
    let major = prop_oneof![
        3 => (0u32..8, 0u32..1000, 0u32..4).prop_map(|(digits, frac, k)| {
            let int = 10u64.pow(digits) as f32 * [1.0f32, 1.2345678, 4.194303, 9.9999][k as usize];
            (int.floor() + frac as f32 / 1000.0).to_bits()
        }),
        2 => (0u32..100, 0u32..100).prop_map(|(a, b)| (a as f32 + b as f32 / 100.0).to_bits()),
        2 => any::<u32>(),
        1 => prop::sample::select(vec![0f32.to_bits(), 0.7f32.to_bits(), 4194303.5f32.to_bits(), 8388607.5f32.to_bits(), 1234567.5f32.to_bits(), 16777216f32.to_bits(), 1e-5f32.to_bits(), 3.4e38f32.to_bits()]),
    ];
    let rev = prop_oneof![2 => Just(None), 3 => (0u64..300).prop_map(Some), 1 => any::<u64>().prop_map(Some)];
    let n = run.budget(60_000, 3_000_000);
    run.prop(&BuiltVer, (major, any::<u8>(), rev, any::<bool>()), n);
    // (7) Mode::encode_length directly: every length 0..=70 000 and lengths around every integer width, both modes (complete)
    let mut lens: Vec<(bool, u64)> = vec![];
    for compressed in [false, true] {
        for len in 0..=70_000u64 {
            lens.push((compressed, len));
        }
        for w in [16u32, 17, 18, 24, 31, 32, 33, 34, 48, 63] {
            for k in 1..=3u64 {
                for r in 0..=1100u64 {
                    lens.push((compressed, (k << w).wrapping_add(r)));
                }
            }
        }
    }
    let n = lens.len() as u64;
    run.enumerate(&LengthFn, n, true, |i| Some(lens[i as usize]));
}
