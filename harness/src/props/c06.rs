//! C06 — writes reach the transport complete, contiguous and in order.

use insim::net::{Codec, Mode};
use insim::Packet;
use proptest::prelude::*;
use serde_json::{json, Value};

use crate::engine::*;
use crate::props::session::*;
use crate::refs::compare::{decode_one, mode_name};
use crate::transport::*;

#[derive(Clone, Debug)]
pub struct WriteCase {
    pub compressed: bool,
    /// frames whose decoded packets are written, in order
    pub frames: Vec<Vec<u8>>,
    pub policy: Vec<WriteStep>,
}

/// frames decode to the packets that are written; the one-byte pseudo frames [0xFF] / [0xFE] stand for packets that are
/// too large for the size mode (60 CompCars = 1684 bytes: refused in both modes; 70 handicaps = 284 bytes: refused uncompressed)
fn packets(c: &WriteCase, mode: &Mode) -> Vec<Packet> {
    c.frames
        .iter()
        .filter_map(|f| {
            if f.len() == 1 {
                let tape = [7u8; 16];
                let mut t = crate::refs::image::Tape::new(&tape);
                return if f[0] == 0xFF { crate::refs::build::counted_packet("Mci", 60, &mut t) } else { crate::refs::build::counted_packet("Plh", 70, &mut t) };
            }
            decode_one(f, mode).ok()
        })
        .collect()
}

fn run_blocking_writes(mode: &Mode, pkts: &[Packet], policy: &[WriteStep]) -> Result<(Vec<u8>, Vec<String>, Vec<Event>), String> {
    let t = Transport::new(vec![], policy.to_vec()).vectored(policy.len() % 2 == 1);
    let mut framed = insim::net::blocking_impl::Framed::new(Box::new(t.clone()), Codec::new(mode.clone()));
    let mut rets = vec![];
    for p in pkts {
        let r = guard(|| framed.write(p.clone()))?;
        rets.push(match r {
            Ok(()) => "Ok".to_string(),
            Err(e) => format!("Err({e})"),
        });
    }
    let tr = t.take_trace();
    Ok((t.written(), rets, tr))
}

fn run_tokio_writes(mode: &Mode, pkts: &[Packet], policy: &[WriteStep]) -> Result<(Vec<u8>, Vec<String>, Vec<Event>), String> {
    let t = Transport::new(vec![], policy.to_vec()).vectored(policy.len() % 2 == 1);
    let rt = tokio_runtime();
    let t2 = t.clone();
    let mode = mode.clone();
    let rets = guard(|| {
        rt.block_on(async {
            let mut framed = insim::net::tokio_impl::Framed::new(Box::new(t2), Codec::new(mode));
            let mut rets = vec![];
            for p in pkts {
                rets.push(match framed.write(p.clone()).await {
                    Ok(()) => "Ok".to_string(),
                    Err(e) => format!("Err({e})"),
                });
            }
            rets
        })
    })?;
    let tr = t.take_trace();
    Ok((t.written(), rets, tr))
}

/// a transport error exactly at the start of the j-th encodable packet's frame (everything before it accepted whole): that
/// write must return the error and leave nothing behind - not on the wire now, and not glued in front of a later frame
pub struct FailedWrite;
impl Part for FailedWrite {
    type Case = (WriteCase, usize);
    fn name(&self) -> &'static str {
        "transport-error-at-a-frame-boundary"
    }
    fn check(&self, c: &(WriteCase, usize), ev: &mut Local) -> Result<(), Fail> {
        let mode = if c.0.compressed { Mode::Compressed } else { Mode::Uncompressed };
        let pkts: Vec<Packet> = packets(&c.0, &mode).into_iter().filter(|p| Codec::new(mode.clone()).encode(p).is_ok()).collect();
        if pkts.len() < 2 {
            return Ok(());
        }
        let j = c.1 % pkts.len();
        let mut policy: Vec<WriteStep> = (0..j).map(|_| WriteStep::Accept(4096)).collect();
        policy.push(WriteStep::Err(std::io::ErrorKind::ConnectionRefused));
        let mut expected = vec![];
        for (i, p) in pkts.iter().enumerate() {
            if i != j {
                expected.extend_from_slice(&Codec::new(mode.clone()).encode(p).unwrap());
            }
        }
        let m = mode_name(&mode);
        for (which, r) in [("blocking", run_blocking_writes(&mode, &pkts, &policy)), ("tokio", run_tokio_writes(&mode, &pkts, &policy))] {
            let (written, rets, _) = r.map_err(|p| Fail::new("c06:panic", format!("{which}: {p}")))?;
            for (i, r) in rets.iter().enumerate() {
                ensure!((r == "Ok") == (i != j), "c06:write-returned-error", "{which} ({m}): the transport refused the write of packet #{j} only, but write #{i} returned {r}");
            }
            if written != expected {
                let first = written.iter().zip(expected.iter()).position(|(a, b)| a != b).unwrap_or(written.len().min(expected.len()));
                fail!("c06:refused-frame-sent-later", "{which} ({m}): the write of packet #{j} failed at its first byte; afterwards the transport holds {} bytes, the other {} frames are {} bytes; first difference at byte {first}", written.len(), pkts.len() - 1, expected.len());
            }
        }
        ev.nontrivial(&(c.0.compressed, &c.0.frames, j));
        Ok(())
    }
    fn to_json(&self, c: &(WriteCase, usize)) -> Value {
        json!({"writes": case_json(&c.0), "failing_packet": c.1})
    }
    fn from_json(&self, v: &Value) -> Option<(WriteCase, usize)> {
        Some((case_from(v.get("writes")?)?, v.get("failing_packet")?.as_u64()? as usize))
    }
}

pub fn judge(c: &WriteCase, ev: &mut Local) -> Result<(), Fail> {
    let mode = if c.compressed { Mode::Compressed } else { Mode::Uncompressed };
    let pkts = packets(c, &mode);
    let mut expected = vec![];
    let mut encodable = vec![];
    let mut should_ok = vec![];
    let mut refused = 0usize;
    for p in &pkts {
        // the expected stream is the concatenation of *independent* encodings: a fresh codec per packet, so that state a
        // connection's codec might carry from one packet to the next cannot leak into the oracle
        match guard(|| Codec::new(mode.clone()).encode(p)) {
            Ok(Ok(b)) => {
                expected.extend_from_slice(&b);
                encodable.push(p.clone());
                should_ok.push(true);
            },
            Ok(Err(_)) => {
                // a packet the encoder refuses must be refused by write() too - and must leave no trace on the wire
                encodable.push(p.clone());
                should_ok.push(false);
                refused += 1;
            },
            Err(_) => {},
        }
    }
    let m = mode_name(&mode);
    for (which, r) in [("blocking", run_blocking_writes(&mode, &encodable, &c.policy)), ("tokio", run_tokio_writes(&mode, &encodable, &c.policy))] {
        let (written, rets, trace) = r.map_err(|p| Fail::new("c06:panic", format!("{which}: {p}")))?;
        for (i, (r, ok)) in rets.iter().zip(should_ok.iter()).enumerate() {
            if *ok && r != "Ok" {
                fail!("c06:write-returned-error", "{which} ({m}): write #{i} returned {r} although the transport never failed");
            }
            if !*ok && r == "Ok" {
                fail!("c06:refused-packet-reported-written", "{which} ({m}): write #{i} of a packet the encoder refuses returned Ok");
            }
        }
        if written != expected {
            let sig = if written.len() < expected.len() { "c06:bytes-lost-on-partial-write" } else { "c06:bytes-duplicated-or-reordered" };
            let first = written.iter().zip(expected.iter()).position(|(a, b)| a != b).unwrap_or(written.len().min(expected.len()));
            fail!(sig, "{which} ({m}): transport received {} bytes, the frames are {} bytes; first difference at byte {first}; {} packets", written.len(), expected.len(), encodable.len());
        }
        let partial = trace.iter().filter(|e| matches!(e, Event::WritePending)).count()
            + c.policy.iter().filter(|p| matches!(p, WriteStep::Accept(_))).count();
        let _ = partial;
    }
    let short_accepts = c.policy.iter().any(|p| matches!(p, WriteStep::Accept(k) if *k < 1020) || matches!(p, WriteStep::Pending));
    if short_accepts && !encodable.is_empty() {
        ev.nontrivial(&(c.compressed, &c.frames, format!("{:?}", c.policy)));
        ev.class("partial-acceptance");
    } else {
        ev.class("transport-accepts-everything");
    }
    if refused > 0 {
        ev.class("sequence-contains-refused-packets");
    }
    ev.max("packets", encodable.len() as u64);
    ev.max("bytes", expected.len() as u64);
    Ok(())
}

fn case_json(c: &WriteCase) -> Value {
    json!({"compressed": c.compressed, "frames": c.frames.iter().map(|f| hex(f)).collect::<Vec<_>>(), "policy": writes_json(&c.policy)})
}
fn case_from(v: &Value) -> Option<WriteCase> {
    Some(WriteCase {
        compressed: v.get("compressed")?.as_bool()?,
        frames: v.get("frames")?.as_array()?.iter().map(|f| unhex(f.as_str()?)).collect::<Option<Vec<_>>>()?,
        policy: writes_from(v.get("policy")?)?,
    })
}

pub struct Writes;
impl Part for Writes {
    type Case = WriteCase;
    fn name(&self) -> &'static str {
        "generated-write-sessions"
    }
    fn check(&self, c: &WriteCase, ev: &mut Local) -> Result<(), Fail> {
        judge(c, ev)?;
        if ev.wants_sample() && c.frames.len() <= 2 && c.policy.len() >= 2 && c.frames.iter().all(|f| f.len() <= 12) {
            ev.sample(|| case_json(c));
        }
        Ok(())
    }
    fn to_json(&self, c: &WriteCase) -> Value {
        case_json(c)
    }
    fn from_json(&self, v: &Value) -> Option<WriteCase> {
        case_from(v)
    }
}

/// all 2^7 ways a transport can accept one 8-byte frame piecewise (complete), both modes
pub struct Compositions;
impl Part for Compositions {
    type Case = (bool, u8);
    fn name(&self) -> &'static str {
        "all-acceptance-patterns-of-one-8-byte-frame"
    }
    fn check(&self, c: &(bool, u8), ev: &mut Local) -> Result<(), Fail> {
        let mode = if c.0 { Mode::Compressed } else { Mode::Uncompressed };
        let frame = vec![size_byte(&mode, 8), 4, 1, 4, 1, 0, 0, 0]; // IS_SMALL TMS 1
        let mut policy = vec![];
        let mut run = 1usize;
        for i in 0..7 {
            if c.1 >> i & 1 == 1 {
                policy.push(WriteStep::Accept(run));
                run = 1;
            } else {
                run += 1;
            }
        }
        policy.push(WriteStep::Accept(run));
        let wc = WriteCase { compressed: c.0, frames: vec![frame.clone(), frame], policy };
        let mut scratch = Local::new();
        scratch.frozen = true;
        judge(&wc, &mut scratch)?;
        ev.nontrivial_distinct();
        Ok(())
    }
    fn to_json(&self, c: &(bool, u8)) -> Value {
        json!({"compressed": c.0, "composition_mask": c.1})
    }
    fn from_json(&self, v: &Value) -> Option<(bool, u8)> {
        Some((v.get("compressed")?.as_bool()?, v.get("composition_mask")?.as_u64()? as u8))
    }
}


/// Writes between reads: a connection also writes on its own (keep-alive replies). Whatever was read before, every packet
/// handed to write() must reach the transport, in call order, between the replies.
#[derive(Clone, Debug)]
pub struct InterleavedCase {
    pub session: SessionCase,
    /// (before read attempt k, frame of the packet to write)
    pub writes: Vec<(usize, Vec<u8>)>,
}

pub struct Interleaved;
impl Part for Interleaved {
    type Case = InterleavedCase;
    fn name(&self) -> &'static str {
        "writes-interleaved-with-reads"
    }
    fn check(&self, c: &InterleavedCase, ev: &mut Local) -> Result<(), Fail> {
        let s = &c.session;
        let mode = s.mode();
        let stream = s.stream();
        let max_reads = boundaries(&stream, &mode).len() + s.steps.len() + 6;
        let model = model_results(&mode, s.verify, &s.steps, true, max_reads);
        let app: Vec<(usize, AppOp)> = c.writes.iter().map(|(k, f)| (*k, AppOp::Write(f.clone()))).collect();
        let keepalive = "Ok(Tiny(Tiny { reqi: RequestId(0), subt: None }))";
        // expected transport stream: user frames (independent encodings) before read k, the reply after a delivered keep-alive
        let mut expected: Vec<u8> = vec![];
        let mut user_frames = 0usize;
        let mut after_keepalive = 0usize;
        let mut refused_writes = 0usize;
        for (i, r) in model.iter().enumerate() {
            for (_, f) in c.writes.iter().filter(|(k, _)| *k == i) {
                if f.len() == 1 {
                    // a packet that is too large for one or both size modes: when the encoder refuses it nothing may reach
                    // the wire, and reads must go on either way
                    match crate::props::c03::seq_packet(f, &mode).and_then(|p| Codec::new(mode.clone()).encode(&p).ok()) {
                        Some(b) => {
                            expected.extend_from_slice(&b);
                            user_frames += 1;
                        },
                        None => refused_writes += 1,
                    }
                    continue;
                }
                if let Ok(p) = decode_one(f, &mode) {
                    if let Ok(b) = Codec::new(mode.clone()).encode(&p) {
                        expected.extend_from_slice(&b);
                        user_frames += 1;
                        if i > 0 && model[i - 1] == keepalive {
                            after_keepalive += 1;
                        }
                    }
                }
            }
            if r == keepalive {
                expected.extend_from_slice(&[size_byte(&mode, 4), 3, 0, 0]);
            }
        }
        let m = mode_name(&mode);
        for (which, r) in [("blocking", run_blocking_app(&mode, s.verify, s.steps.clone(), s.writes.clone(), max_reads, &app)), ("tokio", run_tokio_app(&mode, s.verify, s.steps.clone(), s.writes.clone(), max_reads, &app))] {
            if let Some(p) = &r.panic {
                fail!("c06:panic", "{which}: {p}");
            }
            ensure!(r.results == model, "c06:reads-disturbed-by-writes", "{which} ({m}): reads returned {:?}, expected {:?}", r.results.iter().map(|x| x.chars().take(40).collect::<String>()).collect::<Vec<_>>(), model.iter().map(|x| x.chars().take(40).collect::<String>()).collect::<Vec<_>>());
            if r.written != expected {
                let first = r.written.iter().zip(expected.iter()).position(|(a, b)| a != b).unwrap_or(r.written.len().min(expected.len()));
                let sig = if r.written.len() < expected.len() { "c06:written-packet-never-reached-the-transport" } else { "c06:bytes-duplicated-or-reordered" };
                fail!(sig, "{which} ({m}): {user_frames} packets written between {} reads: the transport received {} bytes {}, expected {} bytes {}; first difference at byte {first}", model.len(), r.written.len(), hex(&r.written[..r.written.len().min(48)]), expected.len(), hex(&expected[..expected.len().min(48)]));
            }
        }
        if user_frames > 0 && model.len() > 1 {
            ev.nontrivial(&(session_json(s).to_string(), &c.writes));
        }
        if after_keepalive > 0 {
            ev.class("write-right-after-a-delivered-keep-alive");
        }
        if refused_writes > 0 {
            ev.class("a refused write between reads");
        }
        if c.writes.iter().any(|(_, f)| f.len() == 4 && f[1] == 3 && f[2] == 0 && f[3] == 0) {
            ev.class("the application writes a TINY_NONE itself");
        }
        Ok(())
    }
    fn to_json(&self, c: &InterleavedCase) -> Value {
        json!({"session": session_json(&c.session), "writes": c.writes.iter().map(|(k, f)| json!({"before_read": k, "frame": hex(f)})).collect::<Vec<_>>()})
    }
    fn from_json(&self, v: &Value) -> Option<InterleavedCase> {
        let mut writes = vec![];
        for w in v.get("writes")?.as_array()? {
            writes.push((w.get("before_read")?.as_u64()? as usize, unhex(w.get("frame")?.as_str()?)?));
        }
        Some(InterleavedCase { session: session_from(v.get("session")?)?, writes })
    }
}

// ------------------------------------------------------------------ two connections driven by one thread
/// An application with two connections (two LFS hosts, or a host and the relay) on one runtime thread: whenever connection A's
/// transport is not ready in the middle of a frame, connection B writes a packet of its own before A is polled again. Each
/// transport must receive exactly the frames written on its connection.
#[derive(Clone, Debug)]
pub struct TwoCase {
    pub a: WriteCase,
    /// frames written on the second connection, one whenever the first one is suspended
    pub b: Vec<Vec<u8>>,
}

pub struct TwoConnections;
impl Part for TwoConnections {
    type Case = TwoCase;
    fn name(&self) -> &'static str {
        "two-connections-on-one-thread"
    }
    fn check(&self, c: &TwoCase, ev: &mut Local) -> Result<(), Fail> {
        let mode = if c.a.compressed { Mode::Compressed } else { Mode::Uncompressed };
        let pa = packets(&c.a, &mode);
        let pb: Vec<Packet> = c.b.iter().filter_map(|f| decode_one(f, &mode).ok()).filter(|p| Codec::new(mode.clone()).encode(p).is_ok()).collect();
        let ta = Transport::new(vec![], c.a.policy.clone()).vectored(c.a.policy.len() % 2 == 1);
        let tb = Transport::new(vec![], vec![]);
        let rt = tokio_runtime();
        let (ta2, tb2, m2) = (ta.clone(), tb.clone(), mode.clone());
        let outcome = guard(|| {
            rt.block_on(async {
                let mut fa = insim::net::tokio_impl::Framed::new(Box::new(ta2), Codec::new(m2.clone()));
                let mut fb = insim::net::tokio_impl::Framed::new(Box::new(tb2), Codec::new(m2.clone()));
                let mut sent_a: Vec<Vec<u8>> = vec![];
                let mut sent_b: Vec<Vec<u8>> = vec![];
                let mut next_b = 0usize;
                let mut suspensions = 0usize;
                for p in &pa {
                    let expect = Codec::new(m2.clone()).encode(p).map(|b| b.to_vec());
                    let r = {
                        let mut fut = Box::pin(fa.write(p.clone()));
                        let mut polls = 0;
                        loop {
                            polls += 1;
                            match futures_util::poll!(fut.as_mut()) {
                                std::task::Poll::Ready(r) => break r,
                                std::task::Poll::Pending => {
                                    suspensions += 1;
                                    if !pb.is_empty() {
                                        let q = &pb[next_b % pb.len()];
                                        next_b += 1;
                                        if fb.write(q.clone()).await.is_ok() {
                                            sent_b.push(Codec::new(m2.clone()).encode(q).expect("encodable").to_vec());
                                        }
                                    }
                                    if polls > 10_000 {
                                        return Err("the write on the first connection never completes".to_string());
                                    }
                                },
                            }
                        }
                    };
                    match (r, expect) {
                        (Ok(()), Ok(f)) => sent_a.push(f),
                        (Err(_), Err(_)) => {},
                        (Ok(()), Err(_)) => return Err("a packet the codec refuses was written successfully".to_string()),
                        (Err(e), Ok(_)) => return Err(format!("write on the first connection failed: {e}")),
                    }
                }
                Ok((sent_a, sent_b, suspensions))
            })
        })
        .map_err(|p| Fail::new("c06:panic", p))?;
        let (sent_a, sent_b, suspensions) = outcome.map_err(|e| Fail::new("c06:tokio-write-error", e))?;
        for (which, t, sent) in [("first", &ta, &sent_a), ("second", &tb, &sent_b)] {
            let want: Vec<u8> = sent.iter().flatten().copied().collect();
            let got = t.written();
            ensure!(
                got == want,
                "c06:bytes-duplicated-or-reordered",
                "tokio ({}), two connections on one thread, the first suspended {suspensions} times inside its writes: the {which} connection's transport received {} bytes {}, expected its own {} frames = {} bytes {}; first difference at byte {:?}",
                mode_name(&mode),
                got.len(),
                hex(&got[..got.len().min(64)]),
                sent.len(),
                want.len(),
                hex(&want[..want.len().min(64)]),
                got.iter().zip(want.iter()).position(|(a, b)| a != b)
            );
        }
        if suspensions > 0 && !sent_b.is_empty() {
            ev.nontrivial(&(c.a.compressed, &c.a.frames, &c.b));
            ev.class("the second connection wrote while the first was suspended inside a frame");
        } else {
            ev.class("no suspension");
        }
        Ok(())
    }
    fn to_json(&self, c: &TwoCase) -> Value {
        json!({"a": case_json(&c.a), "b": c.b.iter().map(|f| hex(f)).collect::<Vec<_>>()})
    }
    fn from_json(&self, v: &Value) -> Option<TwoCase> {
        Some(TwoCase { a: case_from(v.get("a")?)?, b: v.get("b")?.as_array()?.iter().map(|f| unhex(f.as_str()?)).collect::<Option<Vec<_>>>()? })
    }
}

pub fn parts() -> Vec<Box<dyn DynPart>> {
    vec![Box::new(Writes), Box::new(Compositions), Box::new(Interleaved), Box::new(FailedWrite), Box::new(TwoConnections)]
}

pub fn run(run: &mut Run) {
    run.rule = "Packet sequences (1..20 packets decoded from conformant frames of all kinds, sizes 4..1020) are written through a blocking \
        and a tokio connection whose scripted transport accepts k in 1..=offered bytes per call (biased to 1, a few, all) and, for tokio, \
        returns Pending any number of times. Oracle: the bytes accumulated by the transport equal the concatenation of the encoder's frames \
        and every write returned Ok; packets too large for the size mode are interspersed: their write must return an error and leave nothing on the wire, and the frames written after them must still be intact. Writes between reads: sessions in which the peer sends packets (keep-alives among them, which the connection answers itself) and the application writes packets (TINY_NONE among them) between the reads: the transport must receive the replies and the written frames in call order, nothing missing, nothing twice. Complete: all 128 acceptance patterns of an 8-byte frame (written twice) x 2 modes. Non-trivial = \
        at least one call accepted less than offered or returned Pending. Further parts: write sessions of thousands of packets; a transport error exactly at a frame boundary (that write fails, all others arrive intact); transports that announce vectored writes (every other script); two tokio connections driven by one thread, the second writing whenever the first is suspended inside a frame - each transport must receive exactly its own frames."
        .into();
    run.assumptions = vec!["the expected byte stream is the concatenation of Codec::encode of each packet (C01-C03 judge the encoder)".into()];
    run.enumerate(&Compositions, 256, true, |i| Some((i >= 128, (i % 128) as u8)));
    let policy = proptest::collection::vec(
        prop_oneof![
            4 => Just(WriteStep::Accept(1)),
            3 => (1usize..8).prop_map(WriteStep::Accept),
            2 => (1usize..300).prop_map(WriteStep::Accept),
            1 => Just(WriteStep::Accept(100_000)),
            3 => Just(WriteStep::Pending),
        ],
        0..60,
    );
    let strat = (any::<bool>(), proptest::collection::vec(frame_strategy(1, 1), 1..20), policy).prop_map(|(compressed, frames, policy)| {
        let mode = if compressed { Mode::Compressed } else { Mode::Uncompressed };
        let mut fr: Vec<Vec<u8>> = frames.iter().map(|f| frame_bytes(f, &mode)).collect();
        // now and then the application tries to send something too large for the size mode
        for (i, f) in frames.iter().enumerate() {
            if let FrameSpec::BadEnum(x) = f {
                fr[i] = vec![if x % 2 == 0 { 0xFF } else { 0xFE }];
            }
        }
        WriteCase { compressed, frames: fr, policy }
    });
    let n = run.budget(20_000, 1_000_000);
    run.prop(&Writes, strat, n);
    // long write sessions on one connection: thousands of packets, hundreds of KB (a counter, a high-water mark, a capacity
    // threshold on the write side)
    let long = (any::<bool>(), proptest::collection::vec(frame_strategy(1, 1), 8..40), 1500usize..6000, proptest::collection::vec(prop_oneof![2 => (1usize..5).prop_map(WriteStep::Accept), 1 => Just(WriteStep::Pending), 3 => (100usize..2000).prop_map(WriteStep::Accept)], 0..40)).prop_map(|(compressed, frames, n, policy)| {
        let mode = if compressed { Mode::Compressed } else { Mode::Uncompressed };
        let base: Vec<Vec<u8>> = frames.iter().map(|f| frame_bytes(f, &mode)).collect();
        let fr: Vec<Vec<u8>> = (0..n).map(|i| base[(i * 7 + i / 13) % base.len()].clone()).collect();
        WriteCase { compressed, frames: fr, policy }
    });
    let n = run.budget(60, 3_000);
    run.max_shrink_iters = 30;
    run.prop(&Writes, long, n);
    run.max_shrink_iters = 4096;
    // two connections on one thread: the second writes whenever the first is suspended inside a frame
    let pol = proptest::collection::vec(prop_oneof![3 => (1usize..6).prop_map(WriteStep::Accept), 3 => Just(WriteStep::Pending), 1 => (6usize..200).prop_map(WriteStep::Accept)], 1..30);
    let strat = (any::<bool>(), proptest::collection::vec(frame_strategy(1, 1), 1..6), proptest::collection::vec(frame_strategy(1, 1), 1..4), pol).prop_map(|(compressed, fa, fb, policy)| {
        let mode = if compressed { Mode::Compressed } else { Mode::Uncompressed };
        TwoCase { a: WriteCase { compressed, frames: fa.iter().map(|f| frame_bytes(f, &mode)).collect(), policy }, b: fb.iter().map(|f| frame_bytes(f, &mode)).collect() }
    });
    let n = run.budget(10_000, 500_000);
    run.prop(&TwoConnections, strat, n);
    // a transport error at a frame boundary
    let strat = (any::<bool>(), proptest::collection::vec(frame_strategy(1, 1), 2..8), any::<usize>()).prop_map(|(compressed, frames, j)| {
        let mode = if compressed { Mode::Compressed } else { Mode::Uncompressed };
        (WriteCase { compressed, frames: frames.iter().map(|f| frame_bytes(f, &mode)).collect(), policy: vec![] }, j)
    });
    let n = run.budget(10_000, 500_000);
    run.prop(&FailedWrite, strat, n);
    // writes between reads (the connection writes keep-alive replies of its own during reads)
    let strat = (session_strategy(8, 4, 1, false, Some(false)), proptest::collection::vec((0usize..8, frame_strategy(5, 1)), 0..5)).prop_map(|(session, w)| {
        let mode = session.mode();
        let mut writes: Vec<(usize, Vec<u8>)> = w.into_iter().map(|(k, f)| (k, frame_bytes(&f, &mode))).collect();
        // every third session: the application also tries to write a packet the encoder refuses
        if session.steps.len() % 3 == 0 {
            writes.push((session.steps.len() % 4, vec![0xFC + (session.steps.len() % 4) as u8]));
        }
        InterleavedCase { session, writes }
    });
    let n = run.budget(20_000, 1_000_000);
    run.prop(&Interleaved, strat, n);
}
