//! C11 — text fields always occupy their exact wire width and terminate correctly.

use std::io::Cursor;

use insim::net::Mode;
use insim_core::binrw::BinWrite;
use insim_core::string::codepages::to_lossy_bytes;
use proptest::prelude::*;
use serde_json::{json, Value};

use crate::engine::*;
use crate::refs::build;
use crate::refs::compare::*;
use crate::refs::dbgtree;
use crate::refs::image::{self, generic_path};
use crate::refs::spec::{coverage_problem, spec, Field, Kind};

#[derive(Debug, Clone, Copy, PartialEq)]
pub enum Shape {
    /// exactly `n` bytes
    Fixed { n: usize, nulterm: bool, raw: bool },
    /// 4-aligned, at most `max` bytes, to the end of the frame
    Var { max: usize, nulterm: bool },
}

/// (offset in the frame, shape) of a text field, from the specification table
pub fn locate(variant: &str, path: &str) -> (usize, Shape) {
    let p = spec().packet(variant).expect("variant");
    let want = generic_path(path);
    fn find(fields: &[Field], base: usize, prefix: &str, want: &str) -> Option<(usize, Shape)> {
        for f in fields {
            let path = if prefix.is_empty() { f.path.clone() } else { format!("{prefix}.{}", f.path) };
            let off = base + f.off;
            match &f.kind {
                Kind::Counted { fields, .. } | Kind::Array { fields, .. } => {
                    if let Some(k) = find(fields, off, &format!("{path}[]"), want) {
                        return Some(k);
                    }
                },
                Kind::Struct { fields } => {
                    if let Some(k) = find(fields, off, &path, want) {
                        return Some(k);
                    }
                },
                Kind::Str { len, raw, nulterm } if path == want => return Some((off, Shape::Fixed { n: *len, nulterm: *nulterm, raw: *raw })),
                Kind::StrVar { max, nulterm } if path == want => return Some((off, Shape::Var { max: *max, nulterm: *nulterm })),
                Kind::MsoText { max } if path == want => return Some((off + 1, Shape::Var { max: *max, nulterm: false })),
                _ => {},
            }
        }
        None
    }
    find(&p.fields, 0, "", &want).unwrap_or_else(|| panic!("{variant}.{path} is not a text field of the spec table"))
}

/// what the field must look like on the wire for `text`
pub fn expected_field(shape: Shape, text: &str) -> Vec<u8> {
    match shape {
        Shape::Fixed { n, nulterm, raw } => {
            let mut b = if raw { text.as_bytes().to_vec() } else { to_lossy_bytes(text).into_owned() };
            b.truncate(if nulterm { n - 1 } else { n });
            b.resize(n, 0);
            b
        },
        Shape::Var { max, nulterm } => {
            let mut b = to_lossy_bytes(text).into_owned();
            if nulterm {
                b.truncate(max - 1);
                let padded = (b.len() / 4 + 1) * 4;
                b.resize(padded, 0);
            } else {
                let padded = (b.len() + 3) & !3;
                b.resize(padded, 0);
                b.truncate(max);
            }
            b
        },
    }
}

/// index into build::TEXT_FIELDS, or TEXT_FIELDS.len() for Smx.track
#[derive(Clone, Debug)]
pub struct EncCase {
    pub field: usize,
    pub compressed: bool,
    pub text: String,
}

fn field_name(i: usize) -> String {
    if i == build::TEXT_FIELDS.len() {
        "Smx.track".into()
    } else {
        format!("{}.{}", build::TEXT_FIELDS[i].0, build::TEXT_FIELDS[i].1)
    }
}

fn smx_bytes(text: &str) -> Result<Vec<u8>, String> {
    let smx = insim_smx::Smx { track: text.to_string(), ..Default::default() };
    let mut c = Cursor::new(Vec::new());
    match guard(|| smx.write(&mut c)) {
        Err(p) => Err(format!("panic: {p}")),
        Ok(Err(e)) => Err(format!("{e}")),
        Ok(Ok(())) => Ok(c.into_inner()),
    }
}

pub struct EncodeSide;
impl Part for EncodeSide {
    type Case = EncCase;
    fn name(&self) -> &'static str {
        "encode-field-bytes"
    }
    fn check(&self, c: &EncCase, ev: &mut Local) -> Result<(), Fail> {
        let name = field_name(c.field);
        let sig = |w: &str| format!("c11:{w}:{name}");
        let enc_len = to_lossy_bytes(&c.text).len();
        let (frame, off, shape) = if c.field == build::TEXT_FIELDS.len() {
            let b = smx_bytes(&c.text).map_err(|e| Fail::new(sig("encode-failed"), format!("Smx.track {:?}: {e}", c.text)))?;
            (b, 16usize, Shape::Fixed { n: 32, nulterm: false, raw: false })
        } else {
            let (variant, path) = build::TEXT_FIELDS[c.field];
            let mode = if c.compressed { Mode::Compressed } else { Mode::Uncompressed };
            let (off, shape) = locate(variant, path);
            if let Shape::Fixed { raw: true, .. } = shape {
                if !c.text.is_ascii() {
                    return Ok(());
                }
            }
            let mut p = build::text_packet(variant, path, &c.text, 1).ok_or_else(|| Fail::new("harness:builder", variant))?;
            // the other fields of the packet are not always at their defaults (derived from the text, so that the case stays a
            // function of its inputs): whatever they hold, the text field's bytes are the same
            let h = c.text.bytes().fold(c.text.len() as u32, |a, b| a.wrapping_mul(31).wrapping_add(b as u32));
            if h % 2 == 1 {
                match &mut p {
                    insim::Packet::Btn(b) => {
                        b.typein = (h >> 1) as u8;
                        b.l = (h >> 17) as u8 % 201;
                    },
                    insim::Packet::Mtc(m) => {
                        m.ucid = insim::identifiers::ConnectionId((h >> 1) as u8);
                        m.plid = insim::identifiers::PlayerId((h >> 9) as u8);
                    },
                    insim::Packet::Mso(m) => {
                        m.ucid = insim::identifiers::ConnectionId((h >> 1) as u8);
                    },
                    insim::Packet::Iii(m) => {
                        m.ucid = insim::identifiers::ConnectionId((h >> 1) as u8);
                        m.plid = insim::identifiers::PlayerId((h >> 9) as u8);
                    },
                    insim::Packet::Acr(m) => {
                        m.ucid = insim::identifiers::ConnectionId((h >> 1) as u8);
                        m.admin = h & 2 == 2;
                    },
                    _ => {},
                }
            }
            let frame = match encode_one(&p, &mode) {
                Ok(f) => f,
                Err(e) => {
                    // a text can never make a packet unrepresentable: it is cut to the field
                    fail!(sig("encode-failed"), "{name} with a text of {} chars / {enc_len} encoded bytes: {e}", c.text.chars().count());
                },
            };
            (frame, off, shape)
        };
        let want = expected_field(shape, &c.text);
        let got: &[u8] = match shape {
            Shape::Fixed { n, .. } => {
                ensure!(frame.len() >= off + n, sig("field-truncated"), "{name}: frame of {} bytes cannot hold {n} bytes at {off}", frame.len());
                &frame[off..off + n]
            },
            Shape::Var { max, .. } => {
                ensure!(frame.len() >= off, sig("field-truncated"), "{name}: frame too short");
                let f = &frame[off..];
                ensure!(f.len() % 4 == 0, sig("variable-field-not-aligned"), "{name}: text field is {} bytes long for {:?}", f.len(), c.text);
                ensure!(f.len() <= max, sig("variable-field-exceeds-maximum"), "{name}: text field is {} bytes, maximum {max}", f.len());
                f
            },
        };
        let must_end_in_nul = matches!(shape, Shape::Fixed { nulterm: true, .. } | Shape::Var { nulterm: true, .. });
        if must_end_in_nul {
            ensure!(
                frame.last() == Some(&0),
                sig("missing-nul-terminator"),
                "{name}: text of {enc_len} encoded bytes: frame ends in {:#04x}, LFS requires a NUL (field {})",
                frame.last().copied().unwrap_or(0),
                hex(&got[got.len().saturating_sub(8)..])
            );
        }
        if got != want.as_slice() {
            fail!(sig("field-bytes-differ"), "{name}: text {:?} ({enc_len} encoded bytes): field is {} expected {}", c.text.chars().take(20).collect::<String>(), hex(got), hex(&want));
        }
        let n = match shape {
            Shape::Fixed { n, .. } => n,
            Shape::Var { max, .. } => max,
        };
        let nontrivial = enc_len + 1 >= n || enc_len % 4 == 0 || enc_len != c.text.chars().count();
        if nontrivial {
            ev.nontrivial(&(c.field, c.compressed, &c.text));
        }
        ev.class(&name);
        ev.class(if enc_len > n { "longer-than-field" } else if enc_len + 1 >= n { "fills-field" } else if enc_len % 4 == 0 { "multiple-of-4" } else { "short" });
        if ev.wants_sample() && !c.text.is_ascii() && got.len() <= 32 {
            ev.sample(|| json!({"field": name, "text": c.text, "field_bytes": hex(got)}));
        }
        Ok(())
    }
    fn to_json(&self, c: &EncCase) -> Value {
        json!({"field": field_name(c.field), "compressed": c.compressed, "text": c.text})
    }
    fn from_json(&self, v: &Value) -> Option<EncCase> {
        let f = v.get("field")?.as_str()?;
        let idx = (0..=build::TEXT_FIELDS.len()).find(|i| field_name(*i) == f)?;
        Some(EncCase { field: idx, compressed: v.get("compressed")?.as_bool()?, text: v.get("text")?.as_str()?.to_string() })
    }
}

/// decode side: a NUL inside the field ends the text, whatever follows
#[derive(Clone, Debug)]
pub struct DecCase {
    pub field: usize,
    pub compressed: bool,
    pub prefix: String,
    pub garbage: Vec<u8>,
    /// IS_MSO only: the TextStart byte (anywhere: inside the text, behind its terminator, beyond the message)
    pub textstart: u8,
    /// when non-empty: arbitrary NUL-free bytes before the terminator (codepage markers, double-byte characters, a dangling lead
    /// byte right before the NUL) instead of `prefix`; the oracle is then metamorphic (see check)
    pub raw_prefix: Vec<u8>,
}

/// does the string that this `{:?}` rendering stands for contain U+0000? (an escaped backslash followed by '0' does not count)
fn debug_string_holds_nul(dbg: &str) -> bool {
    let mut it = dbg.chars().peekable();
    while let Some(c) = it.next() {
        if c == '\0' {
            return true;
        }
        if c != '\\' {
            continue;
        }
        match it.next() {
            Some('0') => return true,
            Some('u') => {
                let hexdigits: String = it.by_ref().skip_while(|c| *c == '{').take_while(|c| *c != '}').collect();
                if u32::from_str_radix(&hexdigits, 16) == Ok(0) {
                    return true;
                }
            },
            _ => {},
        }
    }
    false
}

pub struct DecodeSide;
impl DecodeSide {
    /// Arbitrary bytes before the terminator: what follows the first NUL must not influence the decoded text, and the text
    /// holds no NUL. (frame A: prefix, NUL, garbage; frame B: prefix, NUL, zeros - both must decode to the same field)
    fn check_raw(&self, c: &DecCase, ev: &mut Local) -> Result<(), Fail> {
        let (variant, path) = build::TEXT_FIELDS[c.field];
        let name = field_name(c.field);
        let mode = if c.compressed { Mode::Compressed } else { Mode::Uncompressed };
        let (off, shape) = locate(variant, path);
        let p = spec().packet(variant).unwrap();
        let base = {
            let t = image::targets(p);
            match t.iter().find(|(path, _)| path.contains("[0]")) {
                Some((path, _)) => image::one_hot(p, &mode, Some((path, 0))).image,
                None => image::one_hot(p, &mode, None).image,
            }
        };
        let build_frame = |tail: &dyn Fn(usize) -> u8| -> (Vec<u8>, Vec<u8>) {
            let mut frame = base.clone();
            let mut content: Vec<u8> = c.raw_prefix.iter().map(|b| if *b == 0 { 0x81 } else { *b }).collect();
            let cap = match shape {
                Shape::Fixed { n, .. } => n,
                Shape::Var { max, .. } => max,
            };
            content.truncate(cap.saturating_sub(2));
            content.push(0);
            for i in 0..c.garbage.len() {
                content.push(tail(i));
            }
            match shape {
                Shape::Fixed { n, .. } => {
                    content.truncate(n);
                    // the rest of the field keeps the base frame's zeros in both variants
                    frame[off..off + content.len()].copy_from_slice(&content);
                },
                Shape::Var { max, .. } => {
                    content.truncate(max);
                    while content.len() % 4 != 0 {
                        content.push(0);
                    }
                    frame.truncate(off);
                    frame.extend_from_slice(&content);
                    frame[0] = match mode {
                        Mode::Compressed => (frame.len() / 4) as u8,
                        Mode::Uncompressed => frame.len() as u8,
                    };
                    if variant == "Mso" {
                        frame[off - 1] = 0;
                    }
                },
            }
            (frame, content)
        };
        let (fa, ca) = build_frame(&|i| if c.garbage[i] == 0 { 1 } else { c.garbage[i] });
        let (fb, _) = build_frame(&|_| 0);
        let field_of = |frame: &[u8]| -> Result<String, Fail> {
            let pkt = decode_one(frame, &mode).map_err(|e| Fail::new(format!("c11:frame-rejected:{name}"), format!("{name}: {e}: {}", hex(frame))))?;
            let tree = dbgtree::parse(&format!("{pkt:?}")).map_err(|e| Fail::new("harness:debug-parse", e))?;
            Ok(tree.get(path).ok_or_else(|| Fail::new("harness:path-missing", format!("{path} in {pkt:?}")))?.text().to_string())
        };
        let (a, b) = (field_of(&fa)?, field_of(&fb)?);
        ensure!(
            a == b,
            format!("c11:decode-does-not-stop-at-nul:{name}"),
            "{name}: field bytes {} decode to {a}, but with zeros after the first NUL to {b}",
            hex(&ca)
        );
        ensure!(!debug_string_holds_nul(&a), format!("c11:decode-does-not-stop-at-nul:{name}"), "{name}: field bytes {} decode to {a}, which holds a NUL", hex(&ca));
        ev.nontrivial(&(c.field, &c.raw_prefix, &c.garbage));
        ev.class(&name);
        ev.class("arbitrary-bytes-before-the-terminator");
        Ok(())
    }
}
impl Part for DecodeSide {
    type Case = DecCase;
    fn name(&self) -> &'static str {
        "decode-stops-at-first-nul"
    }
    fn check(&self, c: &DecCase, ev: &mut Local) -> Result<(), Fail> {
        let (variant, path) = build::TEXT_FIELDS[c.field];
        let name = field_name(c.field);
        let mode = if c.compressed { Mode::Compressed } else { Mode::Uncompressed };
        let (off, shape) = locate(variant, path);
        let p = spec().packet(variant).unwrap();
        let base = {
            let t = image::targets(p);
            match t.iter().find(|(path, _)| path.contains("[0]")) {
                Some((path, _)) => image::one_hot(p, &mode, Some((path, 0))).image,
                None => image::one_hot(p, &mode, None).image,
            }
        };
        if !c.raw_prefix.is_empty() {
            return self.check_raw(c, ev);
        }
        let mut frame = base.clone();
        let mut content = c.prefix.as_bytes().to_vec();
        content.push(0);
        content.extend(c.garbage.iter().map(|b| if *b == 0 { 1 } else { *b }));
        match shape {
            Shape::Fixed { n, .. } => {
                content.truncate(n);
                frame[off..off + content.len()].copy_from_slice(&content);
            },
            Shape::Var { max, .. } => {
                content.truncate(max);
                while content.len() % 4 != 0 {
                    content.push(0);
                }
                frame.truncate(off);
                frame.extend_from_slice(&content);
                frame[0] = match mode {
                    Mode::Compressed => (frame.len() / 4) as u8,
                    Mode::Uncompressed => frame.len() as u8,
                };
                if variant == "Mso" {
                    frame[off - 1] = c.textstart;
                }
            },
        }
        let expected: String = c.prefix.chars().take(match shape {
            Shape::Fixed { n, .. } => n,
            Shape::Var { max, .. } => max,
        }).collect();
        let pkt = match decode_one(&frame, &mode) {
            Ok(p) => p,
            // a TextStart beyond the message that was sent cannot be honoured: refusing that frame is fine
            Err(_) if variant == "Mso" && c.textstart as usize > frame.len() - off => {
                ev.class("mso-text-start-beyond-the-message: refused");
                return Ok(());
            },
            Err(e) => return Err(Fail::new(format!("c11:frame-rejected:{name}"), format!("{name}: {e}: {}", hex(&frame)))),
        };
        let tree = dbgtree::parse(&format!("{pkt:?}")).map_err(|e| Fail::new("harness:debug-parse", e))?;
        let node = tree.get(path).ok_or_else(|| Fail::new("harness:path-missing", format!("{path} in {pkt:?}")))?;
        let want = format!("{expected:?}");
        ensure!(
            node.text() == want,
            format!("c11:decode-does-not-stop-at-nul:{name}"),
            "{name}: field bytes {} decode to {}, expected {want}",
            hex(&content),
            node.text()
        );
        ev.nontrivial(&(c.field, &c.prefix, &c.garbage, c.textstart));
        ev.class(&name);
        if variant == "Mso" && c.textstart as usize > c.prefix.len() {
            ev.class("mso-text-start-behind-the-terminator");
        }
        if ev.wants_sample() && content.len() <= 16 {
            ev.sample(|| json!({"field": name, "field_bytes": hex(&content), "decoded": expected}));
        }
        Ok(())
    }
    fn to_json(&self, c: &DecCase) -> Value {
        json!({"field": field_name(c.field), "compressed": c.compressed, "prefix": c.prefix, "garbage": hex(&c.garbage), "textstart": c.textstart, "raw_prefix": hex(&c.raw_prefix)})
    }
    fn from_json(&self, v: &Value) -> Option<DecCase> {
        let f = v.get("field")?.as_str()?;
        let idx = (0..build::TEXT_FIELDS.len()).find(|i| field_name(*i) == f)?;
        Some(DecCase { field: idx, compressed: v.get("compressed")?.as_bool()?, prefix: v.get("prefix")?.as_str()?.to_string(), garbage: unhex(v.get("garbage")?.as_str()?)?, textstart: v.get("textstart").and_then(|t| t.as_u64()).unwrap_or(0) as u8, raw_prefix: v.get("raw_prefix").and_then(|t| t.as_str()).and_then(unhex).unwrap_or_default() })
    }
}


// ------------------------------------------------------------------ the one text field that is not written by the codepage writer
/// IS_VER's `Version[8]` is the printed form of a `GameVersion`, whose fields are public: number, letter (any `char`) and
/// revision. Whatever they hold, the field is the printed form cut to 8 bytes and NUL-padded, and `Product[6]`, `InSimVer` and
/// the spare byte follow at their fixed offsets in a 20-byte packet.
#[derive(Clone, Debug)]
pub struct VerCase {
    pub major_bits: u32,
    pub minor: char,
    pub patch: Option<u64>,
    pub product: String,
    pub compressed: bool,
}

pub struct BuiltVerField;
impl Part for BuiltVerField {
    type Case = VerCase;
    fn name(&self) -> &'static str {
        "hand-built-version-field"
    }
    fn check(&self, c: &VerCase, ev: &mut Local) -> Result<(), Fail> {
        let major = f32::from_bits(c.major_bits);
        if !major.is_finite() {
            ev.class("number not finite: skipped");
            return Ok(());
        }
        let mode = if c.compressed { Mode::Compressed } else { Mode::Uncompressed };
        let mut v = insim::insim::Ver::default();
        v.reqi = insim::identifiers::RequestId(1);
        v.version = insim_core::game_version::GameVersion { major, minor: c.minor, patch: c.patch.map(|p| p as usize) };
        v.product = c.product.clone();
        v.insimver = 9;
        let shown = guard(|| v.version.to_string()).map_err(|p| Fail::new("c11:panic", format!("printing {:?}: {p}", v.version)))?;
        let what = format!("Ver {{ version: {:?} (prints {shown:?}), product: {:?} }} ({})", v.version, c.product, mode_name(&mode));
        let frame = match encode_one(&insim::Packet::Ver(v), &mode) {
            Ok(f) => f,
            Err(e) if e.contains("panicked") => fail!("c11:panic:Ver.version", "{what}: {e}"),
            Err(_) => {
                ev.class("refused");
                return Ok(());
            },
        };
        let mut want = vec![if c.compressed { 5 } else { 20 }, 2, 1, 0];
        let mut field = shown.as_bytes()[..shown.len().min(8)].to_vec();
        field.resize(8, 0);
        want.extend_from_slice(&field);
        let mut product = c.product.as_bytes()[..c.product.len().min(6)].to_vec();
        product.resize(6, 0);
        want.extend_from_slice(&product);
        want.extend_from_slice(&[9, 0]);
        ensure!(frame.len() == 20, "c11:fixed-field-width:Ver.version", "{what}: the packet is {} bytes, not 20: {}", frame.len(), hex(&frame));
        ensure!(frame == want, "c11:fixed-field-bytes:Ver.version", "{what}: encoded as {}, expected {}", hex(&frame), hex(&want));
        let straddles = shown.len() > 8 && !shown.is_char_boundary(8);
        ev.class(if straddles {
            "a multi-byte character lies across the end of the field"
        } else if shown.len() > 8 {
            "printed form longer than the field"
        } else if !shown.is_ascii() {
            "multi-byte character inside the field"
        } else {
            "fits"
        });
        if shown.len() >= 8 || !shown.is_ascii() {
            ev.nontrivial(&(c.major_bits, c.minor, c.patch, &c.product, c.compressed));
        }
        if ev.wants_sample() && straddles {
            ev.sample(|| json!({"version": shown, "frame": hex(&frame)}));
        }
        Ok(())
    }
    fn to_json(&self, c: &VerCase) -> Value {
        json!({"major_bits": c.major_bits, "major": f32::from_bits(c.major_bits).to_string(), "minor": c.minor.to_string(), "patch": c.patch, "product": c.product, "compressed": c.compressed})
    }
    fn from_json(&self, v: &Value) -> Option<VerCase> {
        Some(VerCase {
            major_bits: v.get("major_bits")?.as_u64()? as u32,
            minor: v.get("minor")?.as_str()?.chars().next()?,
            patch: v.get("patch").and_then(|r| r.as_u64()),
            product: v.get("product")?.as_str()?.to_string(),
            compressed: v.get("compressed")?.as_bool()?,
        })
    }
}

pub fn ver_field_strategy() -> impl Strategy<Value = VerCase> {
    // numbers whose printed form has every length from 1 to 9 and beyond: d digits before the point, f after it
    let major = prop_oneof![
        6 => (0u32..5, 0u32..8, any::<u32>()).prop_map(|(d, f, r)| {
            let int = if d == 0 { 0 } else { 10u32.pow(d - 1) + r % (9 * 10u32.pow(d - 1)) };
            let text = if f == 0 { format!("{int}") } else { format!("{int}.{:0width$}", 1 + (r / 7) % (10u32.pow(f) - 1), width = f as usize) };
            text.parse::<f32>().unwrap_or(0.7).to_bits()
        }),
        1 => any::<u32>(),
        1 => Just(0.7f32.to_bits()),
    ];
    let minor = prop_oneof![
        3 => (0u8..26).prop_map(|k| (b'A' + k) as char),
        1 => (0u8..26).prop_map(|k| (b'a' + k) as char),
        3 => prop::sample::select(vec!['\u{e9}', '\u{df}', '\u{44e}', '\u{3a9}', '\u{80}', '\u{7ff}', '\u{91d1}', '\u{20ac}', '\u{800}', '\u{ffff}', '\u{1d11e}', '\u{10000}', '\u{10ffff}']),
        1 => any::<char>(),
    ];
    let patch = prop_oneof![3 => Just(None), 3 => (0u64..300).prop_map(Some), 1 => any::<u64>().prop_map(Some)];
    let product = prop_oneof![3 => prop::sample::select(vec!["DEMO", "S1", "S2", "S3", ""]).prop_map(String::from), 1 => "[ -~]{0,9}"];
    (major, minor, patch, product, any::<bool>()).prop_map(|(major_bits, minor, patch, product, compressed)| VerCase { major_bits, minor, patch, product, compressed })
}

pub fn parts() -> Vec<Box<dyn DynPart>> {
    vec![Box::new(EncodeSide), Box::new(DecodeSide), Box::new(BuiltVerField)]
}

pub fn run(run: &mut Run) {
    if let Some(p) = coverage_problem() {
        eprintln!("HARNESS OUT OF DATE: {p}");
        std::process::exit(2);
    }
    run.rule = "For each of the 30 text-bearing packet fields (offsets and widths from the specification table) and Smx.track: the field's byte \
        range in the encoded frame must equal the encoded text cut to the field and NUL-padded (fixed width: exactly N bytes; variable: \
        multiple of 4, <= max); MST/MSX/MSL/MTC must end in NUL for every text. (1) complete: ASCII text of every length 0..=2N+2 per field \
        and mode; (2) random multi-byte / multi-codepage text whose encoded length differs from its character count; (3) decode side: \
        field content `prefix NUL garbage` must decode to `prefix`. Non-trivial = encoded length >= N-1, or a multiple of 4, or different \
        from the character count."
        .into();
    run.assumptions = vec![
        "the encoded form of a text is what insim_core's to_lossy_bytes returns (its correctness is C10's subject); raw fields carry UTF-8 bytes".into(),
        "field offsets / widths come from spec/insim9.spec".into(),
    ];
    let nfields = build::TEXT_FIELDS.len() + 1;
    // (1) complete ASCII sweep
    let mut cases = vec![];
    for i in 0..nfields {
        let n = if i == build::TEXT_FIELDS.len() {
            32
        } else {
            match locate(build::TEXT_FIELDS[i].0, build::TEXT_FIELDS[i].1).1 {
                Shape::Fixed { n, .. } => n,
                Shape::Var { max, .. } => max,
            }
        };
        for compressed in [false, true] {
            if i == build::TEXT_FIELDS.len() && compressed {
                continue;
            }
            for len in 0..=(2 * n + 2) {
                let text: String = (0..len).map(|k| (b'A' + (k % 26) as u8) as char).collect();
                cases.push(EncCase { field: i, compressed, text });
            }
        }
    }
    let n = cases.len() as u64;
    run.enumerate(&EncodeSide, n, true, |i| Some(cases[i as usize].clone()));
    // (2) random multi-byte text
    let tables = crate::refs::cp::tables();
    let ch = prop_oneof![
        3 => (0x20u8..0x7E).prop_map(|b| if b == b'^' { '~' } else { b as char }),
        3 => (0..tables.len(), any::<prop::sample::Index>()).prop_map(move |(t, ix)| {
            let e = &tables[t].entries;
            e[ix.index(e.len())].1
        }),
        1 => Just('^'),
    ];
    let strat = (0..nfields, any::<bool>(), proptest::collection::vec(ch, 0..260), any::<prop::sample::Index>()).prop_map(|(field, compressed, v, cut)| {
        let n = if field == build::TEXT_FIELDS.len() {
            32
        } else {
            match locate(build::TEXT_FIELDS[field].0, build::TEXT_FIELDS[field].1).1 {
                Shape::Fixed { n, .. } => n,
                Shape::Var { max, .. } => max,
            }
        };
        // lengths concentrate around 0..2N characters
        let keep = cut.index(2 * n + 1).min(v.len());
        let mut text: String = v.into_iter().take(keep).collect();
        // one text in eight has the "\0caption\0text" shape of type-in buttons (a leading NUL, a second one somewhere)
        if keep % 8 == 3 {
            let mid = text.char_indices().nth(keep / 3).map(|(i, _)| i).unwrap_or(text.len());
            text.insert(mid, '\0');
            text.insert(0, '\0');
        }
        EncCase { field, compressed, text }
    });
    let n = run.budget(150_000, 8_000_000);
    run.prop(&EncodeSide, strat, n);
    // (3) decode side
    let strat = (0..build::TEXT_FIELDS.len(), any::<bool>(), "[ -~]{0,20}".prop_map(|s: String| s.replace('^', "x")), proptest::collection::vec(any::<u8>(), 0..40), prop_oneof![Just(0u8), 0u8..70, any::<u8>()]).prop_map(|(field, compressed, prefix, garbage, textstart)| DecCase { field, compressed, prefix, garbage, textstart, raw_prefix: vec![] });
    // the MSO field is one of 30: give it its own share, TextStart anywhere
    let mso = build::TEXT_FIELDS.iter().position(|(v, _)| *v == "Mso").expect("Mso.msg is a text field");
    let mso_strat = (any::<bool>(), "[ -~]{0,20}".prop_map(|s: String| s.replace('^', "x")), proptest::collection::vec(any::<u8>(), 0..40), 0u8..80).prop_map(move |(compressed, prefix, garbage, textstart)| DecCase { field: mso, compressed, prefix, garbage, textstart, raw_prefix: vec![] });
    let n = run.budget(20_000, 1_000_000);
    run.prop(&DecodeSide, mso_strat, n);
    // arbitrary bytes before the terminator: codepage markers, double-byte pairs, lone high bytes, and - often - a dangling lead
    // byte as the very last byte before the NUL
    let seg = prop_oneof![
        3 => proptest::collection::vec(0x20u8..0x7F, 1..5),
        2 => (0usize..12).prop_map(|k| vec![b'^', b"LGCETBJHSK8^"[k]]),
        3 => (0x81u8..0xFF, 0x40u8..0xFF).prop_map(|(a, b)| vec![a, b]),
        1 => (0x80u8..=0xFF).prop_map(|a| vec![a]),
    ];
    let raw = (0..build::TEXT_FIELDS.len(), any::<bool>(), proptest::collection::vec(seg, 1..10), prop_oneof![1 => Just(None), 2 => (0x81u8..0xFF).prop_map(Some)], proptest::collection::vec(any::<u8>(), 1..40)).prop_map(
        |(field, compressed, segs, dangling, garbage)| {
            let mut raw_prefix: Vec<u8> = segs.into_iter().flatten().collect();
            if let Some(d) = dangling {
                raw_prefix.push(d);
            }
            DecCase { field, compressed, prefix: String::new(), garbage, textstart: 0, raw_prefix }
        },
    );
    let n = run.budget(60_000, 2_000_000);
    run.prop(&DecodeSide, raw, n);
    let n = run.budget(60_000, 2_000_000);
    run.prop(&DecodeSide, strat, n);
    // (4) IS_VER built by hand around any version value
    let n = run.budget(60_000, 2_000_000);
    run.prop(&BuiltVerField, ver_field_strategy(), n);
}
