//! C01 — lossless packet round trip in both directions (closed relation: no specification knowledge used).

use insim::net::Mode;
use insim::Packet;
use proptest::prelude::*;
use serde_json::{json, Value};

use crate::engine::*;
use crate::props::c02::{tape_strategy, TapeCase};
use crate::refs::build;
use crate::refs::compare::*;
use crate::refs::cp;
use crate::refs::image::{self, generic_path, Tape};
use crate::refs::spec::{coverage_problem, spec};

/// the round-trip oracle on a typed packet
pub fn judge_roundtrip(p0: &Packet, mode: &Mode, origin: &str) -> Result<Vec<u8>, Fail> {
    let d0 = format!("{p0:?}");
    let kind = d0.split(|c| c == '(' || c == ' ').next().unwrap_or("?").to_string();
    let e1 = encode_one(p0, mode).map_err(|e| Fail::new(format!("c01:encode-refused:{kind}"), format!("{origin}: in-domain packet cannot be encoded: {e}: {d0}")))?;
    // encoding is a function of the packet: the same packet encoded again gives the same bytes
    let e1b = encode_one(p0, mode).map_err(|e| Fail::new(format!("c01:encode-refused:{kind}"), format!("{origin}: second encoding refused: {e}")))?;
    if e1b != e1 {
        return Err(Fail::new(format!("c01:encoding-not-repeatable:{kind}"), format!("{origin}: the same packet encodes to {} and then to {}", hex(&e1), hex(&e1b))));
    }
    let p1 = decode_one(&e1, mode).map_err(|e| Fail::new(format!("c01:own-frame-rejected:{kind}"), format!("{origin}: {e}: frame {} from {d0}", hex(&e1))))?;
    let d1 = format!("{p1:?}");
    if d1 != d0 && !same_up_to_set_order(&d0, &d1) {
        // name the first differing field
        let field = first_differing_field(&d0, &d1);
        return Err(Fail::new(
            format!("c01:roundtrip-differs:{kind}.{}", generic_path(&field)),
            format!("{origin}: field {field}: {d0} -> {} -> {d1}", hex(&e1)),
        ));
    }
    let e2 = encode_one(&p1, mode).map_err(|e| Fail::new(format!("c01:reencode-refused:{kind}"), format!("{origin}: {e}: {d1}")))?;
    if e2 != e1 {
        return Err(Fail::new(
            format!("c01:reencode-differs:{kind}"),
            format!("{origin}: bytes -> packet -> bytes: {} -> {d1} -> {}", hex(&e1), hex(&e2)),
        ));
    }
    Ok(e1)
}

/// IndexSet-backed fields (allowed cars / mods / bans) compare as sets: insertion order is not part of the value
fn same_up_to_set_order(a: &str, b: &str) -> bool {
    use crate::refs::dbgtree::parse;
    match (parse(a), parse(b)) {
        (Ok(x), Ok(y)) => x.canon() == y.canon(),
        _ => false,
    }
}

fn first_differing_field(a: &str, b: &str) -> String {
    use crate::refs::dbgtree::parse;
    let (Ok(ta), Ok(tb)) = (parse(a), parse(b)) else {
        return "?".into();
    };
    let mut pa = vec![];
    ta.leaf_paths("", &mut pa);
    for p in pa {
        match (ta.get(&p), tb.get(&p)) {
            (Some(x), Some(y)) if x.text() == y.text() => {},
            _ => return p,
        }
    }
    "?".into()
}

// ---------------------------------------------------------------------------------------
// route 1: typed packets obtained by decoding reference images of every kind
// ---------------------------------------------------------------------------------------
pub struct Route1;
impl Part for Route1 {
    type Case = TapeCase;
    fn name(&self) -> &'static str {
        "decoded-reference-images"
    }
    fn check(&self, c: &TapeCase, ev: &mut Local) -> Result<(), Fail> {
        let p = spec().packet(&c.variant).ok_or_else(|| Fail::new("harness:variant", c.variant.clone()))?;
        let mode = if c.compressed { Mode::Compressed } else { Mode::Uncompressed };
        let inst = image::from_tape(p, &mode, &c.tape, true);
        // if the reference frame itself is not accepted that is C02's finding, not a round-trip failure
        let Ok(p0) = decode_one(&inst.image, &mode) else {
            ev.class("reference-frame-not-accepted (see C02)");
            return Ok(());
        };
        // "text up to the field width": the text must fit its field when the crate's own encoder writes it (it may
        // choose other markers than the reference image did); longer text is truncated by contract (C11), not round-tripped
        for t in &inst.texts {
            if !t.ascii && insim_core::string::codepages::to_lossy_bytes(&t.text).len() > t.end - t.start - usize::from(!t.raw && false) {
                ev.class("skipped: text does not fit its field in the encoder's own marker choice");
                return Ok(());
            }
        }
        // in-domain means: every text fits its field when written by the crate's own encoder
        let e1 = judge_roundtrip(&p0, &mode, "decoded reference image")?;
        let default_frame = image::one_hot(p, &mode, None);
        if e1[2..] != default_frame.image[2..] {
            ev.nontrivial(&e1);
        }
        ev.class(&c.variant);
        ev.max("frame-length", e1.len() as u64);
        if ev.wants_sample() && e1.len() < 48 && e1.len() > 8 {
            ev.sample(|| json!({"kind": c.variant, "mode": mode_name(&mode), "frame": hex(&e1), "packet": format!("{p0:?}")}));
        }
        Ok(())
    }
    fn to_json(&self, c: &TapeCase) -> Value {
        json!({"kind": c.variant, "compressed": c.compressed, "tape": hex(&c.tape)})
    }
    fn from_json(&self, v: &Value) -> Option<TapeCase> {
        Some(TapeCase { variant: v.get("kind")?.as_str()?.to_string(), compressed: v.get("compressed")?.as_bool()?, tape: unhex(v.get("tape")?.as_str()?)? })
    }
}

// ---------------------------------------------------------------------------------------
// route 2a: hand-built typed packets of the kinds with hand-written codecs / sub-byte fields / counted collections
// ---------------------------------------------------------------------------------------
#[derive(Clone, Debug)]
pub struct BuiltCase {
    pub variant: String,
    pub compressed: bool,
    pub count: usize,
    pub tape: Vec<u8>,
}

pub struct Route2;
impl Part for Route2 {
    type Case = BuiltCase;
    fn name(&self) -> &'static str {
        "hand-built-packets"
    }
    fn check(&self, c: &BuiltCase, ev: &mut Local) -> Result<(), Fail> {
        let mode = if c.compressed { Mode::Compressed } else { Mode::Uncompressed };
        let mut t = Tape::new(&c.tape);
        let p0 = if build::COUNTED.contains(&c.variant.as_str()) {
            let (hdr, elem, _, max, _) = build::counted_layout(&c.variant);
            let limit = if c.compressed { 1020 } else { 255 };
            let n = c.count.min(max).min((limit - hdr) / elem);
            build::counted_packet(&c.variant, n, &mut t)
        } else {
            build::handwritten_packet(&c.variant, &mut t)
        };
        let Some(p0) = p0 else {
            return Err(Fail::new("harness:builder", c.variant.clone()));
        };
        let e1 = judge_roundtrip(&p0, &mode, "hand-built packet")?;
        ev.nontrivial(&e1);
        ev.class(&c.variant);
        if ev.wants_sample() && e1.len() < 48 {
            ev.sample(|| json!({"kind": c.variant, "mode": mode_name(&mode), "frame": hex(&e1), "packet": format!("{p0:?}")}));
        }
        Ok(())
    }
    fn to_json(&self, c: &BuiltCase) -> Value {
        json!({"kind": c.variant, "compressed": c.compressed, "count": c.count, "tape": hex(&c.tape)})
    }
    fn from_json(&self, v: &Value) -> Option<BuiltCase> {
        Some(BuiltCase {
            variant: v.get("kind")?.as_str()?.to_string(),
            compressed: v.get("compressed")?.as_bool()?,
            count: v.get("count")?.as_u64()? as usize,
            tape: unhex(v.get("tape")?.as_str()?)?,
        })
    }
}

fn built_strategy() -> impl Strategy<Value = BuiltCase> {
    let kinds: Vec<&'static str> = build::COUNTED.iter().chain(build::HANDWRITTEN.iter()).copied().collect();
    (prop::sample::select(kinds), any::<bool>(), 0usize..=121, proptest::collection::vec(any::<u8>(), 0..700)).prop_map(|(k, compressed, count, tape)| BuiltCase {
        variant: k.to_string(),
        compressed,
        count,
        tape,
    })
}

// ---------------------------------------------------------------------------------------
// route 2b: text up to the field width, including multi-codepage text, in every text-bearing field
// ---------------------------------------------------------------------------------------
#[derive(Clone, Debug)]
pub struct TextCase {
    pub field: usize,
    pub compressed: bool,
    pub text: String,
}

/// (width in bytes available to text, raw?) of a text field, from the specification table
pub fn text_capacity(variant: &str, path: &str) -> (usize, bool) {
    use crate::refs::spec::Kind;
    let p = spec().packet(variant).expect("variant");
    let leaf = generic_path(path);
    fn find<'a>(fields: &'a [crate::refs::spec::Field], prefix: &str, want: &str) -> Option<&'a Kind> {
        for f in fields {
            let path = if prefix.is_empty() { f.path.clone() } else { format!("{prefix}.{}", f.path) };
            match &f.kind {
                Kind::Counted { fields, .. } | Kind::Array { fields, .. } => {
                    if let Some(k) = find(fields, &format!("{path}[]"), want) {
                        return Some(k);
                    }
                },
                Kind::Struct { fields } => {
                    if let Some(k) = find(fields, &path, want) {
                        return Some(k);
                    }
                },
                k => {
                    if path == want {
                        return Some(k);
                    }
                },
            }
        }
        None
    }
    match find(&p.fields, "", &leaf) {
        Some(Kind::Str { len, raw, nulterm }) => (if *nulterm { len - 1 } else { *len }, *raw),
        Some(Kind::StrVar { max, nulterm }) => (if *nulterm { max - 1 } else { *max }, false),
        Some(Kind::MsoText { max }) => (*max, false),
        other => panic!("{variant}.{path} is not a text field in the spec: {other:?}"),
    }
}

pub struct TextFields;
impl Part for TextFields {
    type Case = TextCase;
    fn name(&self) -> &'static str {
        "text-fields"
    }
    fn check(&self, c: &TextCase, ev: &mut Local) -> Result<(), Fail> {
        let (variant, path) = build::TEXT_FIELDS[c.field];
        let mode = if c.compressed { Mode::Compressed } else { Mode::Uncompressed };
        let (cap, raw) = text_capacity(variant, path);
        // worst-case encoded size (every non-ASCII character may need a 2-byte marker and 2 bytes) must fit the
        // field: that keeps the case inside "text up to the field width" whatever markers the encoder picks
        // a marker (2 bytes) in front of every non-ASCII character, plus the character's longest encoding in any of the
        // reference tables that know it (1 byte in the single-byte codepages, 2 in the double-byte ones)
        let worst: usize = c
            .text
            .chars()
            .map(|ch| if ch.is_ascii() { 1 } else { 2 + cp::tables().iter().filter_map(|t| t.encode.get(&ch).map(|b| b.len())).max().unwrap_or(2) })
            .sum();
        if worst > cap || (raw && !c.text.is_ascii()) {
            ev.class("skipped-too-long-for-field");
            return Ok(());
        }
        let p0 = build::text_packet(variant, path, &c.text, 1).ok_or_else(|| Fail::new("harness:builder", variant))?;
        let e1 = judge_roundtrip(&p0, &mode, "text field")?;
        if !c.text.is_empty() {
            ev.nontrivial(&(c.field, &c.text));
        }
        ev.class(&format!("{variant}.{path}"));
        ev.class(if c.text.is_ascii() { "ascii" } else { "multi-codepage" });
        if ev.wants_sample() && !c.text.is_ascii() && e1.len() < 60 {
            ev.sample(|| json!({"field": format!("{variant}.{path}"), "text": c.text, "frame": hex(&e1)}));
        }
        Ok(())
    }
    fn to_json(&self, c: &TextCase) -> Value {
        let (v, p) = build::TEXT_FIELDS[c.field];
        json!({"field": format!("{v}.{p}"), "compressed": c.compressed, "text": c.text})
    }
    fn from_json(&self, v: &Value) -> Option<TextCase> {
        let f = v.get("field")?.as_str()?;
        let idx = build::TEXT_FIELDS.iter().position(|(a, b)| format!("{a}.{b}") == f)?;
        Some(TextCase { field: idx, compressed: v.get("compressed")?.as_bool()?, text: v.get("text")?.as_str()?.to_string() })
    }
}


// ------------------------------------------------------------------ packets built through the public set APIs (histories)
/// One call on the public API of a set-valued packet field (PlcAllowedCarsSet in IS_PLC / SMALL_ALC, the mod list of IS_MAL,
/// the ban list of IS_IPB). `key` indexes a small pool so that removals and re-insertions hit.
#[derive(Clone, Debug)]
pub enum SetOp {
    Insert(u8),
    Remove(u8),
    Clear,
    /// PlcAllowedCarsSet::from_bits_truncate (other containers: a clone of the container, which must carry the same state)
    Rebuild(u32),
}

#[derive(Clone, Debug)]
pub struct SetApiCase {
    /// 0 = Plc, 1 = Small/Alc, 2 = Mal, 3 = Ipb
    pub container: u8,
    pub compressed: bool,
    pub ops: Vec<SetOp>,
}

/// the 20 standard cars in the bit order InSim.txt gives for PLC / SMALL_ALC (XF GTI = 1 ... FBM = 0x80000)
fn standard_cars() -> [insim_core::vehicle::Vehicle; 20] {
    use insim_core::vehicle::Vehicle::*;
    [Xfg, Xrg, Xrt, Rb4, Fxo, Lx4, Lx6, Mrt, Uf1, Rac, Fz5, Fox, Xfr, Ufr, Fo8, Fxr, Xrr, Fzr, Bf1, Fbm]
}

const MOD_POOL: [u32; 10] = [0x00AB_CDEF, 0x0012_3456, 0x8123_4567, 1, 0xFFFF_FFFF, 0x0047_5258, 0x0100_0000, 0x00C2_9C37, 0x7FFF_FFFF, 0x0000_0100];

pub struct SetApi;
impl Part for SetApi {
    type Case = SetApiCase;
    fn name(&self) -> &'static str {
        "set-api-histories"
    }
    fn check(&self, c: &SetApiCase, ev: &mut Local) -> Result<(), Fail> {
        use insim::insim::{Ipb, Mal, Plc, PlcAllowedCarsSet, Small, SmallType};
        use insim_core::vehicle::Vehicle;
        use std::net::Ipv4Addr;
        let mode = if c.compressed { Mode::Compressed } else { Mode::Uncompressed };
        let cars = standard_cars();
        let kind = ["Plc", "Small", "Mal", "Ipb"][c.container as usize % 4];
        // the model: keys in insertion order (IndexSet semantics)
        let mut model: Vec<u32> = vec![];
        let mut plc = PlcAllowedCarsSet::default();
        let mut mal = Mal::default();
        let mut ipb = Ipb::default();
        let ip_of = |k: u32| Ipv4Addr::new(10, (k >> 8) as u8, k as u8, 1 + (k % 200) as u8);
        let mut cleared = false;
        for (step, op) in c.ops.iter().enumerate() {
            let at = |what: &str| Fail::new(format!("c01:set-api:{kind}:{what}"), format!("{kind}, step {step} of {:?}", c.ops));
            match (c.container % 4, op) {
                (0 | 1, SetOp::Insert(k)) => {
                    let k = *k as usize % 23;
                    if k < 20 {
                        let fresh = !model.contains(&(k as u32));
                        let r = plc.insert(cars[k].clone());
                        ensure!(matches!(r, Ok(f) if f == fresh), at("insert-result").sig, "{}: insert({:?}) returned {r:?}, expected Ok({fresh})", at("").msg, cars[k]);
                        if fresh {
                            model.push(k as u32);
                        }
                    } else {
                        // not a standard car: must be refused and leave the set alone
                        let v = if k == 20 { Vehicle::Unknown } else { Vehicle::Mod(MOD_POOL[k - 21]) };
                        let r = plc.insert(v.clone());
                        ensure!(r.is_err(), at("insert-nonstandard").sig, "{}: insert({v:?}) returned {r:?}", at("").msg);
                    }
                },
                (0 | 1, SetOp::Remove(k)) => {
                    let k = *k as usize % 20;
                    let had = model.contains(&(k as u32));
                    let r = plc.remove(&cars[k]);
                    ensure!(r == had, at("remove-result").sig, "{}: remove({:?}) returned {r}, expected {had}", at("").msg, cars[k]);
                    model.retain(|x| *x != k as u32);
                },
                (0 | 1, SetOp::Clear) => {
                    plc.clear();
                    model.clear();
                    cleared = true;
                },
                (0 | 1, SetOp::Rebuild(bits)) => {
                    plc = PlcAllowedCarsSet::from_bits_truncate(*bits);
                    model = (0..20u32).filter(|i| bits & (1 << i) != 0).collect();
                },
                (2, SetOp::Insert(k)) => {
                    let k = *k as usize % 12;
                    if k < 10 {
                        let id = MOD_POOL[k];
                        let fresh = !model.contains(&id);
                        let r = mal.insert(Vehicle::Mod(id));
                        ensure!(matches!(r, Ok(f) if f == fresh), at("insert-result").sig, "{}: insert(Mod({id:#x})) returned {r:?}, expected Ok({fresh})", at("").msg);
                        if fresh {
                            model.push(id);
                        }
                    } else {
                        let v = if k == 10 { Vehicle::Unknown } else { Vehicle::Xrg };
                        let r = mal.insert(v.clone());
                        ensure!(r.is_err(), at("insert-non-mod").sig, "{}: insert({v:?}) returned {r:?}", at("").msg);
                    }
                },
                (2, SetOp::Remove(k)) => {
                    let id = MOD_POOL[*k as usize % 10];
                    let had = model.contains(&id);
                    let r = mal.remove(&Vehicle::Mod(id));
                    ensure!(r == had, at("remove-result").sig, "{}: remove returned {r}, expected {had}", at("").msg);
                    model.retain(|x| *x != id);
                },
                (2, SetOp::Clear) => {
                    mal.clear();
                    model.clear();
                    cleared = true;
                },
                (2, SetOp::Rebuild(_)) => mal = mal.clone(),
                (_, SetOp::Insert(k)) => {
                    let id = *k as u32 % 12;
                    let fresh = !model.contains(&id);
                    let r = ipb.insert(ip_of(id));
                    ensure!(r == fresh, at("insert-result").sig, "{}: insert returned {r}, expected {fresh}", at("").msg);
                    if fresh {
                        model.push(id);
                    }
                },
                (_, SetOp::Remove(k)) => {
                    let id = *k as u32 % 12;
                    let had = model.contains(&id);
                    let r = ipb.remove(&ip_of(id));
                    ensure!(r == had, at("remove-result").sig, "{}: remove returned {r}, expected {had}", at("").msg);
                    model.retain(|x| *x != id);
                },
                (_, SetOp::Clear) => {
                    ipb.clear();
                    model.clear();
                    cleared = true;
                },
                (_, SetOp::Rebuild(_)) => ipb = ipb.clone(),
            }
            // after every call: the container answers like the model, and the packet round-trips to the model's value
            let (p0, len, expect_body): (Packet, usize, Vec<u8>) = match c.container % 4 {
                0 | 1 => {
                    let bits = model.iter().fold(0u32, |a, k| a | (1 << k));
                    for (i, v) in cars.iter().enumerate() {
                        ensure!(plc.contains(v) == model.contains(&(i as u32)), at("contains").sig, "{}: contains({v:?}) = {}", at("").msg, plc.contains(v));
                    }
                    ensure!(plc.bits() == bits, at("bits").sig, "{}: bits() = {:#x}, the calls so far leave {:#x}", at("").msg, plc.bits(), bits);
                    let p = if c.container % 4 == 0 {
                        let mut x = Plc::default();
                        x.cars = plc.clone();
                        Packet::Plc(x)
                    } else {
                        let mut x = Small::default();
                        x.subt = SmallType::Alc(plc.clone());
                        Packet::Small(x)
                    };
                    (p, plc.len(), bits.to_le_bytes().to_vec())
                },
                2 => {
                    let got: Vec<u32> = mal.iter().map(|v| if let Vehicle::Mod(i) = v { *i } else { 0 }).collect();
                    ensure!(got == model, at("iteration-order").sig, "{}: iter() gives {got:x?}, the calls so far leave {model:x?}", at("").msg);
                    (Packet::Mal(mal.clone()), mal.len(), model.iter().flat_map(|i| i.to_le_bytes()).collect())
                },
                _ => {
                    let got: Vec<Ipv4Addr> = ipb.iter().cloned().collect();
                    let want: Vec<Ipv4Addr> = model.iter().map(|k| ip_of(*k)).collect();
                    ensure!(got == want, at("iteration-order").sig, "{}: iter() gives {got:?}, expected {want:?}", at("").msg);
                    (Packet::Ipb(ipb.clone()), ipb.len(), vec![])
                },
            };
            ensure!(len == model.len(), at("len").sig, "{}: len() = {len}, the calls so far leave {} elements", at("").msg, model.len());
            let e1 = judge_roundtrip(&p0, &mode, "packet built through the set API")?;
            // the frame carries exactly the model's elements (bit mask, resp. ids in order)
            match c.container % 4 {
                0 => ensure!(e1.len() == 12 && e1[8..12] == expect_body[..], at("wire").sig, "{}: frame {} does not carry the mask {}", at("").msg, hex(&e1), hex(&expect_body)),
                1 => ensure!(e1.len() == 8 && e1[4..8] == expect_body[..], at("wire").sig, "{}: frame {} does not carry the mask {}", at("").msg, hex(&e1), hex(&expect_body)),
                2 => ensure!(e1[3] as usize == model.len() && e1[8..] == expect_body[..], at("wire").sig, "{}: frame {} does not carry the ids {:x?}", at("").msg, hex(&e1), model),
                _ => ensure!(e1[3] as usize == model.len() && e1.len() == 8 + 4 * model.len(), at("wire").sig, "{}: frame {} does not carry {} bans", at("").msg, hex(&e1), model.len()),
            }
        }
        if c.ops.len() >= 2 {
            ev.nontrivial(&format!("{c:?}"));
        }
        ev.class(kind);
        if cleared && !model.is_empty() {
            ev.class("re-filled after clear()");
        }
        if ev.wants_sample() && c.ops.len() >= 3 && c.ops.len() <= 6 {
            ev.sample(|| json!({"container": kind, "calls": format!("{:?}", c.ops), "left": format!("{model:x?}")}));
        }
        Ok(())
    }
    fn to_json(&self, c: &SetApiCase) -> Value {
        let ops: Vec<Value> = c
            .ops
            .iter()
            .map(|o| match o {
                SetOp::Insert(k) => json!(["insert", k]),
                SetOp::Remove(k) => json!(["remove", k]),
                SetOp::Clear => json!(["clear"]),
                SetOp::Rebuild(b) => json!(["rebuild", b]),
            })
            .collect();
        json!({"container": c.container, "compressed": c.compressed, "ops": ops})
    }
    fn from_json(&self, v: &Value) -> Option<SetApiCase> {
        let mut ops = vec![];
        for o in v.get("ops")?.as_array()? {
            let a = o.as_array()?;
            ops.push(match a.first()?.as_str()? {
                "insert" => SetOp::Insert(a.get(1)?.as_u64()? as u8),
                "remove" => SetOp::Remove(a.get(1)?.as_u64()? as u8),
                "clear" => SetOp::Clear,
                "rebuild" => SetOp::Rebuild(a.get(1)?.as_u64()? as u32),
                _ => return None,
            });
        }
        Some(SetApiCase { container: v.get("container")?.as_u64()? as u8, compressed: v.get("compressed")?.as_bool()?, ops })
    }
}

fn set_api_strategy() -> impl Strategy<Value = SetApiCase> {
    let op = prop_oneof![
        6 => any::<u8>().prop_map(SetOp::Insert),
        3 => any::<u8>().prop_map(SetOp::Remove),
        1 => Just(SetOp::Clear),
        1 => prop_oneof![any::<u32>(), (0u32..20).prop_map(|b| 1 << b), Just(0xF_FFFFu32)].prop_map(SetOp::Rebuild),
    ];
    (0u8..4, any::<bool>(), proptest::collection::vec(op, 1..14)).prop_map(|(container, compressed, ops)| SetApiCase { container, compressed, ops })
}


// ------------------------------------------------------------------ the same text in a raw and in a codepage field
/// IS_ISI carries the admin password raw (UTF-8 bytes as they are) and the program name codepage-encoded. The same non-ASCII
/// text in both - and the packet encoded more than once, as on every reconnect - must come back unchanged from both fields.
pub struct SameText;
impl Part for SameText {
    type Case = (String, bool);
    fn name(&self) -> &'static str {
        "same-text-in-raw-and-coded-field"
    }
    fn check(&self, c: &(String, bool), ev: &mut Local) -> Result<(), Fail> {
        let mode = if c.1 { Mode::Compressed } else { Mode::Uncompressed };
        let mut isi = insim::insim::Isi::default();
        isi.admin = c.0.clone();
        isi.iname = c.0.clone();
        let p = Packet::Isi(isi);
        let mut first: Option<Vec<u8>> = None;
        for round in 0..3 {
            let e = judge_roundtrip(&p, &mode, "ISI with the same text as password and program name")?;
            match &first {
                None => first = Some(e),
                Some(f) => ensure!(*f == e, "c01:encoding-not-repeatable:Isi", "round {round}: {} then {}", hex(f), hex(&e)),
            }
        }
        ev.nontrivial(c);
        if ev.wants_sample() && !c.0.is_ascii() {
            ev.sample(|| json!({"text": c.0, "mode": mode_name(&mode), "frame": first.as_ref().map(|f| hex(f))}));
        }
        Ok(())
    }
    fn to_json(&self, c: &(String, bool)) -> Value {
        json!({"text": c.0, "compressed": c.1})
    }
    fn from_json(&self, v: &Value) -> Option<(String, bool)> {
        Some((v.get("text")?.as_str()?.to_string(), v.get("compressed")?.as_bool()?))
    }
}

/// caret-free text over ASCII + the union repertoire (C10's faithful domain). Trailing content is arbitrary.
pub fn field_text_strategy() -> impl Strategy<Value = String> {
    let tables = cp::tables();
    let ch = prop_oneof![
        5 => (0x20u8..0x7E).prop_map(|b| if b == b'^' { '~' } else { b as char }),
        3 => (0..tables.len(), any::<prop::sample::Index>()).prop_map(move |(t, ix)| {
            let e = &tables[t].entries;
            e[ix.index(e.len())].1
        }),
    ];
    // single-byte-codepage characters only, so that 80 of them (3 bytes each with their markers) fill the widest field: texts
    // that switch codepage on every character
    let sbcs: Vec<char> = tables.iter().filter(|t| !t.dbcs).flat_map(|t| t.entries.iter().map(|e| e.1)).filter(|c| !c.is_ascii()).step_by(11).collect();
    let switching = proptest::collection::vec(prop::sample::select(sbcs), 0..82);
    prop_oneof![
        3 => proptest::collection::vec(ch.clone(), 0..12),
        1 => switching,
        1 => proptest::collection::vec(ch, 0..64),
        2 => proptest::collection::vec((0x20u8..0x7E).prop_map(|b| if b == b'^' { '~' } else { b as char }), 0..130),
    ]
    // the one-way WHATWG mappings U+203E / U+2212 are not part of any LFS codepage (see C10): constructed away, not filtered
    .prop_map(|v| v.into_iter().map(|c| if c == '\u{203e}' || c == '\u{2212}' { '\u{ff5e}' } else { c }).collect::<String>())
}

pub fn parts() -> Vec<Box<dyn DynPart>> {
    vec![Box::new(Route1), Box::new(Route2), Box::new(TextFields), Box::new(SetApi), Box::new(crate::props::c03::OneCodec("c01")), Box::new(crate::props::c03::SameTextSeq("c01")), Box::new(SameText)]
}

pub fn run(run: &mut Run) {
    if let Some(p) = coverage_problem() {
        eprintln!("HARNESS OUT OF DATE: {p}");
        std::process::exit(2);
    }
    run.rule = "Typed packets of all 73 kinds are obtained (1) by decoding frames built by the reference codec from a random entropy \
        tape (every wire-representable value: full integer ranges, every enumerant, flag subsets, nibbles, NaN payloads, multi-codepage \
        text, 0..max element counts), (2) by hand through the public fields for the kinds with hand-written codecs / counted \
        collections, (3) by placing caret-free text over the ten codepage repertoires in each of the 30 text-bearing fields, (4) through \
        histories of calls (insert / remove / clear / from_bits) on the public set-valued fields of PLC, SMALL_ALC, MAL and IPB, compared \
        with an ordered-set model after every call. \
        Oracle: encode(p0) succeeds, decode(e1) consumes e1 and renders identically to p0 (Debug), encode(p1) == e1 byte for byte; \
        both size modes. Further parts: sequences of packets (refused ones among them) on two long-lived codecs, each frame compared with a fresh codec's (reference pass afterwards, in reverse order); one text written through 2..6 text fields in a row, each frame compared with the one produced on a fresh thread; ISI with the same text in its raw and its coded field. Non-trivial = the frame differs from the kind's all-zero frame."
        .into();
    run.assumptions = vec![
        "Packet equality is observed through the derived Debug rendering (Packet has no PartialEq); NaN payloads are covered by the byte-identity clause".into(),
        "in-domain text = caret-free, characters of the ten reference repertoires, worst-case encoded size within the field".into(),
    ];
    let n = run.budget(73 * 2 * 1500, 73 * 2 * 50_000);
    run.prop(&Route1, tape_strategy(), n);
    let n = run.budget(100_000, 5_000_000);
    run.prop(&Route2, built_strategy(), n);
    let n = run.budget(150_000, 6_000_000);
    let strat = (0..build::TEXT_FIELDS.len(), any::<bool>(), field_text_strategy()).prop_map(|(field, compressed, text)| TextCase { field, compressed, text });
    run.prop(&TextFields, strat, n);
    // (4) histories of calls on the public set APIs (insert / remove / clear / from_bits), round trip after every call
    let n = run.budget(40_000, 2_000_000);
    run.prop(&SetApi, set_api_strategy(), n);
    // (4b) the same short non-ASCII text in ISI's raw and coded field, encoded three times
    let strat = (field_text_strategy(), any::<bool>()).prop_map(|(t, compressed)| {
        // at most 4 characters: 12 UTF-8 bytes raw, at most 16 bytes coded (a marker in front of each)
        (t.chars().take(4).collect::<String>(), compressed)
    });
    let n = run.budget(30_000, 1_000_000);
    run.prop(&SameText, strat, n);
    // (5) a connection encodes all its packets with one codec: whatever it was asked to encode before (refused packets among
    // them), a packet's frame must be the one a fresh codec produces, and read back alike
    let n = run.budget(30_000, 1_500_000);
    run.prop(&crate::props::c03::OneCodec("c01"), crate::props::c03::seq_strategy(), n);
    let n = run.budget(30_000, 1_000_000);
    run.prop(&crate::props::c03::SameTextSeq("c01"), crate::props::c03::same_text_strategy(), n);
}
