//! C01 — lossless packet round trip in both directions (closed relation: no specification knowledge used).

use insim::net::Mode;
use insim::Packet;
use proptest::prelude::*;
use serde_json::{json, Value};

use crate::engine::*;
use crate::props::c02::{tape_strategy, TapeCase};
use crate::refs::build;
use crate::refs::compare::*;
use crate::refs::cp;
use crate::refs::image::{self, generic_path, Tape};
use crate::refs::spec::{coverage_problem, spec};

/// the round-trip oracle on a typed packet
pub fn judge_roundtrip(p0: &Packet, mode: &Mode, origin: &str) -> Result<Vec<u8>, Fail> {
    let d0 = format!("{p0:?}");
    let kind = d0.split(|c| c == '(' || c == ' ').next().unwrap_or("?").to_string();
    let e1 = encode_one(p0, mode).map_err(|e| Fail::new(format!("c01:encode-refused:{kind}"), format!("{origin}: in-domain packet cannot be encoded: {e}: {d0}")))?;
    let p1 = decode_one(&e1, mode).map_err(|e| Fail::new(format!("c01:own-frame-rejected:{kind}"), format!("{origin}: {e}: frame {} from {d0}", hex(&e1))))?;
    let d1 = format!("{p1:?}");
    if d1 != d0 && !same_up_to_set_order(&d0, &d1) {
        // name the first differing field
        let field = first_differing_field(&d0, &d1);
        return Err(Fail::new(
            format!("c01:roundtrip-differs:{kind}.{}", generic_path(&field)),
            format!("{origin}: field {field}: {d0} -> {} -> {d1}", hex(&e1)),
        ));
    }
    let e2 = encode_one(&p1, mode).map_err(|e| Fail::new(format!("c01:reencode-refused:{kind}"), format!("{origin}: {e}: {d1}")))?;
    if e2 != e1 {
        return Err(Fail::new(
            format!("c01:reencode-differs:{kind}"),
            format!("{origin}: bytes -> packet -> bytes: {} -> {d1} -> {}", hex(&e1), hex(&e2)),
        ));
    }
    Ok(e1)
}

/// IndexSet-backed fields (allowed cars / mods / bans) compare as sets: insertion order is not part of the value
fn same_up_to_set_order(a: &str, b: &str) -> bool {
    use crate::refs::dbgtree::parse;
    match (parse(a), parse(b)) {
        (Ok(x), Ok(y)) => x.canon() == y.canon(),
        _ => false,
    }
}

fn first_differing_field(a: &str, b: &str) -> String {
    use crate::refs::dbgtree::parse;
    let (Ok(ta), Ok(tb)) = (parse(a), parse(b)) else {
        return "?".into();
    };
    let mut pa = vec![];
    ta.leaf_paths("", &mut pa);
    for p in pa {
        match (ta.get(&p), tb.get(&p)) {
            (Some(x), Some(y)) if x.text() == y.text() => {},
            _ => return p,
        }
    }
    "?".into()
}

// ---------------------------------------------------------------------------------------
// route 1: typed packets obtained by decoding reference images of every kind
// ---------------------------------------------------------------------------------------
pub struct Route1;
impl Part for Route1 {
    type Case = TapeCase;
    fn name(&self) -> &'static str {
        "decoded-reference-images"
    }
    fn check(&self, c: &TapeCase, ev: &mut Local) -> Result<(), Fail> {
        let p = spec().packet(&c.variant).ok_or_else(|| Fail::new("harness:variant", c.variant.clone()))?;
        let mode = if c.compressed { Mode::Compressed } else { Mode::Uncompressed };
        let inst = image::from_tape(p, &mode, &c.tape, true);
        // if the reference frame itself is not accepted that is C02's finding, not a round-trip failure
        let Ok(p0) = decode_one(&inst.image, &mode) else {
            ev.class("reference-frame-not-accepted (see C02)");
            return Ok(());
        };
        // "text up to the field width": the text must fit its field when the crate's own encoder writes it (it may
        // choose other markers than the reference image did); longer text is truncated by contract (C11), not round-tripped
        for t in &inst.texts {
            if !t.ascii && insim_core::string::codepages::to_lossy_bytes(&t.text).len() > t.end - t.start - usize::from(!t.raw && false) {
                ev.class("skipped: text does not fit its field in the encoder's own marker choice");
                return Ok(());
            }
        }
        // in-domain means: every text fits its field when written by the crate's own encoder
        let e1 = judge_roundtrip(&p0, &mode, "decoded reference image")?;
        let default_frame = image::one_hot(p, &mode, None);
        if e1[2..] != default_frame.image[2..] {
            ev.nontrivial(&e1);
        }
        ev.class(&c.variant);
        ev.max("frame-length", e1.len() as u64);
        if ev.wants_sample() && e1.len() < 48 && e1.len() > 8 {
            ev.sample(|| json!({"kind": c.variant, "mode": mode_name(&mode), "frame": hex(&e1), "packet": format!("{p0:?}")}));
        }
        Ok(())
    }
    fn to_json(&self, c: &TapeCase) -> Value {
        json!({"kind": c.variant, "compressed": c.compressed, "tape": hex(&c.tape)})
    }
    fn from_json(&self, v: &Value) -> Option<TapeCase> {
        Some(TapeCase { variant: v.get("kind")?.as_str()?.to_string(), compressed: v.get("compressed")?.as_bool()?, tape: unhex(v.get("tape")?.as_str()?)? })
    }
}

// ---------------------------------------------------------------------------------------
// route 2a: hand-built typed packets of the kinds with hand-written codecs / sub-byte fields / counted collections
// ---------------------------------------------------------------------------------------
#[derive(Clone, Debug)]
pub struct BuiltCase {
    pub variant: String,
    pub compressed: bool,
    pub count: usize,
    pub tape: Vec<u8>,
}

pub struct Route2;
impl Part for Route2 {
    type Case = BuiltCase;
    fn name(&self) -> &'static str {
        "hand-built-packets"
    }
    fn check(&self, c: &BuiltCase, ev: &mut Local) -> Result<(), Fail> {
        let mode = if c.compressed { Mode::Compressed } else { Mode::Uncompressed };
        let mut t = Tape::new(&c.tape);
        let p0 = if build::COUNTED.contains(&c.variant.as_str()) {
            let (hdr, elem, _, max, _) = build::counted_layout(&c.variant);
            let limit = if c.compressed { 1020 } else { 255 };
            let n = c.count.min(max).min((limit - hdr) / elem);
            build::counted_packet(&c.variant, n, &mut t)
        } else {
            build::handwritten_packet(&c.variant, &mut t)
        };
        let Some(p0) = p0 else {
            return Err(Fail::new("harness:builder", c.variant.clone()));
        };
        let e1 = judge_roundtrip(&p0, &mode, "hand-built packet")?;
        ev.nontrivial(&e1);
        ev.class(&c.variant);
        if ev.wants_sample() && e1.len() < 48 {
            ev.sample(|| json!({"kind": c.variant, "mode": mode_name(&mode), "frame": hex(&e1), "packet": format!("{p0:?}")}));
        }
        Ok(())
    }
    fn to_json(&self, c: &BuiltCase) -> Value {
        json!({"kind": c.variant, "compressed": c.compressed, "count": c.count, "tape": hex(&c.tape)})
    }
    fn from_json(&self, v: &Value) -> Option<BuiltCase> {
        Some(BuiltCase {
            variant: v.get("kind")?.as_str()?.to_string(),
            compressed: v.get("compressed")?.as_bool()?,
            count: v.get("count")?.as_u64()? as usize,
            tape: unhex(v.get("tape")?.as_str()?)?,
        })
    }
}

fn built_strategy() -> impl Strategy<Value = BuiltCase> {
    let kinds: Vec<&'static str> = build::COUNTED.iter().chain(build::HANDWRITTEN.iter()).copied().collect();
    (prop::sample::select(kinds), any::<bool>(), 0usize..=121, proptest::collection::vec(any::<u8>(), 0..700)).prop_map(|(k, compressed, count, tape)| BuiltCase {
        variant: k.to_string(),
        compressed,
        count,
        tape,
    })
}

// ---------------------------------------------------------------------------------------
// route 2b: text up to the field width, including multi-codepage text, in every text-bearing field
// ---------------------------------------------------------------------------------------
#[derive(Clone, Debug)]
pub struct TextCase {
    pub field: usize,
    pub compressed: bool,
    pub text: String,
}

/// (width in bytes available to text, raw?) of a text field, from the specification table
pub fn text_capacity(variant: &str, path: &str) -> (usize, bool) {
    use crate::refs::spec::Kind;
    let p = spec().packet(variant).expect("variant");
    let leaf = generic_path(path);
    fn find<'a>(fields: &'a [crate::refs::spec::Field], prefix: &str, want: &str) -> Option<&'a Kind> {
        for f in fields {
            let path = if prefix.is_empty() { f.path.clone() } else { format!("{prefix}.{}", f.path) };
            match &f.kind {
                Kind::Counted { fields, .. } | Kind::Array { fields, .. } => {
                    if let Some(k) = find(fields, &format!("{path}[]"), want) {
                        return Some(k);
                    }
                },
                Kind::Struct { fields } => {
                    if let Some(k) = find(fields, &path, want) {
                        return Some(k);
                    }
                },
                k => {
                    if path == want {
                        return Some(k);
                    }
                },
            }
        }
        None
    }
    match find(&p.fields, "", &leaf) {
        Some(Kind::Str { len, raw, nulterm }) => (if *nulterm { len - 1 } else { *len }, *raw),
        Some(Kind::StrVar { max, nulterm }) => (if *nulterm { max - 1 } else { *max }, false),
        Some(Kind::MsoText { max }) => (*max, false),
        other => panic!("{variant}.{path} is not a text field in the spec: {other:?}"),
    }
}

pub struct TextFields;
impl Part for TextFields {
    type Case = TextCase;
    fn name(&self) -> &'static str {
        "text-fields"
    }
    fn check(&self, c: &TextCase, ev: &mut Local) -> Result<(), Fail> {
        let (variant, path) = build::TEXT_FIELDS[c.field];
        let mode = if c.compressed { Mode::Compressed } else { Mode::Uncompressed };
        let (cap, raw) = text_capacity(variant, path);
        // worst-case encoded size (every non-ASCII character may need a 2-byte marker and 2 bytes) must fit the
        // field: that keeps the case inside "text up to the field width" whatever markers the encoder picks
        let worst: usize = c.text.chars().map(|ch| if ch.is_ascii() { 1 } else { 4 }).sum();
        if worst > cap || (raw && !c.text.is_ascii()) {
            ev.class("skipped-too-long-for-field");
            return Ok(());
        }
        let p0 = build::text_packet(variant, path, &c.text, 1).ok_or_else(|| Fail::new("harness:builder", variant))?;
        let e1 = judge_roundtrip(&p0, &mode, "text field")?;
        if !c.text.is_empty() {
            ev.nontrivial(&(c.field, &c.text));
        }
        ev.class(&format!("{variant}.{path}"));
        ev.class(if c.text.is_ascii() { "ascii" } else { "multi-codepage" });
        if ev.wants_sample() && !c.text.is_ascii() && e1.len() < 60 {
            ev.sample(|| json!({"field": format!("{variant}.{path}"), "text": c.text, "frame": hex(&e1)}));
        }
        Ok(())
    }
    fn to_json(&self, c: &TextCase) -> Value {
        let (v, p) = build::TEXT_FIELDS[c.field];
        json!({"field": format!("{v}.{p}"), "compressed": c.compressed, "text": c.text})
    }
    fn from_json(&self, v: &Value) -> Option<TextCase> {
        let f = v.get("field")?.as_str()?;
        let idx = build::TEXT_FIELDS.iter().position(|(a, b)| format!("{a}.{b}") == f)?;
        Some(TextCase { field: idx, compressed: v.get("compressed")?.as_bool()?, text: v.get("text")?.as_str()?.to_string() })
    }
}

/// caret-free text over ASCII + the union repertoire (C10's faithful domain). Trailing content is arbitrary.
pub fn field_text_strategy() -> impl Strategy<Value = String> {
    let tables = cp::tables();
    let ch = prop_oneof![
        5 => (0x20u8..0x7E).prop_map(|b| if b == b'^' { '~' } else { b as char }),
        3 => (0..tables.len(), any::<prop::sample::Index>()).prop_map(move |(t, ix)| {
            let e = &tables[t].entries;
            e[ix.index(e.len())].1
        }),
    ];
    prop_oneof![
        3 => proptest::collection::vec(ch.clone(), 0..12),
        1 => proptest::collection::vec(ch, 0..64),
        2 => proptest::collection::vec((0x20u8..0x7E).prop_map(|b| if b == b'^' { '~' } else { b as char }), 0..130),
    ]
    // the one-way WHATWG mappings U+203E / U+2212 are not part of any LFS codepage (see C10): constructed away, not filtered
    .prop_map(|v| v.into_iter().map(|c| if c == '\u{203e}' || c == '\u{2212}' { '\u{ff5e}' } else { c }).collect::<String>())
}

pub fn parts() -> Vec<Box<dyn DynPart>> {
    vec![Box::new(Route1), Box::new(Route2), Box::new(TextFields)]
}

pub fn run(run: &mut Run) {
    if let Some(p) = coverage_problem() {
        eprintln!("HARNESS OUT OF DATE: {p}");
        std::process::exit(2);
    }
    run.rule = "Typed packets of all 73 kinds are obtained (1) by decoding frames built by the reference codec from a random entropy \
        tape (every wire-representable value: full integer ranges, every enumerant, flag subsets, nibbles, NaN payloads, multi-codepage \
        text, 0..max element counts), (2) by hand through the public fields for the kinds with hand-written codecs / counted \
        collections, (3) by placing caret-free text over the ten codepage repertoires in each of the 30 text-bearing fields. \
        Oracle: encode(p0) succeeds, decode(e1) consumes e1 and renders identically to p0 (Debug), encode(p1) == e1 byte for byte; \
        both size modes. Non-trivial = the frame differs from the kind's all-zero frame."
        .into();
    run.assumptions = vec![
        "Packet equality is observed through the derived Debug rendering (Packet has no PartialEq); NaN payloads are covered by the byte-identity clause".into(),
        "in-domain text = caret-free, characters of the ten reference repertoires, worst-case encoded size within the field".into(),
    ];
    let n = run.budget(73 * 2 * 1500, 73 * 2 * 50_000);
    run.prop(&Route1, tape_strategy(), n);
    let n = run.budget(100_000, 5_000_000);
    run.prop(&Route2, built_strategy(), n);
    let n = run.budget(150_000, 6_000_000);
    let strat = (0..build::TEXT_FIELDS.len(), any::<bool>(), field_text_strategy()).prop_map(|(field, compressed, text)| TextCase { field, compressed, text });
    run.prop(&TextFields, strat, n);
}
