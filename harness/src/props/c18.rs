//! C18 — the handshake carries exactly the configured connection options.

use std::io::Read;
use std::net::SocketAddr;
use std::time::Duration;

use insim::identifiers::RequestId;
use insim::insim::{Isi, IsiFlags};
use insim::net::{Codec, Mode};
use insim::{Builder, Packet};
use proptest::prelude::*;
use serde_json::{json, Value};

use crate::engine::*;

/// the ten per-flag setters, in a fixed order, with the bit InSim.txt assigns to the flag
const FLAG_BITS: [(&str, u16); 10] = [
    ("local", 1 << 2),
    ("mso_cols", 1 << 3),
    ("nlp", 1 << 4),
    ("mci", 1 << 5),
    ("con", 1 << 6),
    ("obh", 1 << 7),
    ("hlv", 1 << 8),
    ("axm_load", 1 << 9),
    ("axm_edit", 1 << 10),
    ("req_join", 1 << 11),
];

#[derive(Clone, Debug, PartialEq)]
pub enum Op {
    Flag(usize, bool),
    Flags(u16),
    Prefix(Option<u8>),
    Interval(Option<u64>),
    /// an interval of k * 2^64 + r milliseconds (k >= 1): beyond what a 64-bit count of milliseconds holds
    IntervalHuge(u8, u16),
    Iname(Option<String>),
    Admin(Option<String>),
    Reqi(u8),
    Tcp,
    /// udp with Some(local port) or None
    Udp(Option<u16>),
    /// udp with the local address 0.0.0.0:port (all interfaces, fixed port)
    UdpAny(u16),
    /// udp with the IPv6 local address [::1]:port
    Udp6(u16),
    /// wholesale flag replacement that keeps bits the crate has no name for (IsiFlags::from_bits_retain): reserved bits 0 / 1,
    /// bits 12..15 of a newer LFS
    FlagsRetain(u16),
    Relay,
    Compressed,
    Uncompressed,
    Verify(bool),
    Nodelay(bool),
    /// options that belong to other transports / other stages: none of them may change the ISI or where it is sent
    RelayWs(bool),
    ConnectTimeout(u32),
    /// `mode()` instead of compressed() / uncompressed()
    ModeSet(bool),
    RelayHost(Option<String>),
    RelaySpec(Option<String>),
    RelayAdmin(Option<String>),
}

#[derive(Clone, Debug)]
pub struct Model {
    pub udp: bool,
    pub udp_local: Option<u16>,
    /// the flags were installed with from_bits_retain: unnamed bits are part of the configuration
    pub retain: bool,
    pub flags: u16,
    pub prefix: Option<u8>,
    pub interval: Option<u64>,
    /// set by IntervalHuge (interval is then u64::MAX: certainly not representable)
    pub interval_huge: Option<Duration>,
    pub iname: Option<String>,
    pub admin: Option<String>,
    pub reqi: u8,
    pub compressed: bool,
}

impl Default for Model {
    fn default() -> Self {
        Model { udp: false, udp_local: None, retain: false, flags: 0, prefix: None, interval: None, interval_huge: None, iname: None, admin: None, reqi: 0, compressed: true }
    }
}

fn remote() -> SocketAddr {
    "127.0.0.1:29999".parse().unwrap()
}

pub fn apply(ops: &[Op], remote_addr: SocketAddr) -> Result<(Builder, Model), String> {
    let mut b = Builder::default();
    let mut m = Model::default();
    for op in ops {
        b = match op {
            Op::Flag(i, on) => {
                if *on {
                    m.flags |= FLAG_BITS[*i].1;
                } else {
                    m.flags &= !FLAG_BITS[*i].1;
                }
                match i {
                    0 => b.isi_flag_local(*on),
                    1 => b.isi_flag_mso_cols(*on),
                    2 => b.isi_flag_nlp(*on),
                    3 => b.isi_flag_mci(*on),
                    4 => b.isi_flag_con(*on),
                    5 => b.isi_flag_obh(*on),
                    6 => b.isi_flag_hlv(*on),
                    7 => b.isi_flag_axm_load(*on),
                    8 => b.isi_flag_axm_edit(*on),
                    _ => b.isi_flag_req_join(*on),
                }
            },
            Op::Flags(bits) => {
                m.retain = false;
                m.flags = *bits;
                // every other time the value is built the long way round: a full set, cleared, then the wanted bits inserted
                // (IsiFlags::clear is the crate's own helper)
                if bits % 2 == 0 {
                    b.isi_flags(IsiFlags::from_bits_truncate(*bits))
                } else {
                    let mut f = IsiFlags::from_bits_truncate(0xffff);
                    f.clear();
                    f.insert(IsiFlags::from_bits_truncate(*bits));
                    b.isi_flags(f)
                }
            },
            Op::Prefix(p) => {
                m.prefix = *p;
                b.isi_prefix(p.map(|c| c as char))
            },
            Op::Interval(i) => {
                m.interval = *i;
                m.interval_huge = None;
                b.isi_interval(i.map(Duration::from_millis))
            },
            Op::IntervalHuge(k, r) => {
                let ms: u128 = ((*k).max(1) as u128) * (1u128 << 64) + *r as u128;
                let d = Duration::new((ms / 1000) as u64, ((ms % 1000) as u32) * 1_000_000);
                m.interval = Some(u64::MAX);
                m.interval_huge = Some(d);
                b.isi_interval(Some(d))
            },
            Op::Iname(n) => {
                m.iname = n.clone();
                b.isi_iname(n.clone())
            },
            Op::Admin(n) => {
                m.admin = n.clone();
                b.isi_admin_password(n.clone())
            },
            Op::Reqi(r) => {
                m.reqi = *r;
                b.isi_reqi(RequestId(*r))
            },
            Op::Tcp => {
                m.udp = false;
                b.tcp(remote_addr)
            },
            Op::Udp(local) => {
                m.udp = true;
                m.udp_local = *local;
                let l: Option<SocketAddr> = local.map(|p| SocketAddr::from(([127, 0, 0, 1], p)));
                b.udp(remote_addr, l)
            },
            Op::Udp6(port) => {
                m.udp = true;
                m.udp_local = Some(*port);
                b.udp(remote_addr, Some(SocketAddr::from((std::net::Ipv6Addr::LOCALHOST, *port))))
            },
            Op::FlagsRetain(bits) => {
                m.flags = *bits;
                m.retain = true;
                b.isi_flags(IsiFlags::from_bits_retain(*bits))
            },
            Op::UdpAny(port) => {
                m.udp = true;
                m.udp_local = Some(*port);
                b.udp(remote_addr, Some(SocketAddr::from(([0, 0, 0, 0], *port))))
            },
            Op::Relay => {
                m.udp = false;
                b.relay()
            },
            Op::Compressed => {
                m.compressed = true;
                b.compressed()
            },
            Op::Uncompressed => {
                m.compressed = false;
                b.uncompressed()
            },
            Op::Verify(v) => b.verify_version(*v),
            Op::Nodelay(v) => b.tcp_nodelay(*v),
            Op::RelayWs(v) => b.relay_websocket(*v),
            Op::ConnectTimeout(ms) => b.connect_timeout(Duration::from_millis(*ms as u64)),
            Op::ModeSet(c) => {
                m.compressed = *c;
                b.mode(if *c { Mode::Compressed } else { Mode::Uncompressed })
            },
            Op::RelayHost(h) => b.relay_select_host(h.clone()),
            Op::RelaySpec(h) => b.relay_spectator_password(h.clone()),
            Op::RelayAdmin(h) => b.relay_admin_password(h.clone()),
        };
    }
    Ok((b, m))
}

pub fn model_isi(m: &Model) -> Isi {
    Isi {
        reqi: RequestId(m.reqi),
        udpport: if m.udp { m.udp_local.unwrap_or(0) } else { 0 },
        flags: if m.retain { IsiFlags::from_bits_retain(m.flags) } else { IsiFlags::from_bits_truncate(m.flags) },
        version: 9,
        prefix: m.prefix.map(|c| c as char).unwrap_or('\0'),
        interval: m.interval_huge.unwrap_or(Duration::from_millis(m.interval.unwrap_or(0))),
        admin: m.admin.clone().unwrap_or_default(),
        iname: m.iname.clone().unwrap_or_else(|| "insim.rs".to_string()),
    }
}

/// IS_ISI as InSim.txt lays it out: Size Type ReqI Zero | UDPPort(2) Flags(2) | InSimVer Prefix Interval(2) | Admin[16] | IName[16].
/// Generated names / passwords are caret-free ASCII, whose encoding is the bytes themselves, cut to 16 and NUL-padded.
pub fn reference_isi_frame(m: &Model) -> Vec<u8> {
    let i = model_isi(m);
    let mut f = vec![if m.compressed { 11u8 } else { 44 }, 1, i.reqi.0, 0];
    f.extend_from_slice(&i.udpport.to_le_bytes());
    let known: u16 = FLAG_BITS.iter().fold(0, |a, (_, b)| a | *b);
    f.extend_from_slice(&(if m.retain { m.flags } else { m.flags & known }).to_le_bytes());
    f.push(9);
    f.push(m.prefix.unwrap_or(0));
    f.extend_from_slice(&(m.interval.unwrap_or(0) as u16).to_le_bytes());
    for t in [&i.admin, &i.iname] {
        assert!(t.is_ascii() && !t.contains('^'), "generator invariant: ASCII, caret-free");
        let mut b = t.as_bytes().to_vec();
        b.truncate(16);
        b.resize(16, 0);
        f.extend_from_slice(&b);
    }
    f
}

fn ops_json(ops: &[Op]) -> Value {
    Value::Array(ops.iter().map(|o| json!(format!("{o:?}"))).collect())
}

fn op_from(s: &str) -> Option<Op> {
    let s = s.trim();
    let inner = |p: &str| -> Option<String> { s.strip_prefix(p).and_then(|r| r.strip_suffix(')')).map(|r| r.to_string()) };
    let opt_str = |t: &str| -> Option<Option<String>> {
        if t == "None" {
            Some(None)
        } else {
            let q = t.strip_prefix("Some(")?.strip_suffix(')')?;
            serde_json::from_str::<String>(q).ok().map(Some)
        }
    };
    let opt_num = |t: &str| -> Option<Option<u64>> {
        if t == "None" {
            Some(None)
        } else {
            t.strip_prefix("Some(")?.strip_suffix(')')?.parse().ok().map(Some)
        }
    };
    Some(match s {
        "Tcp" => Op::Tcp,
        "Relay" => Op::Relay,
        "Compressed" => Op::Compressed,
        "Uncompressed" => Op::Uncompressed,
        _ => {
            if let Some(i) = inner("Flag(") {
                let (a, b) = i.split_once(", ")?;
                Op::Flag(a.parse().ok()?, b == "true")
            } else if let Some(i) = inner("Flags(") {
                Op::Flags(i.parse().ok()?)
            } else if let Some(i) = inner("Prefix(") {
                Op::Prefix(opt_num(&i)?.map(|v| v as u8))
            } else if let Some(i) = inner("IntervalHuge(") {
                let (a, b) = i.split_once(", ")?;
                Op::IntervalHuge(a.parse().ok()?, b.parse().ok()?)
            } else if let Some(i) = inner("Interval(") {
                Op::Interval(opt_num(&i)?)
            } else if let Some(i) = inner("Iname(") {
                Op::Iname(opt_str(&i)?)
            } else if let Some(i) = inner("Admin(") {
                Op::Admin(opt_str(&i)?)
            } else if let Some(i) = inner("Reqi(") {
                Op::Reqi(i.parse().ok()?)
            } else if let Some(i) = inner("Udp6(") {
                Op::Udp6(i.parse().ok()?)
            } else if let Some(i) = inner("FlagsRetain(") {
                Op::FlagsRetain(i.parse().ok()?)
            } else if let Some(i) = inner("UdpAny(") {
                Op::UdpAny(i.parse().ok()?)
            } else if let Some(i) = inner("Udp(") {
                Op::Udp(opt_num(&i)?.map(|v| v as u16))
            } else if let Some(i) = inner("Verify(") {
                Op::Verify(i == "true")
            } else if let Some(i) = inner("Nodelay(") {
                Op::Nodelay(i == "true")
            } else if let Some(i) = inner("RelayWs(") {
                Op::RelayWs(i == "true")
            } else if let Some(i) = inner("ModeSet(") {
                Op::ModeSet(i == "true")
            } else if let Some(i) = inner("ConnectTimeout(") {
                Op::ConnectTimeout(i.parse().ok()?)
            } else if let Some(i) = inner("RelayHost(") {
                Op::RelayHost(opt_str(&i)?)
            } else if let Some(i) = inner("RelaySpec(") {
                Op::RelaySpec(opt_str(&i)?)
            } else if let Some(i) = inner("RelayAdmin(") {
                Op::RelayAdmin(opt_str(&i)?)
            } else {
                return None;
            }
        },
    })
}

fn ops_from(v: &Value) -> Option<Vec<Op>> {
    v.as_array()?.iter().map(|x| op_from(x.as_str()?)).collect()
}

// ------------------------------------------------------------------------------ builder.isi() vs model
pub struct IsiModel;
impl Part for IsiModel {
    type Case = Vec<Op>;
    fn name(&self) -> &'static str {
        "builder-call-sequences"
    }
    fn check(&self, ops: &Vec<Op>, ev: &mut Local) -> Result<(), Fail> {
        let (b, m) = apply(ops, remote()).map_err(|e| Fail::new("harness:apply", e))?;
        let got = match guard(|| b.isi()) {
            Ok(i) => i,
            Err(p) => {
                let sig = if m.udp && m.udp_local.is_none() { "c18:isi-panics-for-udp-without-local-address" } else { "c18:isi-panics" };
                fail!(sig, "Builder::isi() panicked after {} calls ({:?}): {p}", ops.len(), ops.last());
            },
        };
        let want = model_isi(&m);
        let (g, w) = (format!("{got:?}"), format!("{want:?}"));
        ensure!(g == w, "c18:isi-differs-from-configuration", "after {:?}: builder gives {g}, configuration says {w}", ops);
        if ops.len() >= 2 {
            ev.nontrivial(&format!("{ops:?}"));
        }
        ev.class(if m.udp { if m.udp_local.is_some() { "udp-with-local" } else { "udp-without-local" } } else { "tcp-or-relay" });
        if ev.wants_sample() && ops.len() >= 3 && ops.len() <= 6 {
            ev.sample(|| json!({"calls": ops_json(ops), "isi": g}));
        }
        Ok(())
    }
    fn to_json(&self, c: &Vec<Op>) -> Value {
        ops_json(c)
    }
    fn from_json(&self, v: &Value) -> Option<Vec<Op>> {
        ops_from(v)
    }
}

/// all 2^10 flag states reached through the individual setters (complete)
pub struct AllFlagStates;
impl Part for AllFlagStates {
    type Case = u16;
    fn name(&self) -> &'static str {
        "all-1024-flag-states"
    }
    fn check(&self, c: &u16, ev: &mut Local) -> Result<(), Fail> {
        // first switch everything on, then switch off what is not wanted (exercises both directions of every setter)
        let mut ops: Vec<Op> = (0..10).map(|i| Op::Flag(i, true)).collect();
        for i in 0..10 {
            if c >> i & 1 == 0 {
                ops.push(Op::Flag(i, false));
            }
        }
        let mut scratch = Local::new();
        scratch.frozen = true;
        IsiModel.check(&ops, &mut scratch)?;
        // and from the empty state, switching on only what is wanted
        let ops2: Vec<Op> = (0..10).filter(|i| c >> i & 1 == 1).map(|i| Op::Flag(i, true)).collect();
        IsiModel.check(&ops2, &mut scratch)?;
        ev.nontrivial_distinct();
        Ok(())
    }
    fn to_json(&self, c: &u16) -> Value {
        json!({"state": c})
    }
    fn from_json(&self, v: &Value) -> Option<u16> {
        Some(v.get("state")?.as_u64()? as u16)
    }
}

// ------------------------------------------------------------------------------ what actually goes over the wire
#[derive(Clone, Debug)]
pub struct ConnectCase {
    pub ops: Vec<Op>,
    /// calls made after the transport was selected (no transport selection among them)
    pub post: Vec<Op>,
    pub udp: bool,
    pub with_local: bool,
    /// the local address is 0.0.0.0:port instead of 127.0.0.1:port
    pub local_any: bool,
    pub async_api: bool,
    /// udp with a local address: another socket holds that very port while connect runs (LFS's reply port still held by an
    /// earlier connection, or by another program)
    pub occupied: bool,
}

fn free_udp_port() -> Option<u16> {
    std::net::UdpSocket::bind("127.0.0.1:0").ok()?.local_addr().ok().map(|a| a.port())
}

pub struct Connect;
impl Part for Connect {
    type Case = ConnectCase;
    fn name(&self) -> &'static str {
        "connect-sends-exactly-the-isi"
    }
    fn check(&self, c: &ConnectCase, ev: &mut Local) -> Result<(), Fail> {
        // the generated ops never contain transport selection; it is appended here with real loopback addresses
        let mut ops: Vec<Op> = c.ops.iter().filter(|o| !matches!(o, Op::Tcp | Op::Udp(_) | Op::UdpAny(_) | Op::Udp6(_))).cloned().collect();
        // in every other case something else happened on this thread before: another connection's codec refused two packets
        // (one too large for its size mode, one with a field out of range). The handshake must not notice.
        if c.ops.len() % 2 == 0 {
            for pseudo in [0xFFu8, 0xFD] {
                if let Some(p) = crate::props::c03::seq_packet(&[pseudo], &Mode::Uncompressed) {
                    let _ = guard(|| insim::net::Codec::new(Mode::Uncompressed).encode(&p).map(|b| b.len()).map_err(|e| e.to_string()));
                }
            }
            ev.class("after another codec of this thread refused packets");
        }
        let received: Vec<Vec<u8>>;
        let mut expected_count = 1usize;
        let model;
        if !c.udp {
            let listener = std::net::TcpListener::bind("127.0.0.1:0").map_err(|e| {
                eprintln!("INCONCLUSIVE: cannot bind loopback TCP: {e}");
                std::process::exit(2);
            }).unwrap();
            let addr = listener.local_addr().unwrap();
            ops.push(Op::Tcp);
            ops.extend(c.post.iter().filter(|o| !matches!(o, Op::Tcp | Op::Udp(_) | Op::UdpAny(_) | Op::Udp6(_) | Op::Relay)).cloned());
            let (b, m) = apply(&ops, addr).map_err(|e| Fail::new("harness:apply", e))?;
            model = m;
            // the builder is connected TWICE (it is documented as reusable): the second connection must carry the same handshake
            let unrepresentable = model.interval.map(|i| i > 65535).unwrap_or(false);
            let mut streams: Vec<Vec<u8>> = vec![];
            for round in 0..2 {
                let l2 = listener.try_clone().map_err(|e| Fail::new("harness:listener", e.to_string()))?;
                let server = std::thread::spawn(move || {
                    let (mut s, _) = l2.accept().ok()?;
                    s.set_read_timeout(Some(Duration::from_secs(5))).ok()?;
                    let mut all = vec![];
                    s.read_to_end(&mut all).ok()?;
                    Some(all)
                });
                let r: Result<Result<(), String>, String> = if c.async_api {
                    guard(|| {
                        let rt = tokio::runtime::Builder::new_current_thread().enable_all().build().unwrap();
                        rt.block_on(async { b.connect_async().await.map(|f| drop(f)).map_err(|e| e.to_string()) })
                    })
                } else {
                    guard(|| b.connect_blocking().map(|f| drop(f)).map_err(|e| e.to_string()))
                };
                match r {
                    Err(p) => fail!("c18:connect-panics", "tcp connect #{} panicked: {p}", round + 1),
                    Ok(Err(e)) => {
                        if !unrepresentable {
                            fail!("c18:connect-fails", "tcp connect #{} to a listening loopback socket failed: {e}", round + 1);
                        }
                    },
                    Ok(Ok(())) => {},
                }
                let bytes = server.join().ok().flatten().ok_or_else(|| Fail::new("c18:nothing-received", "the listener saw no complete stream"))?;
                if unrepresentable {
                    // an interval the 16-bit field cannot carry must be refused, never sent as some other value
                    ensure!(bytes.is_empty(), "c18:unrepresentable-interval-sent-as-another-value", "interval {:?} ms does not fit the ISI field, yet the peer received {}", model.interval, hex(&bytes));
                }
                streams.push(bytes);
            }
            if unrepresentable {
                ev.class("refused: interval out of range");
                ev.nontrivial(&format!("{c:?}"));
                return Ok(());
            }
            ensure!(
                streams[0] == streams[1],
                "c18:handshake-differs-from-configuration",
                "the same builder connected twice: the first connection sent {}, the second {}",
                hex(&streams[0]),
                hex(&streams[1])
            );
            received = vec![streams.remove(0)];
        } else {
            let peer = std::net::UdpSocket::bind("127.0.0.1:0").map_err(|e| {
                eprintln!("INCONCLUSIVE: cannot bind loopback UDP: {e}");
                std::process::exit(2);
            }).unwrap();
            let addr = peer.local_addr().unwrap();
            // an occupier keeps the configured port bound (on the address connect will bind: exclusive either way)
            let occupier = if c.with_local && c.occupied { std::net::UdpSocket::bind(if c.local_any { "0.0.0.0:0" } else { "127.0.0.1:0" }).ok() } else { None };
            let local = match &occupier {
                Some(o) => o.local_addr().ok().map(|a| a.port()),
                None => if c.with_local { free_udp_port() } else { None },
            };
            ops.push(match local {
                Some(p) if c.local_any => Op::UdpAny(p),
                l => Op::Udp(l),
            });
            ops.extend(c.post.iter().filter(|o| !matches!(o, Op::Tcp | Op::Udp(_) | Op::UdpAny(_) | Op::Udp6(_) | Op::Relay)).cloned());
            let (b, m) = apply(&ops, addr).map_err(|e| Fail::new("harness:apply", e))?;
            model = m;
            let r: Result<Result<(), String>, String> = if c.async_api {
                guard(|| {
                    let rt = tokio::runtime::Builder::new_current_thread().enable_all().build().unwrap();
                    rt.block_on(async { b.connect_async().await.map(|f| drop(f)).map_err(|e| e.to_string()) })
                })
            } else {
                guard(|| b.connect_blocking().map(|f| drop(f)).map_err(|e| e.to_string()))
            };
            match r {
                Err(p) => {
                    let sig = if local.is_none() { "c18:isi-panics-for-udp-without-local-address" } else { "c18:connect-panics" };
                    fail!(sig, "udp connect (local address {:?}) panicked: {p}", local);
                },
                Ok(Err(e)) => {
                    if occupier.is_some() {
                        // refusing to connect is fine - provided nothing went out
                        peer.set_nonblocking(true).unwrap();
                        let mut buf = [0u8; 2048];
                        if let Ok(n) = peer.recv(&mut buf) {
                            fail!("c18:handshake-differs-from-configuration", "udp connect with the local port {:?} held by another socket failed ({e}), yet the peer received {}", local, hex(&buf[..n]));
                        }
                        ev.class("local port held by another socket: connect refused, nothing sent");
                        ev.nontrivial(&format!("{c:?}"));
                        return Ok(());
                    }
                    if e.contains("in use") || e.contains("AddrInUse") {
                        ev.class("skipped: local port taken meanwhile");
                        return Ok(());
                    }
                    if !model.interval.map(|i| i > 65535).unwrap_or(false) {
                        fail!("c18:connect-fails", "udp connect failed: {e}");
                    }
                },
                Ok(Ok(())) => {
                    // the builder is reusable: a second connection (the first one is closed) sends the same handshake
                    let r2: Result<Result<(), String>, String> = if c.async_api {
                        guard(|| {
                            let rt = tokio::runtime::Builder::new_current_thread().enable_all().build().unwrap();
                            rt.block_on(async { b.connect_async().await.map(|f| drop(f)).map_err(|e| e.to_string()) })
                        })
                    } else {
                        guard(|| b.connect_blocking().map(|f| drop(f)).map_err(|e| e.to_string()))
                    };
                    match r2 {
                        Err(p) => fail!("c18:connect-panics", "second udp connect with the same builder panicked: {p}"),
                        Ok(Err(e)) if e.contains("in use") || e.contains("AddrInUse") => {},
                        Ok(Err(e)) => fail!("c18:connect-fails", "second udp connect with the same builder failed: {e}"),
                        Ok(Ok(())) => expected_count = 2,
                    }
                },
            }
            peer.set_nonblocking(true).unwrap();
            if model.interval.map(|i| i > 65535).unwrap_or(false) {
                let mut buf = [0u8; 2048];
                if let Ok(n) = peer.recv(&mut buf) {
                    fail!("c18:unrepresentable-interval-sent-as-another-value", "interval {:?} ms does not fit the ISI field, yet the peer received {}", model.interval, hex(&buf[..n]));
                }
                ev.class("refused: interval out of range");
                ev.nontrivial(&format!("{c:?}"));
                return Ok(());
            }
            let mut got = vec![];
            let mut buf = [0u8; 2048];
            // loopback delivery is synchronous with send(): everything sent by connect is already queued
            while let Ok(n) = peer.recv(&mut buf) {
                got.push(buf[..n].to_vec());
            }
            received = got;
        }
        let mode = if model.compressed { Mode::Compressed } else { Mode::Uncompressed };
        // the expected frame is laid out here from the documented IS_ISI structure, not by the library's encoder
        let want = reference_isi_frame(&model);
        let what = if c.udp { "datagrams" } else { "bytes" };
        ensure!(
            received.len() == expected_count && received.iter().all(|r| *r == want),
            if received.iter().map(|r| r.len()).sum::<usize>() > want.len() { "c18:more-than-the-isi-sent" } else { "c18:handshake-differs-from-configuration" },
            "{} {} connect, {} mode: peer received {what} {:?}, expected exactly one ISI frame {} per connection ({expected_count} connections from one builder)",
            if c.async_api { "async" } else { "blocking" },
            if c.udp { "udp" } else { "tcp" },
            crate::refs::compare::mode_name(&mode),
            received.iter().map(|r| hex(r)).collect::<Vec<_>>(),
            hex(&want)
        );
        ev.nontrivial(&format!("{c:?}"));
        ev.class(&format!("{}-{}{}", if c.async_api { "async" } else { "blocking" }, if c.udp { "udp" } else { "tcp" }, if c.udp { if c.with_local { "-local" } else { "-nolocal" } } else { "" }));
        if ev.wants_sample() {
            ev.sample(|| json!({"calls": ops_json(&ops), "first_frame": hex(&want)}));
        }
        Ok(())
    }
    fn to_json(&self, c: &ConnectCase) -> Value {
        json!({"calls": ops_json(&c.ops), "calls_after_transport": ops_json(&c.post), "local_any": c.local_any, "udp": c.udp, "with_local": c.with_local, "async": c.async_api, "occupied": c.occupied})
    }
    fn from_json(&self, v: &Value) -> Option<ConnectCase> {
        Some(ConnectCase { ops: ops_from(v.get("calls")?)?, post: v.get("calls_after_transport").and_then(ops_from).unwrap_or_default(), local_any: v.get("local_any").and_then(|x| x.as_bool()).unwrap_or(false), udp: v.get("udp")?.as_bool()?, with_local: v.get("with_local")?.as_bool()?, async_api: v.get("async")?.as_bool()?, occupied: v.get("occupied").and_then(|x| x.as_bool()).unwrap_or(false) })
    }
}

fn text_opt(max: usize) -> impl Strategy<Value = Option<String>> {
    prop_oneof![
        1 => Just(None),
        3 => proptest::collection::vec(0x20u8..0x7f, 0..max).prop_map(|v| Some(String::from_utf8(v).unwrap().replace('^', "-"))),
    ]
}

fn op_strategy(with_transport: bool) -> impl Strategy<Value = Op> {
    let transport = if with_transport {
        prop_oneof![Just(Op::Tcp), Just(Op::Relay), prop_oneof![Just(None), (1024u16..65535).prop_map(Some), Just(Some(0u16))].prop_map(Op::Udp), prop_oneof![3 => 1024u16..65535, 1 => Just(0u16)].prop_map(Op::UdpAny), (1024u16..65535).prop_map(Op::Udp6)].sboxed()
    } else {
        Just(Op::Compressed).sboxed()
    };
    prop_oneof![
        6 => (0usize..10, any::<bool>()).prop_map(|(i, b)| Op::Flag(i, b)),
        2 => prop_oneof![any::<u16>().prop_map(|b| Op::Flags(b & 0x0ffd)), any::<u16>().prop_map(Op::FlagsRetain)],
        1 => prop_oneof![Just(None), (0x21u8..0x7f).prop_map(Some)].prop_map(Op::Prefix),
        1 => prop_oneof![2 => Just(None), 4 => (0u64..65536).prop_map(Some), 1 => Just(Some(65535u64)), 1 => Just(Some(65536u64)), 1 => (65536u64..4_000_000).prop_map(Some),
            // values a narrowing step would wrap into the 16-bit field
            1 => (prop::sample::select(vec![16u32, 32, 48, 63]), 1u64..4, 0u64..70_000).prop_map(|(w, k, r)| Some((k << w).saturating_add(r)))]
            // ... and now and then an interval of k * 2^64 + r milliseconds
            .prop_flat_map(|i| (Just(i), any::<u8>(), 1u8..4, prop_oneof![Just(0u16), Just(40u16), any::<u16>()])).prop_map(|(i, pick, k, r)| if pick % 8 == 0 { Op::IntervalHuge(k, r) } else { Op::Interval(i) }),
        1 => text_opt(20).prop_map(Op::Iname),
        1 => text_opt(20).prop_map(Op::Admin),
        1 => any::<u8>().prop_map(Op::Reqi),
        3 => transport,
        4 => prop_oneof![
            Just(Op::Compressed),
            Just(Op::Uncompressed),
            any::<bool>().prop_map(Op::Verify),
            any::<bool>().prop_map(Op::Nodelay),
        ],
        3 => prop_oneof![
            any::<bool>().prop_map(Op::RelayWs),
            (1u32..20_000).prop_map(Op::ConnectTimeout),
            any::<bool>().prop_map(Op::ModeSet),
            text_opt(12).prop_map(Op::RelayHost),
            text_opt(12).prop_map(Op::RelaySpec),
            text_opt(12).prop_map(Op::RelayAdmin),
        ],
    ]
}

pub fn parts() -> Vec<Box<dyn DynPart>> {
    vec![Box::new(IsiModel), Box::new(AllFlagStates), Box::new(Connect)]
}

pub fn run(run: &mut Run) {
    run.rule = "Builder call sequences of length 0..25 over the 10 flag setters, wholesale flag replacement, prefix / interval / name / \
        password / request id set or cleared, tcp / udp(with, without local address; on 127.0.0.1 or on 0.0.0.0) / relay, compressed / uncompressed, verify_version, \
        tcp_nodelay, mode(), connect_timeout and the relay-only options (websocket, host selection, spectator / admin password) are applied to the real builder and to a plain struct model (later calls override earlier ones); isi() must not panic \
        and must render like the model's ISI (defaults: name insim.rs, empty password, NUL prefix, interval 0, request id 0, UDP port = \
        configured local port or 0). All 1024 flag states via the individual setters (complete). Connect: a loopback TCP listener / UDP \
        peer receives the handshake of connect_blocking and connect_async: exactly one ISI frame equal to the 44-byte image laid out from the documented structure and the model of the configuration (not by the library's encoder); relay() calls earlier in the sequence and any other setter called after the transport selection must not \
        disturb it, and an interval beyond the 16-bit field must be refused (nothing sent), never sent as another value; every builder is connected twice (same handshake), a quarter of the UDP connects run while another socket holds the configured local port (refused with nothing sent, or the configured ISI), and every other connect follows refused encodes by another codec of the thread. \
        Non-trivial = at least two builder calls (model part), every connect case."
        .into();
    run.assumptions = vec![
        "documented defaults are those in Builder::default / Isi::DEFAULT_INAME as described in the property".into(),
        "flag bit positions of the ten setters are InSim.txt's ISF_ values".into(),
    ];
    run.enumerate(&AllFlagStates, 1024, true, |i| Some(i as u16));
    let n = run.budget(200_000, 5_000_000);
    run.prop(&IsiModel, proptest::collection::vec(op_strategy(true), 0..25), n);
    run.max_shrink_iters = 200;
    let strat = (proptest::collection::vec(prop_oneof![8 => op_strategy(false), 1 => Just(Op::Relay)], 0..12), proptest::collection::vec(op_strategy(false), 0..5), any::<bool>(), any::<bool>(), any::<bool>(), any::<bool>(), prop::bool::weighted(0.25))
        .prop_map(|(ops, post, udp, with_local, local_any, async_api, occupied)| ConnectCase { ops, post, udp, with_local, local_any, async_api, occupied });
    let n = run.budget(600, 20_000);
    run.prop(&Connect, strat, n);
}
