//! Shared session generator for the stream properties (C05 C07 C09 C19): frame sequences of all kinds,
//! segmentations of the byte stream into read steps, injected transient faults.

use std::io::ErrorKind;

use insim::net::Mode;
use proptest::prelude::*;
use proptest::sample::Index;
use serde_json::{json, Value};

use crate::engine::{hex, unhex};
use crate::refs::image;
use crate::refs::spec::spec;
use crate::transport::{ReadStep, WriteStep};

#[derive(Clone, Debug)]
pub enum FrameSpec {
    /// a conformant frame of a packet kind built from an entropy tape
    Kind(usize, Vec<u8>),
    /// a well-framed packet with a type number nobody knows
    UnknownType(u8, u8),
    /// a well-framed, known type with an enumerant byte that does not exist (decode error)
    BadEnum(u8),
    KeepAlive,
    /// TINY with any sub-type / request id
    Tiny(u8, u8),
    /// IS_VER reporting this InSim version
    Ver(u8),
    /// IS_VER reporting this InSim version in a frame that announces 1..3 words more than the 20 bytes of today's layout
    /// (a later protocol version appending fields)
    VerLong(u8, u8),
    /// a maximum-size frame
    Big(u8),
    /// a frame of a known type that is shorter than that type needs (4 or 8 bytes): a decode error on its own
    Short(u8, u8),
    /// a variable-text packet (MSO / III / ACR / MTC / BTN) whose text fills the frame completely, without a NUL
    UnterminatedText(u8, u8),
    /// a frame that announces more bytes than its header's kind has: (type, request id, fourth byte, extra 4-byte words).
    /// With (3, 0, 0, k) it *starts* like a keep-alive, but is a k+1 word frame: only the size byte says where it ends.
    Long(u8, u8, u8, u8),
    /// IS_VER with one of several version / product texts (short ones, and ones that fill their field completely)
    VerText(u8, u8),
}

pub fn size_byte(mode: &Mode, len: usize) -> u8 {
    match mode {
        Mode::Compressed => (len / 4) as u8,
        Mode::Uncompressed => len as u8,
    }
}

pub fn frame_bytes(f: &FrameSpec, mode: &Mode) -> Vec<u8> {
    match f {
        FrameSpec::Kind(k, tape) => {
            let p = &spec().packets[*k % spec().packets.len()];
            image::from_tape(p, mode, tape, false).image
        },
        FrameSpec::UnknownType(ty, words) => {
            // type numbers 68..=249 are unassigned
            let ty = 68 + (*ty as usize % 182) as u8;
            let max_words = match mode {
                Mode::Compressed => 255,
                Mode::Uncompressed => 63,
            };
            let len = 4 * (1 + (*words as usize % max_words));
            let mut v = vec![0x55u8; len];
            v[0] = size_byte(mode, len);
            v[1] = ty;
            v
        },
        FrameSpec::BadEnum(x) => {
            // IS_TINY with sub-type 30..=255, or IS_FLG with flag 0 / 3+
            if x % 2 == 0 {
                vec![size_byte(mode, 4), 3, *x, 30 + (*x % 200)]
            } else {
                vec![size_byte(mode, 8), 32, 1, 2, 1, 3 + (*x % 100), 0, 0]
            }
        },
        FrameSpec::KeepAlive => vec![size_byte(mode, 4), 3, 0, 0],
        FrameSpec::Tiny(subt, reqi) => vec![size_byte(mode, 4), 3, *reqi, *subt % 30],
        FrameSpec::Ver(v) => {
            let mut f = vec![size_byte(mode, 20), 2, 1, 0];
            f.extend_from_slice(b"0.7F\0\0\0\0S3\0\0\0\0");
            f.push(*v);
            f.push(0);
            f
        },
        FrameSpec::Short(ty, fill) => {
            // types whose fixed layout needs more than 8 bytes
            let types = [1u8, 2, 5, 9, 10, 13, 15, 17, 18, 20, 21, 24, 25, 26, 27, 34, 35, 36, 39, 40, 43, 47, 48, 49, 50, 51, 52, 53, 56, 57, 58, 59, 63, 254];
            let t = types[*ty as usize % types.len()];
            let len = if fill % 2 == 0 { 4 } else { 8 };
            let mut v = vec![fill | 1; len];
            v[0] = size_byte(mode, len);
            v[1] = t;
            v
        },
        FrameSpec::UnterminatedText(which, n) => {
            // (type, header length)
            let (ty, hdr) = [(11u8, 8usize), (12, 8), (55, 8), (14, 8), (45, 12)][*which as usize % 5];
            let words = 1 + (*n as usize % 6);
            let len = hdr + 4 * words;
            let mut v = vec![0u8; len];
            v[0] = size_byte(mode, len);
            v[1] = ty;
            if ty == 55 {
                v[6] = 1; // ACR result: Processed
            }
            for (i, b) in v.iter_mut().enumerate().skip(hdr) {
                *b = b'a' + (i % 26) as u8;
            }
            v
        },
        FrameSpec::VerText(v, sel) => {
            const VERSIONS: [&[u8]; 6] = [b"0.7F", b"0.7E15", b"0.7E1234", b"0.04K123", b"0.6U2", b"1.23456Z"];
            const PRODUCTS: [&[u8]; 4] = [b"S3", b"DEMO", b"FULL99", b"S2"];
            let mut f = vec![size_byte(mode, 20), 2, 1, 0];
            let mut t = VERSIONS[*sel as usize % 6].to_vec();
            t.resize(8, 0);
            f.extend_from_slice(&t);
            let mut p = PRODUCTS[(*sel as usize / 6) % 4].to_vec();
            p.resize(6, 0);
            f.extend_from_slice(&p);
            f.push(*v);
            f.push(0);
            f
        },
        FrameSpec::VerLong(v, extra) => {
            let mut f = frame_bytes(&FrameSpec::Ver(*v), mode);
            let words = 1 + (*extra as usize % 3);
            f.extend(std::iter::repeat(0u8).take(4 * words));
            f[0] = size_byte(mode, f.len());
            f
        },
        FrameSpec::Long(ty, reqi, fourth, extra) => {
            let words = 2 + (*extra as usize % 3);
            let mut v = vec![size_byte(mode, 4 * words), *ty, *reqi, *fourth];
            for i in 4..4 * words {
                // the tail looks like frames of its own: [1|4, 3, n, 3] (a TINY_PING in either size mode)
                v.push([size_byte(mode, 4), 3, i as u8, 3][i % 4]);
            }
            v
        },
        FrameSpec::Big(fill) => {
            let len = match mode {
                Mode::Compressed => 1020,
                Mode::Uncompressed => 252,
            };
            // a maximum-size IS_MCI-like unknown frame (type 200)
            let mut v = vec![*fill; len];
            v[0] = size_byte(mode, len);
            v[1] = 200;
            v
        },
    }
}

pub fn frame_strategy(keepalive_weight: u32, ver_weight: u32) -> impl Strategy<Value = FrameSpec> {
    prop_oneof![
        8 => (any::<usize>(), proptest::collection::vec(any::<u8>(), 0..200)).prop_map(|(k, t)| FrameSpec::Kind(k, t)),
        2 => (any::<u8>(), any::<u8>()).prop_map(|(a, b)| FrameSpec::UnknownType(a, b)),
        2 => any::<u8>().prop_map(FrameSpec::BadEnum),
        keepalive_weight => Just(FrameSpec::KeepAlive),
        3 => (any::<u8>(), prop_oneof![Just(0u8), any::<u8>()]).prop_map(|(a, b)| FrameSpec::Tiny(a, b)),
        ver_weight => prop_oneof![3 => prop_oneof![Just(9u8), any::<u8>()].prop_map(FrameSpec::Ver), 1 => (prop_oneof![Just(9u8), any::<u8>()], any::<u8>()).prop_map(|(v, e)| FrameSpec::VerLong(v, e)), 2 => (prop_oneof![Just(9u8), any::<u8>()], 0u8..24).prop_map(|(v, s)| FrameSpec::VerText(v, s))],
        1 => any::<u8>().prop_map(FrameSpec::Big),
        2 => (any::<u8>(), any::<u8>()).prop_map(|(a, b)| FrameSpec::Short(a, b)),
        2 => (any::<u8>(), any::<u8>()).prop_map(|(a, b)| FrameSpec::UnterminatedText(a, b)),
        2 => (prop_oneof![3 => Just(3u8), 1 => Just(4u8), 1 => Just(2u8), 1 => any::<u8>()], prop_oneof![3 => Just(0u8), 1 => any::<u8>()], prop_oneof![3 => Just(0u8), 1 => any::<u8>()], any::<u8>())
            .prop_map(|(a, b, c, d)| FrameSpec::Long(a, b, c, d)),
    ]
}

#[derive(Clone, Debug)]
pub enum Cutting {
    OneByte,
    OneRead,
    /// random cut points
    Random(Vec<Index>),
    /// cuts at frame boundaries shifted by -1 / 0 / +1
    Boundaries(Vec<i8>),
    /// fixed chunk size
    Chunks(usize),
}

pub fn cutting_strategy() -> impl Strategy<Value = Cutting> {
    prop_oneof![
        1 => Just(Cutting::OneByte),
        1 => Just(Cutting::OneRead),
        4 => proptest::collection::vec(any::<Index>(), 0..40).prop_map(Cutting::Random),
        2 => proptest::collection::vec(-1i8..2, 1..8).prop_map(Cutting::Boundaries),
        2 => prop_oneof![Just(3usize), Just(4), Just(7), Just(997), Just(6120), Just(6121), 1usize..2000].prop_map(Cutting::Chunks),
    ]
}

#[derive(Clone, Debug)]
pub enum Fault {
    Err(u8),
    Pending,
    Stall,
}

/// frame boundaries (end offsets) of a well-framed stream
pub fn boundaries(stream: &[u8], mode: &Mode) -> Vec<usize> {
    let mut out = vec![];
    let mut i = 0;
    while i < stream.len() {
        let a = match mode {
            Mode::Compressed => stream[i] as usize * 4,
            Mode::Uncompressed => stream[i] as usize,
        };
        if a < 4 {
            break;
        }
        i += a;
        out.push(i.min(stream.len()));
    }
    out
}

pub fn cut_stream(stream: &[u8], mode: &Mode, cutting: &Cutting) -> Vec<Vec<u8>> {
    let n = stream.len();
    if n == 0 {
        return vec![];
    }
    if n == 1 {
        return vec![stream.to_vec()];
    }
    let mut cuts: Vec<usize> = match cutting {
        Cutting::OneByte => (1..n).collect(),
        Cutting::OneRead => vec![],
        Cutting::Random(ix) => ix.iter().map(|i| 1 + i.index(n.max(2) - 1)).filter(|c| *c < n).collect(),
        Cutting::Boundaries(shifts) => {
            let b = boundaries(stream, mode);
            b.iter().enumerate().map(|(i, e)| (*e as i64 + shifts[i % shifts.len()] as i64).clamp(1, n as i64 - 1) as usize).collect()
        },
        Cutting::Chunks(k) => (1..n).filter(|i| i % k == 0).collect(),
    };
    cuts.sort();
    cuts.dedup();
    let mut out = vec![];
    let mut prev = 0;
    for c in cuts {
        if c > prev && c < n {
            out.push(stream[prev..c].to_vec());
            prev = c;
        }
    }
    out.push(stream[prev..].to_vec());
    out
}

const KINDS: [ErrorKind; 3] = [ErrorKind::WouldBlock, ErrorKind::Interrupted, ErrorKind::TimedOut];

pub fn build_steps(chunks: Vec<Vec<u8>>, faults: &[(Index, Fault)]) -> Vec<ReadStep> {
    let mut steps: Vec<ReadStep> = chunks.into_iter().map(ReadStep::Data).collect();
    for (pos, f) in faults {
        let at = pos.index(steps.len() + 1);
        let s = match f {
            Fault::Err(k) => ReadStep::Err(KINDS[*k as usize % 3]),
            Fault::Pending => ReadStep::Pending,
            Fault::Stall => ReadStep::Stall,
        };
        steps.insert(at, s);
    }
    steps
}

#[derive(Clone, Debug)]
pub struct SessionCase {
    pub compressed: bool,
    pub verify: bool,
    pub steps: Vec<ReadStep>,
    pub writes: Vec<WriteStep>,
    /// truncate the stream in the middle of its last frame
    pub label: String,
}

impl SessionCase {
    pub fn mode(&self) -> Mode {
        if self.compressed {
            Mode::Compressed
        } else {
            Mode::Uncompressed
        }
    }
    pub fn stream(&self) -> Vec<u8> {
        let mut v = vec![];
        for s in &self.steps {
            if let ReadStep::Data(d) = s {
                v.extend_from_slice(d);
            }
        }
        v
    }
}

pub fn kind_name(k: ErrorKind) -> &'static str {
    match k {
        ErrorKind::WouldBlock => "WouldBlock",
        ErrorKind::Interrupted => "Interrupted",
        ErrorKind::TimedOut => "TimedOut",
        ErrorKind::ConnectionReset => "ConnectionReset",
        _ => "Other",
    }
}
pub fn kind_from(s: &str) -> ErrorKind {
    match s {
        "WouldBlock" => ErrorKind::WouldBlock,
        "Interrupted" => ErrorKind::Interrupted,
        "TimedOut" => ErrorKind::TimedOut,
        "ConnectionReset" => ErrorKind::ConnectionReset,
        _ => ErrorKind::Other,
    }
}

pub fn steps_json(steps: &[ReadStep]) -> Value {
    Value::Array(
        steps
            .iter()
            .map(|s| match s {
                ReadStep::Data(d) => json!({"data": hex(d)}),
                ReadStep::Err(k) => json!({"err": kind_name(*k)}),
                ReadStep::Pending => json!("pending"),
                ReadStep::Stall => json!("stall"),
                ReadStep::RealPause(ms) => json!({"real_pause_ms": ms}),
            })
            .collect(),
    )
}
pub fn steps_from(v: &Value) -> Option<Vec<ReadStep>> {
    v.as_array()?
        .iter()
        .map(|s| {
            if let Some(d) = s.get("data").and_then(|d| d.as_str()) {
                Some(ReadStep::Data(unhex(d)?))
            } else if let Some(e) = s.get("err").and_then(|d| d.as_str()) {
                Some(ReadStep::Err(kind_from(e)))
            } else if let Some(ms) = s.get("real_pause_ms").and_then(|d| d.as_u64()) {
                Some(ReadStep::RealPause(ms))
            } else if s.as_str() == Some("pending") {
                Some(ReadStep::Pending)
            } else if s.as_str() == Some("stall") {
                Some(ReadStep::Stall)
            } else {
                None
            }
        })
        .collect()
}
pub fn writes_json(w: &[WriteStep]) -> Value {
    Value::Array(
        w.iter()
            .map(|s| match s {
                WriteStep::Accept(k) => json!({"accept": k}),
                WriteStep::Pending => json!("pending"),
                WriteStep::Err(k) => json!({"err": kind_name(*k)}),
            })
            .collect(),
    )
}
pub fn writes_from(v: &Value) -> Option<Vec<WriteStep>> {
    v.as_array()?
        .iter()
        .map(|s| {
            if let Some(k) = s.get("accept").and_then(|d| d.as_u64()) {
                Some(WriteStep::Accept(k as usize))
            } else if let Some(e) = s.get("err").and_then(|d| d.as_str()) {
                Some(WriteStep::Err(kind_from(e)))
            } else if s.as_str() == Some("pending") {
                Some(WriteStep::Pending)
            } else {
                None
            }
        })
        .collect()
}

pub fn session_json(c: &SessionCase) -> Value {
    json!({"compressed": c.compressed, "verify_version": c.verify, "reads": steps_json(&c.steps), "writes": writes_json(&c.writes), "label": c.label})
}
pub fn session_from(v: &Value) -> Option<SessionCase> {
    Some(SessionCase {
        compressed: v.get("compressed")?.as_bool()?,
        verify: v.get("verify_version")?.as_bool()?,
        steps: steps_from(v.get("reads")?)?,
        writes: v.get("writes").and_then(writes_from).unwrap_or_default(),
        label: v.get("label").and_then(|l| l.as_str()).unwrap_or("").to_string(),
    })
}

/// the general session strategy. `long`: up to ~60 KB of traffic; otherwise a handful of frames.
pub fn session_strategy(max_frames: usize, keepalive_weight: u32, ver_weight: u32, with_faults: bool, verify: Option<bool>) -> impl Strategy<Value = SessionCase> {
    let faults = if with_faults {
        proptest::collection::vec((any::<Index>(), prop_oneof![3 => any::<u8>().prop_map(Fault::Err), 2 => Just(Fault::Pending), 1 => Just(Fault::Stall)]), 0..4).sboxed()
    } else {
        Just(vec![]).sboxed()
    };
    let writes = proptest::collection::vec(prop_oneof![3 => (1usize..5).prop_map(WriteStep::Accept), 1 => Just(WriteStep::Pending)], 0..6);
    (
        any::<bool>(),
        match verify {
            Some(v) => Just(v).sboxed(),
            None => any::<bool>().sboxed(),
        },
        proptest::collection::vec(frame_strategy(keepalive_weight, ver_weight), 0..max_frames),
        cutting_strategy(),
        faults,
        prop::option::weighted(0.15, any::<Index>()),
        writes,
    )
        .prop_map(|(compressed, verify, frames, cutting, faults, truncate, writes)| {
            let mode = if compressed { Mode::Compressed } else { Mode::Uncompressed };
            let mut stream = vec![];
            for f in &frames {
                stream.extend_from_slice(&frame_bytes(f, &mode));
            }
            let mut label = format!("{cutting:?}").split('(').next().unwrap().to_string();
            if let Some(t) = truncate {
                if stream.len() > 1 {
                    let cut = 1 + t.index(stream.len() - 1);
                    stream.truncate(cut);
                    label.push_str("+truncated");
                }
            }
            let chunks = cut_stream(&stream, &mode, &cutting);
            let steps = build_steps(chunks, &faults);
            SessionCase { compressed, verify, steps, writes, label }
        })
}
