//! Scripted in-memory transports (blocking Read+Write and tokio AsyncRead+AsyncWrite) with an event
//! trace, and session drivers for the blocking and async `Framed` connections.

use std::collections::VecDeque;
use std::io::{self, Read, Write};
use std::pin::Pin;
use std::sync::{Arc, Mutex};
use std::task::{Context, Poll};

use insim::net::{Codec, Mode};
use insim::Packet;
use tokio::io::{AsyncRead, AsyncWrite, ReadBuf};

use crate::engine::guard;

#[derive(Debug, Clone, PartialEq)]
pub enum ReadStep {
    /// bytes that become readable (delivered in as many read calls as the offered slices need)
    Data(Vec<u8>),
    /// a transient transport error
    Err(io::ErrorKind),
    /// async only: not ready once (the waker is woken immediately); blocking transports skip it
    Pending,
    /// async: not ready and nobody wakes the task: only the connection's own 90 s timeout ends the wait.
    /// blocking: the socket read timeout fires (TimedOut)
    Stall,
    /// real (wall-clock) milliseconds pass before the next step: the peer is simply quiet for a while. Invisible to the
    /// reader; used by the thorough tier only (behaviour keyed on std::time::Instant cannot be seen otherwise)
    RealPause(u64),
}

#[derive(Debug, Clone, PartialEq)]
pub enum WriteStep {
    /// accept at most k bytes of what is offered (k >= 1)
    Accept(usize),
    /// async only: not ready once
    Pending,
    Err(io::ErrorKind),
}

#[derive(Debug, Clone, PartialEq)]
pub enum Event {
    ReadOffered(usize),
    ReadDelivered(usize),
    ReadErr(io::ErrorKind),
    ReadPending,
    Eof,
    Wrote(Vec<u8>),
    WritePending,
    WriteErr(io::ErrorKind),
    /// inserted by the driver: the public read call returned this (rendered) result
    Returned(String),
    /// inserted by the driver: the read future was dropped while pending
    Dropped,
    /// inserted by the driver: a user write call returned
    WriteReturned(String),
}

#[derive(Debug, Default)]
pub struct Script {
    pub reads: VecDeque<ReadStep>,
    pub writes: VecDeque<WriteStep>,
    pub trace: Vec<Event>,
    pub written: Vec<u8>,
    /// every write call: (bytes accepted so far, bytes offered by this call)
    pub offers: Vec<(usize, usize)>,
    /// the write half was shut down (tokio poll_shutdown): further writes fail like on a real socket
    pub shut: bool,
    /// the transport announces efficient vectored writes (as tokio's TcpStream does) and accepts gathered buffers: the scripted
    /// acceptance then counts bytes across the slices of one call, like writev
    pub vectored: bool,
    pub min_offered: usize,
    pub max_offered: usize,
    /// a waker parked by a Stall step (never woken by the transport)
    pub stalled: bool,
    /// paused-clock instant at which the current Stall step began
    pub stall_started: Option<tokio::time::Instant>,
}

#[derive(Debug, Clone)]
pub struct Transport(pub Arc<Mutex<Script>>);

impl Transport {
    pub fn new(reads: Vec<ReadStep>, writes: Vec<WriteStep>) -> Self {
        Transport(Arc::new(Mutex::new(Script {
            reads: reads.into(),
            writes: writes.into(),
            min_offered: usize::MAX,
            ..Default::default()
        })))
    }
    /// the write half announces (and serves) vectored writes
    pub fn vectored(self, on: bool) -> Self {
        self.0.lock().unwrap().vectored = on;
        self
    }
    pub fn push_event(&self, e: Event) {
        self.0.lock().unwrap().trace.push(e);
    }
    pub fn take_trace(&self) -> Vec<Event> {
        std::mem::take(&mut self.0.lock().unwrap().trace)
    }
    pub fn written(&self) -> Vec<u8> {
        self.0.lock().unwrap().written.clone()
    }
    pub fn reads_left(&self) -> usize {
        self.0.lock().unwrap().reads.len()
    }
}

enum ReadOutcome {
    Delivered(usize),
    Err(io::ErrorKind),
    Pending { wake: bool },
}

impl Script {
    fn do_read(&mut self, buf: &mut [u8], blocking: bool) -> ReadOutcome {
        self.trace.push(Event::ReadOffered(buf.len()));
        self.min_offered = self.min_offered.min(buf.len());
        self.max_offered = self.max_offered.max(buf.len());
        loop {
            match self.reads.pop_front() {
                None => {
                    self.trace.push(Event::Eof);
                    return ReadOutcome::Delivered(0);
                },
                Some(ReadStep::Data(d)) => {
                    if d.is_empty() {
                        continue;
                    }
                    let n = d.len().min(buf.len());
                    buf[..n].copy_from_slice(&d[..n]);
                    if n < d.len() {
                        self.reads.push_front(ReadStep::Data(d[n..].to_vec()));
                    }
                    self.trace.push(Event::ReadDelivered(n));
                    return ReadOutcome::Delivered(n);
                },
                Some(ReadStep::Err(k)) => {
                    self.trace.push(Event::ReadErr(k));
                    return ReadOutcome::Err(k);
                },
                Some(ReadStep::RealPause(ms)) => {
                    std::thread::sleep(std::time::Duration::from_millis(ms));
                    continue;
                },
                Some(ReadStep::Pending) => {
                    if blocking {
                        continue;
                    }
                    self.trace.push(Event::ReadPending);
                    return ReadOutcome::Pending { wake: true };
                },
                Some(ReadStep::Stall) => {
                    if blocking {
                        self.trace.push(Event::ReadErr(io::ErrorKind::TimedOut));
                        return ReadOutcome::Err(io::ErrorKind::TimedOut);
                    }
                    // Nothing arrives for longer than the connection is willing to wait. tokio's timeout() polls the
                    // wrapped future once more when its deadline fires, so the step stays in place until a poll has
                    // seen the (paused) clock 90 s later; that poll is still Pending, the next one proceeds.
                    let now = tokio::time::Instant::now();
                    let started = *self.stall_started.get_or_insert(now);
                    if now.duration_since(started) < std::time::Duration::from_secs(insim::net::DEFAULT_TIMEOUT_SECS) {
                        self.reads.push_front(ReadStep::Stall);
                    } else {
                        self.stall_started = None;
                    }
                    self.trace.push(Event::ReadPending);
                    return ReadOutcome::Pending { wake: false };
                },
            }
        }
    }

    fn do_write(&mut self, buf: &[u8], blocking: bool) -> Result<Poll<usize>, io::ErrorKind> {
        self.offers.push((self.written.len(), buf.len()));
        if self.shut {
            self.trace.push(Event::WriteErr(io::ErrorKind::BrokenPipe));
            return Err(io::ErrorKind::BrokenPipe);
        }
        loop {
            match self.writes.pop_front() {
                None => {
                    self.trace.push(Event::Wrote(buf.to_vec()));
                    self.written.extend_from_slice(buf);
                    return Ok(Poll::Ready(buf.len()));
                },
                Some(WriteStep::Accept(k)) => {
                    let n = k.max(1).min(buf.len());
                    self.trace.push(Event::Wrote(buf[..n].to_vec()));
                    self.written.extend_from_slice(&buf[..n]);
                    return Ok(Poll::Ready(n));
                },
                Some(WriteStep::Pending) => {
                    if blocking {
                        continue;
                    }
                    self.trace.push(Event::WritePending);
                    return Ok(Poll::Pending);
                },
                Some(WriteStep::Err(k)) => {
                    self.trace.push(Event::WriteErr(k));
                    return Err(k);
                },
            }
        }
    }
}

impl Read for Transport {
    fn read(&mut self, buf: &mut [u8]) -> io::Result<usize> {
        match self.0.lock().unwrap().do_read(buf, true) {
            ReadOutcome::Delivered(n) => Ok(n),
            ReadOutcome::Err(k) => Err(io::Error::new(k, "scripted transport error")),
            ReadOutcome::Pending { .. } => unreachable!(),
        }
    }
}

impl Write for Transport {
    fn write(&mut self, buf: &[u8]) -> io::Result<usize> {
        if buf.is_empty() {
            return Ok(0);
        }
        match self.0.lock().unwrap().do_write(buf, true) {
            Ok(Poll::Ready(n)) => Ok(n),
            Ok(Poll::Pending) => unreachable!(),
            Err(k) => Err(io::Error::new(k, "scripted transport error")),
        }
    }
    fn write_vectored(&mut self, bufs: &[io::IoSlice<'_>]) -> io::Result<usize> {
        let vectored = self.0.lock().unwrap().vectored;
        if !vectored {
            // the default of std: the first non-empty slice
            return match bufs.iter().find(|b| !b.is_empty()) {
                Some(b) => self.write(b),
                None => Ok(0),
            };
        }
        let all: Vec<u8> = bufs.iter().flat_map(|b| b.iter().copied()).collect();
        self.write(&all)
    }
    fn flush(&mut self) -> io::Result<()> {
        Ok(())
    }
}

impl AsyncRead for Transport {
    fn poll_read(self: Pin<&mut Self>, cx: &mut Context<'_>, buf: &mut ReadBuf<'_>) -> Poll<io::Result<()>> {
        let mut s = self.0.lock().unwrap();
        let slice = buf.initialize_unfilled();
        match s.do_read(slice, false) {
            ReadOutcome::Delivered(n) => {
                buf.advance(n);
                Poll::Ready(Ok(()))
            },
            ReadOutcome::Err(k) => Poll::Ready(Err(io::Error::new(k, "scripted transport error"))),
            ReadOutcome::Pending { wake } => {
                if wake {
                    cx.waker().wake_by_ref();
                } else {
                    s.stalled = true;
                }
                Poll::Pending
            },
        }
    }
}

impl AsyncWrite for Transport {
    fn poll_write(self: Pin<&mut Self>, cx: &mut Context<'_>, buf: &[u8]) -> Poll<io::Result<usize>> {
        if buf.is_empty() {
            return Poll::Ready(Ok(0));
        }
        match self.0.lock().unwrap().do_write(buf, false) {
            Ok(Poll::Ready(n)) => Poll::Ready(Ok(n)),
            Ok(Poll::Pending) => {
                cx.waker().wake_by_ref();
                Poll::Pending
            },
            Err(k) => Poll::Ready(Err(io::Error::new(k, "scripted transport error"))),
        }
    }
    fn is_write_vectored(&self) -> bool {
        self.0.lock().unwrap().vectored
    }
    fn poll_write_vectored(self: Pin<&mut Self>, cx: &mut Context<'_>, bufs: &[io::IoSlice<'_>]) -> Poll<io::Result<usize>> {
        let vectored = self.0.lock().unwrap().vectored;
        if !vectored {
            // tokio's default: the first non-empty slice
            let first = bufs.iter().find(|b| !b.is_empty()).map(|b| &**b).unwrap_or(&[]);
            return self.poll_write(cx, first);
        }
        let all: Vec<u8> = bufs.iter().flat_map(|b| b.iter().copied()).collect();
        self.poll_write(cx, &all)
    }
    fn poll_flush(self: Pin<&mut Self>, cx: &mut Context<'_>) -> Poll<io::Result<()>> {
        // the write half's readiness script also governs flushing: a scripted Pending delays a flush just as it delays a write
        let mut s = self.0.lock().unwrap();
        if matches!(s.writes.front(), Some(WriteStep::Pending)) {
            let _ = s.writes.pop_front();
            s.trace.push(Event::WritePending);
            cx.waker().wake_by_ref();
            return Poll::Pending;
        }
        Poll::Ready(Ok(()))
    }
    fn poll_shutdown(self: Pin<&mut Self>, _cx: &mut Context<'_>) -> Poll<io::Result<()>> {
        self.0.lock().unwrap().shut = true;
        Poll::Ready(Ok(()))
    }
}

/// Message-oriented adaptors (UDP: one datagram per write call, WebSocket: one binary message per write call) turn every write
/// call into one unit on the wire. So no write call may offer bytes of two frames: walk the outgoing stream by announced sizes
/// and report the first call whose buffer runs past the end of the frame it starts in.
pub fn write_call_spanning_frames(written: &[u8], offers: &[(usize, usize)], mode: &Mode) -> Option<String> {
    let mut ends = vec![];
    let mut pos = 0usize;
    while pos < written.len() {
        let a = match mode {
            Mode::Compressed => written[pos] as usize * 4,
            Mode::Uncompressed => written[pos] as usize,
        };
        if a < 4 {
            return None; // misframed output is reported by the byte-stream oracles
        }
        pos += a;
        ends.push(pos);
    }
    for (p, len) in offers {
        if *len == 0 || *p >= written.len() {
            continue; // nothing of that call is known to have left
        }
        let end = *ends.iter().find(|e| **e > *p)?;
        if p + len > end {
            return Some(format!("a write call at outgoing byte {p} offered {len} bytes, but the frame it starts in ends at byte {end}: the call carries bytes of two frames"));
        }
    }
    None
}

// ---------------------------------------------------------------------------------------
// result rendering (so that blocking and tokio results are comparable)
// ---------------------------------------------------------------------------------------

pub fn render(r: &Result<Packet, insim::Error>) -> String {
    match r {
        Ok(p) => format!("Ok({p:?})"),
        Err(insim::Error::Disconnected) => "Err(Disconnected)".into(),
        Err(insim::Error::IncompatibleVersion(v)) => format!("Err(IncompatibleVersion({v}))"),
        Err(insim::Error::Timeout(_)) => "Err(transient:TimedOut)".into(),
        Err(insim::Error::IO { kind, .. }) => {
            if *kind == io::ErrorKind::InvalidData {
                "Err(framing)".into()
            } else {
                format!("Err(transient:{kind:?})")
            }
        },
        Err(insim::Error::BinRw(_)) => "Err(decode)".into(),
        Err(e) => format!("Err(other:{e})"),
    }
}

pub struct Session {
    pub results: Vec<String>,
    pub trace: Vec<Event>,
    pub written: Vec<u8>,
    pub min_offered: usize,
    pub max_offered: usize,
    pub panic: Option<String>,
}

/// Read until `Disconnected` (or a framing error, which is terminal, or `max_reads`).
/// A call the application makes on the connection between reads (none of them may influence what reads deliver).
#[derive(Clone, Debug)]
pub enum AppOp {
    /// `handshake()` with an ISI whose version field is the given value
    Handshake(u8),
    /// `write()` of the packet this frame decodes to
    Write(Vec<u8>),
    /// `verify_version(on)`: the application switches the gate itself
    SetVerify(bool),
}

fn app_packet(op: &AppOp, mode: &Mode) -> Option<Result<insim::insim::Isi, insim::Packet>> {
    match op {
        AppOp::SetVerify(_) => None,
        AppOp::Handshake(v) => {
            let mut isi = insim::insim::Isi::default();
            isi.version = *v;
            isi.iname = "vp".into();
            Some(Ok(isi))
        },
        // one-byte pseudo frames stand for packets the encoder must refuse (see c03::seq_packet)
        AppOp::Write(f) if f.len() == 1 => crate::props::c03::seq_packet(f, mode).map(Err),
        AppOp::Write(f) => {
            let mut b = bytes::BytesMut::from(&f[..]);
            Codec::new(mode.clone()).decode(&mut b).ok().flatten().map(Err)
        },
    }
}

pub fn run_blocking(mode: &Mode, verify: bool, reads: Vec<ReadStep>, writes: Vec<WriteStep>, max_reads: usize) -> Session {
    run_blocking_app(mode, verify, reads, writes, max_reads, &[])
}

/// like run_blocking, with application calls: `(k, op)` is executed before read attempt number k
pub fn run_blocking_app(mode: &Mode, verify: bool, reads: Vec<ReadStep>, writes: Vec<WriteStep>, max_reads: usize, app: &[(usize, AppOp)]) -> Session {
    // every other write script is served by a transport that announces vectored writes
    let vectored = writes.len() % 2 == 1;
    let t = Transport::new(reads, writes).vectored(vectored);
    let mut framed = insim::net::blocking_impl::Framed::new(Box::new(t.clone()), Codec::new(mode.clone()));
    framed.verify_version(verify);
    let mut results = vec![];
    let mut panic = None;
    for attempt in 0..max_reads {
        for (_, op) in app.iter().filter(|(k, _)| *k == attempt) {
            if let AppOp::SetVerify(v) = op {
                framed.verify_version(*v);
            }
            let r = match app_packet(op, mode) {
                Some(Ok(isi)) => guard(|| framed.handshake(isi).map_err(|e| e.to_string())),
                Some(Err(p)) => guard(|| framed.write(p).map_err(|e| e.to_string())),
                None => continue,
            };
            if let Err(p) = r {
                panic = Some(p);
            }
        }
        if panic.is_some() {
            break;
        }
        let r = match guard(|| framed.read()) {
            Ok(r) => r,
            Err(p) => {
                panic = Some(p);
                break;
            },
        };
        let s = render(&r);
        t.push_event(Event::Returned(s.clone()));
        let stop = s == "Err(Disconnected)" || s == "Err(framing)";
        results.push(s);
        if stop {
            break;
        }
    }
    let sc = t.0.lock().unwrap();
    Session { results, trace: sc.trace.clone(), written: sc.written.clone(), min_offered: sc.min_offered, max_offered: sc.max_offered, panic }
}

pub fn tokio_runtime() -> tokio::runtime::Runtime {
    tokio::runtime::Builder::new_current_thread().enable_time().start_paused(true).build().expect("tokio runtime")
}

pub fn run_tokio(mode: &Mode, verify: bool, reads: Vec<ReadStep>, writes: Vec<WriteStep>, max_reads: usize) -> Session {
    run_tokio_app(mode, verify, reads, writes, max_reads, &[])
}

pub fn run_tokio_app(mode: &Mode, verify: bool, reads: Vec<ReadStep>, writes: Vec<WriteStep>, max_reads: usize, app: &[(usize, AppOp)]) -> Session {
    let vectored = writes.len() % 2 == 1;
    let t = Transport::new(reads, writes).vectored(vectored);
    let rt = tokio_runtime();
    let mut results = vec![];
    let mut panic = None;
    let t2 = t.clone();
    let mode = mode.clone();
    let mode2 = mode.clone();
    let out = guard(|| {
        rt.block_on(async {
            let mut framed = insim::net::tokio_impl::Framed::new(Box::new(t2.clone()), Codec::new(mode));
            framed.verify_version(verify);
            let mut results = vec![];
            for attempt in 0..max_reads {
                for (_, op) in app.iter().filter(|(k, _)| *k == attempt) {
                    if let AppOp::SetVerify(v) = op {
                        framed.verify_version(*v);
                    }
                    match app_packet(op, &mode2) {
                        Some(Ok(isi)) => {
                            let _ = framed.handshake(isi, std::time::Duration::from_secs(30)).await;
                        },
                        Some(Err(p)) => {
                            let _ = framed.write(p).await;
                        },
                        None => {},
                    }
                }
                let r = framed.read().await;
                let s = render(&r);
                t2.push_event(Event::Returned(s.clone()));
                let stop = s == "Err(Disconnected)" || s == "Err(framing)";
                results.push(s);
                if stop {
                    break;
                }
            }
            results
        })
    });
    match out {
        Ok(r) => results = r,
        Err(p) => panic = Some(p),
    }
    let sc = t.0.lock().unwrap();
    Session { results, trace: sc.trace.clone(), written: sc.written.clone(), min_offered: sc.min_offered, max_offered: sc.max_offered, panic }
}

/// Reference model of a session: what successive reads must return for this script.
/// `frame_result(frame)` is the codec's verdict on one complete frame in isolation.
pub fn model_results(mode: &Mode, verify: bool, reads: &[ReadStep], blocking: bool, max_reads: usize) -> Vec<String> {
    let mut buf: Vec<u8> = vec![];
    let mut steps = reads.iter();
    let mut out = vec![];
    'calls: for _ in 0..max_reads {
        loop {
            // a complete frame buffered?
            if buf.len() >= 4 {
                let a = match mode {
                    Mode::Uncompressed => buf[0] as usize,
                    Mode::Compressed => buf[0] as usize * 4,
                };
                if a < 4 {
                    out.push("Err(framing)".into());
                    break 'calls;
                }
                if buf.len() >= a {
                    let frame: Vec<u8> = buf.drain(..a).collect();
                    let mut b = bytes::BytesMut::from(&frame[..]);
                    // a fresh codec per frame: state a codec might carry between frames cannot leak into the model
                    let r = match Codec::new(mode.clone()).decode(&mut b) {
                        Ok(Some(p)) => {
                            if verify {
                                match p.maybe_verify_version_model() {
                                    Some(v) => Err(insim::Error::IncompatibleVersion(v)),
                                    None => Ok(p),
                                }
                            } else {
                                Ok(p)
                            }
                        },
                        Ok(None) => Err(insim::Error::BinRw("model: incomplete".into())),
                        Err(e) => Err(e),
                    };
                    out.push(render(&r));
                    continue 'calls;
                }
            } else if !buf.is_empty() && false {
            }
            match steps.next() {
                None => {
                    out.push("Err(Disconnected)".into());
                    break 'calls;
                },
                Some(ReadStep::Data(d)) => buf.extend_from_slice(d),
                Some(ReadStep::Err(k)) => {
                    out.push(format!("Err(transient:{k:?})"));
                    continue 'calls;
                },
                Some(ReadStep::Pending) | Some(ReadStep::RealPause(_)) => {},
                Some(ReadStep::Stall) => {
                    let _ = blocking;
                    out.push("Err(transient:TimedOut)".into());
                    continue 'calls;
                },
            }
        }
    }
    out
}

/// The version gate's reference model: VER with InSim version != 9 is rejected (value carried).
pub trait VersionModel {
    fn maybe_verify_version_model(&self) -> Option<u8>;
}
impl VersionModel for Packet {
    fn maybe_verify_version_model(&self) -> Option<u8> {
        match self {
            Packet::Ver(v) if v.insimver != 9 => Some(v.insimver),
            _ => None,
        }
    }
}
