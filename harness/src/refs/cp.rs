//! Reference codepage tables (generated from CPython's codecs by tools/gen_cp_tables.py) and a reference
//! decoder for LFS wire text. Independent of encoding_rs / the crate's marker table.

use std::collections::HashMap;
use std::sync::OnceLock;

/// marker letter -> Windows codepage, as LFS assigns them (InSim.txt, "CODEPAGES")
pub const MARKERS: [(u8, &str); 11] = [
    (b'L', "cp1252"),
    (b'G', "cp1253"),
    (b'C', "cp1251"),
    (b'E', "cp1250"),
    (b'T', "cp1254"),
    (b'B', "cp1257"),
    (b'J', "cp932"),
    (b'S', "cp936"),
    (b'K', "cp949"),
    (b'H', "cp950"),
    (b'8', "cp1252"),
];

pub struct Table {
    pub name: &'static str,
    pub dbcs: bool,
    /// (bytes, char) in file order
    pub entries: Vec<(Vec<u8>, char)>,
    pub single: [Option<char>; 256],
    pub double: HashMap<(u8, u8), char>,
    pub encode: HashMap<char, Vec<u8>>,
}

impl Table {
    /// Windows lead-byte ranges (IsDBCSLeadByteEx), not derived from the table
    pub fn is_lead(&self, b: u8) -> bool {
        match self.name {
            "cp932" => (0x81..=0x9F).contains(&b) || (0xE0..=0xFC).contains(&b),
            "cp936" | "cp949" | "cp950" => (0x81..=0xFE).contains(&b),
            _ => false,
        }
    }
}

const SOURCES: [(&str, &str); 10] = [
    ("cp1252", include_str!("../../../data/cp/cp1252.tbl")),
    ("cp1253", include_str!("../../../data/cp/cp1253.tbl")),
    ("cp1251", include_str!("../../../data/cp/cp1251.tbl")),
    ("cp1250", include_str!("../../../data/cp/cp1250.tbl")),
    ("cp1254", include_str!("../../../data/cp/cp1254.tbl")),
    ("cp1257", include_str!("../../../data/cp/cp1257.tbl")),
    ("cp932", include_str!("../../../data/cp/cp932.tbl")),
    ("cp936", include_str!("../../../data/cp/cp936.tbl")),
    ("cp949", include_str!("../../../data/cp/cp949.tbl")),
    ("cp950", include_str!("../../../data/cp/cp950.tbl")),
];

fn parse(name: &'static str, src: &str) -> Table {
    let mut t = Table {
        name,
        dbcs: matches!(name, "cp932" | "cp936" | "cp949" | "cp950"),
        entries: vec![],
        single: [None; 256],
        double: HashMap::new(),
        encode: HashMap::new(),
    };
    for line in src.lines() {
        if line.starts_with('#') || line.trim().is_empty() {
            continue;
        }
        let mut it = line.split_whitespace();
        let b = crate::engine::unhex(it.next().unwrap()).expect("table bytes");
        let c = char::from_u32(u32::from_str_radix(it.next().unwrap(), 16).unwrap()).expect("table char");
        match b.len() {
            1 => t.single[b[0] as usize] = Some(c),
            2 => {
                let _ = t.double.insert((b[0], b[1]), c);
            },
            _ => panic!("bad table line {line}"),
        }
        let _ = t.encode.entry(c).or_insert_with(|| b.clone());
        t.entries.push((b, c));
    }
    t
}

pub fn tables() -> &'static Vec<Table> {
    static T: OnceLock<Vec<Table>> = OnceLock::new();
    T.get_or_init(|| SOURCES.iter().map(|(n, s)| parse(n, s)).collect())
}

pub fn table(name: &str) -> &'static Table {
    tables().iter().find(|t| t.name == name).expect("table name")
}

pub fn table_for_marker(m: u8) -> Option<&'static Table> {
    MARKERS.iter().find(|(l, _)| *l == m).map(|(_, n)| table(n))
}

/// every character of the ten repertoires (non-ASCII), deduplicated, in a stable order
pub fn repertoire() -> &'static Vec<char> {
    static R: OnceLock<Vec<char>> = OnceLock::new();
    R.get_or_init(|| {
        let mut v: Vec<char> = tables().iter().flat_map(|t| t.entries.iter().map(|e| e.1)).collect();
        v.sort();
        v.dedup();
        v
    })
}

pub fn in_any_table(c: char) -> bool {
    c.is_ascii() || repertoire().binary_search(&c).is_ok()
}

/// Reference decoder. `None` = the input contains bytes the reference tables do not define
/// (then the reference is silent, not wrong).
pub fn ref_decode(input: &[u8]) -> Option<String> {
    ref_decode_opt(input, false)
}

/// like `ref_decode`, but also silent (None) when the input holds a caret that starts neither a codepage marker, a colour
/// (`^0`..`^9`) nor an escaped caret: such text is ambiguous on the way back
pub fn ref_decode_strict(input: &[u8]) -> Option<String> {
    ref_decode_opt(input, true)
}

fn ref_decode_opt(input: &[u8], strict: bool) -> Option<String> {
    let mut cur = table("cp1252");
    let mut out = String::new();
    let mut i = 0;
    while i < input.len() {
        let b = input[i];
        if b == b'^' && i + 1 < input.len() {
            let n = input[i + 1];
            if n == b'^' {
                out.push_str("^^");
                i += 2;
                continue;
            }
            if let Some(t) = table_for_marker(n) {
                if n == b'8' {
                    out.push_str("^8");
                }
                cur = t;
                i += 2;
                continue;
            }
            if strict && !n.is_ascii_digit() {
                return None;
            }
            out.push('^');
            i += 1;
            continue;
        }
        if strict && b == b'^' {
            return None; // a caret as the very last byte
        }
        if b < 0x80 {
            out.push(b as char);
            i += 1;
            continue;
        }
        if cur.dbcs && cur.is_lead(b) {
            if i + 1 >= input.len() {
                return None;
            }
            match cur.double.get(&(b, input[i + 1])) {
                Some(c) => out.push(*c),
                None => return None,
            }
            i += 2;
            continue;
        }
        match cur.single[b as usize] {
            Some(c) => out.push(c),
            None => return None,
        }
        i += 1;
    }
    Some(out)
}
