//! Judging decoded packets against a reference instance, and encoder output against the reference image.

use bytes::BytesMut;
use insim::insim::{Small, SmallType};
use insim::net::{Codec, Mode};
use insim::Packet;

use super::cp::ref_decode;
use super::dbgtree::{self, Node};
use super::image::{generic_path, Inst, Want};
use super::spec::Tag;
use crate::engine::{guard, hex, Fail};

pub fn mode_name(m: &Mode) -> &'static str {
    match m {
        Mode::Compressed => "compressed",
        Mode::Uncompressed => "uncompressed",
    }
}

pub fn mode_from(s: &str) -> Mode {
    if s.starts_with('u') {
        Mode::Uncompressed
    } else {
        Mode::Compressed
    }
}

/// decode exactly one frame; Err(description) on error / panic / leftover
pub fn decode_one(img: &[u8], mode: &Mode) -> Result<Packet, String> {
    let codec = Codec::new(mode.clone());
    let mut buf = BytesMut::from(img);
    match guard(|| codec.decode(&mut buf)) {
        Err(p) => Err(format!("decoder panicked: {p}")),
        Ok(Err(e)) => Err(format!("decoder error: {e}")),
        Ok(Ok(None)) => Err("decoder wants more data for a complete frame".into()),
        Ok(Ok(Some(p))) => {
            if !buf.is_empty() {
                return Err(format!("decoder left {} of {} bytes unconsumed", buf.len(), img.len()));
            }
            Ok(p)
        },
    }
}

pub fn encode_one(p: &Packet, mode: &Mode) -> Result<Vec<u8>, String> {
    let codec = Codec::new(mode.clone());
    match guard(|| codec.encode(p)) {
        Err(m) => Err(format!("encoder panicked: {m}")),
        Ok(Err(e)) => Err(format!("encoder error: {e}")),
        Ok(Ok(b)) => Ok(b.to_vec()),
    }
}

pub fn small_bits(p: &Packet) -> Option<u32> {
    match p {
        Packet::Small(Small { subt: SmallType::Lcs(f), .. }) => Some(f.bits()),
        Packet::Small(Small { subt: SmallType::Lcl(f), .. }) => Some(f.bits()),
        _ => None,
    }
}

fn set_items(n: &Node) -> Option<Vec<String>> {
    match n {
        Node::Set(v) | Node::List(v) => Some(v.iter().map(|x| x.text()).collect()),
        _ => None,
    }
}

/// Compare every expectation of `inst` with the decoded packet. `sure_only`: skip ?unit / ?opaque fields.
pub fn check_decoded(inst: &Inst, pkt: &Packet, prefix: &str) -> Result<(), Fail> {
    let dbg = format!("{pkt:?}");
    let tree = dbgtree::parse(&dbg).map_err(|e| Fail::new("harness:debug-parse", format!("{e}: {dbg}")))?;
    if tree.head() != inst.variant {
        return Err(Fail::new(
            format!("{prefix}:type-number:{}", inst.variant),
            format!("type byte {} should be {}, decoded as {}", inst.ty, inst.variant, tree.head()),
        ));
    }
    for e in &inst.expects {
        if e.tag == Tag::Opaque {
            continue;
        }
        let sig = || format!("{prefix}:decode:{}.{}", inst.variant, generic_path(&e.path));
        let node = match tree.get(&e.path) {
            Some(n) => n,
            None => {
                // a missing element of a counted list is a count problem, anything else means the table is out of date
                if e.path.contains('[') {
                    return Err(Fail::new(sig(), format!("no value at {} in {dbg}", e.path)));
                }
                return Err(Fail::new("harness:path-missing", format!("spec path {} not found in {dbg}", e.path)));
            },
        };
        match &e.want {
            Want::Text(t) => {
                let got = node.text();
                if got != *t {
                    return Err(Fail::new(sig(), format!("{}.{} decodes to {got}, specification says {t} (frame {})", inst.variant, e.path, hex(&inst.image))));
                }
            },
            Want::Flags { ty, names } => {
                let got = match node {
                    Node::Tuple(n, items) if n == ty && items.len() == 1 => items[0].text(),
                    other => return Err(Fail::new("harness:flags-shape", format!("{} renders as {}", e.path, other.text()))),
                };
                let mut got_names: Vec<String> = if got == "0x0" { vec![] } else { got.split(" | ").map(|s| s.to_string()).collect() };
                let mut want = names.clone();
                got_names.sort();
                want.sort();
                if got_names != want {
                    return Err(Fail::new(sig(), format!("{}.{} decodes to {{{}}}, specification bits say {{{}}} (frame {})", inst.variant, e.path, got_names.join(" "), want.join(" "), hex(&inst.image))));
                }
            },
            Want::Seq(items) => {
                let got = set_items(node).ok_or_else(|| Fail::new("harness:set-shape", format!("{} renders as {}", e.path, node.text())))?;
                if got != *items {
                    return Err(Fail::new(sig(), format!("{}.{} decodes to {got:?}, expected {items:?}", inst.variant, e.path)));
                }
            },
            Want::Set(items) => {
                let mut got = set_items(node).ok_or_else(|| Fail::new("harness:set-shape", format!("{} renders as {}", e.path, node.text())))?;
                let mut want = items.clone();
                got.sort();
                want.sort();
                if got != want {
                    return Err(Fail::new(sig(), format!("{}.{} decodes to {got:?}, specification bits say {want:?} (frame {})", inst.variant, e.path, hex(&inst.image))));
                }
            },
            Want::SmallBits(v) => {
                let got = small_bits(pkt).ok_or_else(|| Fail::new(sig(), format!("{dbg} is not an LCS/LCL small")))?;
                if got != *v {
                    return Err(Fail::new(sig(), format!("{}.{}: flag word {v:#x} decodes to bits {got:#x} ({})", inst.variant, e.path, node.text())));
                }
            },
            Want::Len(n) => {
                let got = set_items(node).map(|v| v.len());
                if got != Some(*n) {
                    return Err(Fail::new(sig(), format!("{}.{} has {got:?} elements, count byte says {n}", inst.variant, e.path)));
                }
            },
        }
    }
    Ok(())
}

/// Compare encoder output with the reference image. Non-ASCII text ranges are compared through the
/// reference codepage decoder (the encoder is free to choose among equivalent marker sequences).
pub fn check_encoded(inst: &Inst, out: &[u8], prefix: &str) -> Result<(), Fail> {
    let img = &inst.image;
    let diff_sig = |off: usize| format!("{prefix}:encode:{}.{}", inst.variant, generic_path(&inst.field_at(off)));
    if out.len() != img.len() {
        let off = out.len().min(img.len());
        return Err(Fail::new(
            format!("{prefix}:encode-length:{}", inst.variant),
            format!("{}: encoder produced {} bytes, specification layout has {} (first difference in field {}): {} vs {}", inst.variant, out.len(), img.len(), inst.field_at(first_diff(out, img).unwrap_or(off)), hex(out), hex(img)),
        ));
    }
    let mut skip = vec![false; img.len()];
    for t in &inst.texts {
        if !t.ascii {
            let end = t.end.min(img.len());
            for s in skip.iter_mut().take(end).skip(t.start) {
                *s = true;
            }
            let field = &out[t.start..end];
            let nul = field.iter().position(|b| *b == 0).unwrap_or(field.len());
            if field[nul..].iter().any(|b| *b != 0) {
                return Err(Fail::new(diff_sig(t.start), format!("{}: text field has bytes after its NUL: {}", inst.variant, hex(field))));
            }
            match ref_decode(&field[..nul]) {
                Some(s) if s == t.text => {},
                // the reference tables do not define some byte the encoder chose: the reference is silent
                None => {},
                other => {
                    // The encoder is free to pick other markers than the reference image did; if its own rendering of
                    // the text does not fit the field, truncation is the documented (lossy) outcome, not a layout error.
                    let own = insim_core::string::codepages::to_lossy_bytes(&t.text);
                    if own.len() > field.len() && field[..] == own[..field.len()] {
                        continue;
                    }
                    return Err(Fail::new(diff_sig(t.start), format!("{}: text field {} reads as {other:?} in the LFS codepages, expected {:?}", inst.variant, hex(field), t.text)));
                },
            }
        }
    }
    for i in 0..img.len() {
        if !skip[i] && out[i] != img[i] {
            return Err(Fail::new(
                diff_sig(i),
                format!("{}: byte {i} (field {}) is {:#04x}, specification layout says {:#04x}: encoder {} vs reference {}", inst.variant, inst.field_at(i), out[i], img[i], hex(out), hex(img)),
            ));
        }
    }
    Ok(())
}

pub fn first_diff(a: &[u8], b: &[u8]) -> Option<usize> {
    a.iter().zip(b.iter()).position(|(x, y)| x != y)
}
