pub mod cp;
pub mod dbgtree;
pub mod spec;
pub mod image;
pub mod compare;
pub mod build;
