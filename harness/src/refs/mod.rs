pub mod cp;
