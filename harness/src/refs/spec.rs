//! Parser and data model for spec/insim9.spec (the hand transcription of InSim.txt v9 + InSim-Relay).

use std::collections::BTreeMap;
use std::sync::OnceLock;

#[derive(Debug, Clone, PartialEq)]
pub enum Tag {
    Sure,
    Unit,
    Opaque,
}

#[derive(Debug, Clone)]
pub enum Kind {
    Id(String),
    U8 { max: Option<u8> },
    U16,
    U32,
    I16,
    I32,
    F32,
    Bool,
    Char,
    Zero { len: usize },
    Enum(String),
    Bits(String),
    Dur { bytes: usize, scale: u64 },
    Str { len: usize, raw: bool, nulterm: bool },
    StrVar { max: usize, nulterm: bool },
    Vehicle,
    Track,
    RaceLaps,
    Fuel,
    GameVer,
    Ipv4,
    /// one byte, two 4-bit values: (high path, low path)
    Nib { lo_path: String },
    /// one byte, high nibble is the value, low nibble spare
    NibHi,
    U12,
    Array { n: usize, stride: usize, fields: Vec<Field> },
    Struct { fields: Vec<Field> },
    Counted { count_at: usize, stride: usize, max: usize, padto4: bool, fields: Vec<Field> },
    Small,
    Cim,
    MsoText { max: usize },
    CarSet,
    ModSet { count_at: usize, max: usize },
    IpSet { count_at: usize, max: usize },
}

#[derive(Debug, Clone)]
pub struct Field {
    pub kind: Kind,
    /// path of the value in the crate's Debug rendering ("." = the enclosing element itself)
    pub path: String,
    pub off: usize,
    pub tag: Tag,
}

#[derive(Debug, Clone)]
pub struct PacketSpec {
    pub name: String,
    pub ty: u8,
    pub variant: String,
    pub min: usize,
    pub max: usize,
    pub fields: Vec<Field>,
}

#[derive(Debug, Default)]
pub struct Spec {
    /// enum name -> (variant, value)
    pub enums: BTreeMap<String, Vec<(String, u8)>>,
    /// flags name -> (width bits, (NAME, bit))
    pub flags: BTreeMap<String, (u32, Vec<(String, u32)>)>,
    pub packets: Vec<PacketSpec>,
}

impl Kind {
    /// width in bytes of a fixed-width kind (None for variable kinds)
    pub fn width(&self) -> Option<usize> {
        Some(match self {
            Kind::Id(_) | Kind::U8 { .. } | Kind::Bool | Kind::Char | Kind::Enum(_) | Kind::RaceLaps | Kind::Fuel => 1,
            Kind::Nib { .. } | Kind::NibHi => 1,
            Kind::U16 | Kind::I16 | Kind::U12 => 2,
            Kind::U32 | Kind::I32 | Kind::F32 | Kind::Vehicle | Kind::Ipv4 | Kind::CarSet => 4,
            Kind::Track => 6,
            Kind::GameVer => 8,
            Kind::Zero { len } => *len,
            Kind::Dur { bytes, .. } => *bytes,
            Kind::Str { len, .. } => *len,
            Kind::Array { n, stride, .. } => n * stride,
            Kind::Struct { fields } => fields.iter().map(|f| f.off + f.kind.width().unwrap_or(0)).max().unwrap_or(0),
            Kind::Small => 5,
            Kind::Cim => 3,
            Kind::Bits(_) => return None, // needs the flags table; handled by Spec::width
            Kind::StrVar { .. } | Kind::Counted { .. } | Kind::MsoText { .. } | Kind::ModSet { .. } | Kind::IpSet { .. } => return None,
        })
    }
}

impl Spec {
    pub fn width(&self, k: &Kind) -> Option<usize> {
        match k {
            Kind::Bits(n) => Some(self.flags[n].0 as usize / 8),
            Kind::Struct { fields } => {
                let mut m = 0;
                for f in fields {
                    m = m.max(f.off + self.width(&f.kind)?);
                }
                Some(m)
            },
            other => other.width(),
        }
    }

    pub fn packet(&self, variant: &str) -> Option<&PacketSpec> {
        self.packets.iter().find(|p| p.variant == variant)
    }

    pub fn packet_by_type(&self, ty: u8) -> Option<&PacketSpec> {
        self.packets.iter().find(|p| p.ty == ty)
    }
}

fn kv<'a>(toks: &[&'a str], key: &str) -> Option<&'a str> {
    toks.iter().find_map(|t| t.strip_prefix(key).and_then(|r| r.strip_prefix('=')))
}

fn parse_off(tok: &str) -> Result<(usize, Option<usize>), String> {
    let t = tok.strip_prefix('@').ok_or_else(|| format!("expected @offset, got {tok}"))?;
    if let Some((a, b)) = t.split_once("..") {
        Ok((a.parse().map_err(|_| format!("bad offset {tok}"))?, Some(b.parse().map_err(|_| format!("bad offset {tok}"))?)))
    } else {
        Ok((t.parse().map_err(|_| format!("bad offset {tok}"))?, None))
    }
}

struct Lines<'a> {
    lines: Vec<(usize, &'a str)>,
    i: usize,
}

fn parse_fields(ls: &mut Lines, spec: &Spec) -> Result<Vec<Field>, String> {
    let mut out = vec![];
    while ls.i < ls.lines.len() {
        let (no, raw) = ls.lines[ls.i];
        let line = raw.trim();
        if line == "}" {
            ls.i += 1;
            return Ok(out);
        }
        // top-level declarations are not indented
        if raw.starts_with("packet ") || raw.starts_with("enum ") || raw.starts_with("flags ") {
            return Ok(out);
        }
        ls.i += 1;
        let toks: Vec<&str> = line.split_whitespace().collect();
        let err = |m: &str| format!("spec line {no}: {m}: {line}");
        let tag = if toks.contains(&"?unit") {
            Tag::Unit
        } else if toks.contains(&"?opaque") {
            Tag::Opaque
        } else {
            Tag::Sure
        };
        let kind_tok = toks[0];
        if kind_tok == "zero" {
            let (a, b) = parse_off(toks[1]).map_err(|e| err(&e))?;
            out.push(Field { kind: Kind::Zero { len: b.map(|b| b - a).unwrap_or(1) }, path: String::new(), off: a, tag });
            continue;
        }
        if kind_tok == "nib" {
            // nib <hi> <lo> @off
            let (a, _) = parse_off(toks[3]).map_err(|e| err(&e))?;
            out.push(Field { kind: Kind::Nib { lo_path: toks[2].to_string() }, path: toks[1].to_string(), off: a, tag });
            continue;
        }
        let path = toks.get(1).ok_or_else(|| err("missing path"))?.to_string();
        // offset token is the first one starting with '@' (count@N is separate)
        let off_tok = toks.iter().find(|t| t.starts_with('@')).ok_or_else(|| err("missing @offset"))?;
        let (off, _) = parse_off(off_tok).map_err(|e| err(&e))?;
        let after_off: Vec<&str> = toks.iter().skip_while(|t| !t.starts_with('@')).skip(1).copied().collect();
        let num = |k: &str| -> Result<usize, String> { kv(&toks, k).ok_or_else(|| err(&format!("missing {k}=")))?.parse().map_err(|_| err(&format!("bad {k}="))) };
        let count_at = || -> Result<usize, String> {
            toks.iter()
                .find_map(|t| t.strip_prefix("count@"))
                .ok_or_else(|| err("missing count@"))?
                .parse()
                .map_err(|_| err("bad count@"))
        };
        let opens_block = toks.last() == Some(&"{");
        let kind = match kind_tok {
            "id" => Kind::Id(after_off.first().ok_or_else(|| err("id needs a tuple name"))?.to_string()),
            "u8" => Kind::U8 { max: kv(&toks, "max").map(|m| m.parse().unwrap()) },
            "u16" => Kind::U16,
            "u32" => Kind::U32,
            "i16" => Kind::I16,
            "i32" => Kind::I32,
            "f32" => Kind::F32,
            "bool" => Kind::Bool,
            "char" => Kind::Char,
            "enum" => {
                let n = after_off.first().ok_or_else(|| err("enum needs a name"))?.to_string();
                if !spec.enums.contains_key(&n) {
                    return Err(err("unknown enum"));
                }
                Kind::Enum(n)
            },
            "bits" => {
                let n = after_off.first().ok_or_else(|| err("bits needs a name"))?.to_string();
                if !spec.flags.contains_key(&n) {
                    return Err(err("unknown flags"));
                }
                Kind::Bits(n)
            },
            "dur16" => Kind::Dur { bytes: 2, scale: num("scale")? as u64 },
            "dur32" => Kind::Dur { bytes: 4, scale: num("scale")? as u64 },
            "str" => Kind::Str { len: num("len")?, raw: false, nulterm: toks.contains(&"nulterm") },
            "strraw" => Kind::Str { len: num("len")?, raw: true, nulterm: false },
            "strvar" => Kind::StrVar { max: num("max")?, nulterm: toks.contains(&"nulterm") },
            "vehicle" => Kind::Vehicle,
            "track" => Kind::Track,
            "racelaps" => Kind::RaceLaps,
            "fuel" => Kind::Fuel,
            "gamever" => Kind::GameVer,
            "ipv4" => Kind::Ipv4,
            "nibhi" => Kind::NibHi,
            "u12" => Kind::U12,
            "small" => Kind::Small,
            "cim" => Kind::Cim,
            "msotext" => Kind::MsoText { max: num("max")? },
            "carset" => Kind::CarSet,
            "modset" => Kind::ModSet { count_at: count_at()?, max: num("max")? },
            "ipset" => Kind::IpSet { count_at: count_at()?, max: num("max")? },
            "array" => {
                if !opens_block {
                    return Err(err("array needs a { block"));
                }
                let fields = parse_fields(ls, spec)?;
                Kind::Array { n: num("n")?, stride: num("stride")?, fields }
            },
            "struct" => {
                if !opens_block {
                    return Err(err("struct needs a { block"));
                }
                Kind::Struct { fields: parse_fields(ls, spec)? }
            },
            "counted" => {
                if !opens_block {
                    return Err(err("counted needs a { block"));
                }
                let fields = parse_fields(ls, spec)?;
                Kind::Counted { count_at: count_at()?, stride: num("stride")?, max: num("max")?, padto4: toks.contains(&"padto4"), fields }
            },
            other => return Err(err(&format!("unknown field kind {other}"))),
        };
        out.push(Field { kind, path, off, tag });
    }
    Ok(out)
}

/// transcription checksum: fields of a fixed block must tile [start, size) exactly, without gaps or overlaps
fn check_tiling(spec: &Spec, what: &str, fields: &[Field], start: usize, size: usize, extra_covered: &[usize]) -> Result<(), String> {
    let mut covered = vec![false; size];
    for e in extra_covered {
        if *e < size {
            covered[*e] = true;
        }
    }
    for f in fields {
        let Some(w) = spec.width(&f.kind) else { continue };
        for b in f.off..f.off + w {
            if b >= size {
                return Err(format!("{what}: field {} @{} width {w} exceeds size {size}", f.path, f.off));
            }
            if b < start {
                return Err(format!("{what}: field {} @{} overlaps the header", f.path, f.off));
            }
            if covered[b] {
                return Err(format!("{what}: byte {b} covered twice (field {})", f.path));
            }
            covered[b] = true;
        }
    }
    for (b, c) in covered.iter().enumerate().skip(start) {
        if !c {
            return Err(format!("{what}: byte {b} not covered by any field"));
        }
    }
    Ok(())
}

pub fn parse(src: &str) -> Result<Spec, String> {
    let mut spec = Spec::default();
    let lines: Vec<(usize, &str)> = src
        .lines()
        .enumerate()
        .map(|(i, l)| (i + 1, l))
        .filter(|(_, l)| !l.trim().is_empty() && !l.trim_start().starts_with('#'))
        .collect();
    let mut ls = Lines { lines, i: 0 };
    while ls.i < ls.lines.len() {
        let (no, raw) = ls.lines[ls.i];
        let line = raw.trim();
        let toks: Vec<&str> = line.split_whitespace().collect();
        match toks[0] {
            "enum" => {
                ls.i += 1;
                let name = toks[1].to_string();
                let mut v = vec![];
                for t in &toks[3..toks.len() - 1] {
                    let (n, val) = t.split_once('=').ok_or_else(|| format!("spec line {no}: bad enumerant {t}"))?;
                    v.push((n.to_string(), val.parse::<u8>().map_err(|_| format!("spec line {no}: bad value {t}"))?));
                }
                let _ = spec.enums.insert(name, v);
            },
            "flags" => {
                ls.i += 1;
                let name = toks[1].to_string();
                let width: u32 = toks[2].parse().map_err(|_| format!("spec line {no}: bad width"))?;
                let mut v = vec![];
                for t in &toks[4..toks.len() - 1] {
                    let (n, val) = t.split_once('=').ok_or_else(|| format!("spec line {no}: bad flag {t}"))?;
                    let bit: u32 = val.parse().map_err(|_| format!("spec line {no}: bad bit {t}"))?;
                    if bit >= width {
                        return Err(format!("spec line {no}: bit {bit} outside {width}-bit word"));
                    }
                    v.push((n.to_string(), bit));
                }
                let _ = spec.flags.insert(name, (width, v));
            },
            "packet" => {
                ls.i += 1;
                let name = toks[1].to_string();
                let ty: u8 = toks[2].parse().map_err(|_| format!("spec line {no}: bad type number"))?;
                let variant = toks[3].to_string();
                let size = kv(&toks, "size").ok_or_else(|| format!("spec line {no}: missing size="))?;
                let (min, max) = match size.split_once("..") {
                    Some((a, b)) => (a.parse().unwrap(), b.parse().unwrap()),
                    None => {
                        let s: usize = size.parse().unwrap();
                        (s, s)
                    },
                };
                let fields = parse_fields(&mut ls, &spec)?;
                let p = PacketSpec { name, ty, variant, min, max, fields };
                // checksum of the transcription
                if p.min % 4 != 0 || p.max % 4 != 0 {
                    return Err(format!("packet {}: size not a multiple of 4", p.name));
                }
                let variable = p.fields.iter().any(|f| spec.width(&f.kind).is_none());
                if !variable {
                    check_tiling(&spec, &p.name, &p.fields, 2, p.min, &[])?;
                } else {
                    // fixed part must tile [2, start of the variable field) with the count byte accounted for
                    let var = p.fields.iter().find(|f| spec.width(&f.kind).is_none()).unwrap();
                    let count_at = match &var.kind {
                        Kind::Counted { count_at, .. } | Kind::ModSet { count_at, .. } | Kind::IpSet { count_at, .. } => vec![*count_at],
                        _ => vec![],
                    };
                    let fixed: Vec<Field> = p.fields.iter().filter(|f| spec.width(&f.kind).is_some()).cloned().collect();
                    check_tiling(&spec, &p.name, &fixed, 2, var.off, &count_at)?;
                    if let Kind::Counted { stride, max, fields, padto4, .. } = &var.kind {
                        check_tiling(&spec, &format!("{} element", p.name), fields, 0, *stride, &[])?;
                        let mut full = var.off + stride * max;
                        if *padto4 {
                            full = (full + 3) & !3;
                        }
                        if full != p.max {
                            return Err(format!("packet {}: max size {} != {}", p.name, p.max, full));
                        }
                    }
                }
                for f in &p.fields {
                    match &f.kind {
                        Kind::Array { stride, fields, .. } => check_tiling(&spec, &format!("{} {} element", p.name, f.path), fields, 0, *stride, &[])?,
                        Kind::Struct { fields } => {
                            let w = spec.width(&f.kind).unwrap();
                            check_tiling(&spec, &format!("{} {}", p.name, f.path), fields, 0, w, &[])?
                        },
                        _ => {},
                    }
                }
                spec.packets.push(p);
            },
            other => return Err(format!("spec line {no}: unexpected {other}")),
        }
    }
    Ok(spec)
}

pub fn spec() -> &'static Spec {
    static S: OnceLock<Spec> = OnceLock::new();
    S.get_or_init(|| match parse(include_str!("../../../spec/insim9.spec")) {
        Ok(s) => s,
        Err(e) => {
            eprintln!("HARNESS ERROR: spec/insim9.spec: {e}");
            std::process::exit(2);
        },
    })
}

/// The spec table must know every packet kind of the tree under test (and vice versa), with the same
/// *variant names*; type numbers are deliberately not compared here (that is C02's job).
pub fn coverage_problem() -> Option<String> {
    let s = spec();
    for (v, _) in crate::generated::PACKET_KINDS {
        if s.packet(v).is_none() {
            return Some(format!("spec table does not cover packet kind {v} of /repo"));
        }
    }
    for p in &s.packets {
        if !crate::generated::PACKET_KINDS.iter().any(|(v, _)| *v == p.variant) {
            return Some(format!("/repo has no packet kind {} that the spec table describes", p.variant));
        }
    }
    None
}
