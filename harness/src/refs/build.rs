//! Route 2: typed packets built by hand through the public fields / constructors, for values that
//! decoding cannot produce (over-long texts, counts beyond the protocol maximum, durations with a
//! sub-resolution part or beyond range) and for the hand-written codecs.

use std::net::Ipv4Addr;
use std::time::Duration;

use insim::identifiers::{ClickId, ConnectionId, PlayerId, RequestId};
use insim::insim::*;
use insim::relay::{Hos, HostInfo, HostInfoFlags, Sel};
use insim::Packet;
use insim_core::vehicle::Vehicle;

use super::image::Tape;

/// every text-bearing field: (packet variant, path)
pub const TEXT_FIELDS: &[(&str, &str)] = &[
    ("Isi", "admin"),
    ("Isi", "iname"),
    ("Ver", "product"),
    ("Ism", "hname"),
    ("Mso", "msg"),
    ("Iii", "msg"),
    ("Mst", "msg"),
    ("Mtc", "text"),
    ("Ncn", "uname"),
    ("Ncn", "pname"),
    ("Cpr", "pname"),
    ("Cpr", "plate"),
    ("Npl", "pname"),
    ("Npl", "plate"),
    ("Npl", "sname"),
    ("Res", "uname"),
    ("Res", "pname"),
    ("Res", "plate"),
    ("Msx", "msg"),
    ("Msl", "msg"),
    ("Axi", "lname"),
    ("Btn", "text"),
    ("Btt", "text"),
    ("Rip", "rname"),
    ("Ssh", "name"),
    ("Acr", "text"),
    ("RelayHos", "hinfo[0].hname"),
    ("RelaySel", "hname"),
    ("RelaySel", "admin"),
    ("RelaySel", "spec"),
];

pub fn text_packet(variant: &str, path: &str, text: &str, reqi: u8) -> Option<Packet> {
    let t = text.to_string();
    let r = RequestId(reqi);
    Some(match (variant, path) {
        ("Isi", "admin") => Packet::Isi(Isi { reqi: r, admin: t, ..Default::default() }),
        ("Isi", "iname") => Packet::Isi(Isi { reqi: r, iname: t, ..Default::default() }),
        ("Ver", "product") => Packet::Ver(Ver { reqi: r, product: t, ..Default::default() }),
        ("Ism", "hname") => Packet::Ism(Ism { reqi: r, hname: t, ..Default::default() }),
        ("Mso", "msg") => Packet::Mso(Mso { reqi: r, msg: t, ucid: ConnectionId(3), ..Default::default() }),
        ("Iii", "msg") => Packet::Iii(Iii { reqi: r, msg: t, plid: PlayerId(4), ..Default::default() }),
        ("Mst", "msg") => Packet::Mst(Mst { reqi: r, msg: t }),
        ("Mtc", "text") => Packet::Mtc(Mtc { reqi: r, text: t, ucid: ConnectionId(255), ..Default::default() }),
        ("Ncn", "uname") => Packet::Ncn(Ncn { reqi: r, uname: t, total: 5, ..Default::default() }),
        ("Ncn", "pname") => Packet::Ncn(Ncn { reqi: r, pname: t, admin: true, ..Default::default() }),
        ("Cpr", "pname") => Packet::Cpr(Cpr { reqi: r, pname: t, ..Default::default() }),
        ("Cpr", "plate") => Packet::Cpr(Cpr { reqi: r, plate: t, ..Default::default() }),
        ("Npl", "pname") => Packet::Npl(Npl { reqi: r, pname: t, nump: 7, ..Default::default() }),
        ("Npl", "plate") => Packet::Npl(Npl { reqi: r, plate: t, cname: Vehicle::Fbm, ..Default::default() }),
        ("Npl", "sname") => Packet::Npl(Npl { reqi: r, sname: t, ..Default::default() }),
        ("Res", "uname") => Packet::Res(Res { reqi: r, uname: t, ..Default::default() }),
        ("Res", "pname") => Packet::Res(Res { reqi: r, pname: t, ..Default::default() }),
        ("Res", "plate") => Packet::Res(Res { reqi: r, plate: t, pseconds: 513, ..Default::default() }),
        ("Msx", "msg") => Packet::Msx(Msx { reqi: r, msg: t }),
        ("Msl", "msg") => Packet::Msl(Msl { reqi: r, msg: t, sound: SoundType::Error }),
        ("Axi", "lname") => Packet::Axi(Axi { reqi: r, lname: t, numo: 300, ..Default::default() }),
        ("Btn", "text") => Packet::Btn(Btn { reqi: r, text: t, clickid: ClickId(9), w: 20, h: 5, ..Default::default() }),
        ("Btt", "text") => Packet::Btt(Btt { reqi: r, text: t, typein: 12, ..Default::default() }),
        ("Rip", "rname") => Packet::Rip(Rip { reqi: r, rname: t, paused: true, ..Default::default() }),
        ("Ssh", "name") => Packet::Ssh(Ssh { reqi: r, name: t, ..Default::default() }),
        ("Acr", "text") => Packet::Acr(Acr { reqi: r, text: t, admin: true, ..Default::default() }),
        ("RelayHos", "hinfo[0].hname") => Packet::RelayHos(Hos { reqi: r, hinfo: vec![HostInfo { hname: t, numconns: 3, ..Default::default() }] }),
        ("RelaySel", "hname") => Packet::RelaySel(Sel { reqi: r, hname: t, ..Default::default() }),
        ("RelaySel", "admin") => Packet::RelaySel(Sel { reqi: r, admin: t, ..Default::default() }),
        ("RelaySel", "spec") => Packet::RelaySel(Sel { reqi: r, spec: t, ..Default::default() }),
        _ => return None,
    })
}

/// the packet kinds that carry a counted collection
pub const COUNTED: &[&str] = &["Nlp", "Mci", "Axm", "Plh", "Mal", "Ipb", "RelayHos"];

/// (header length, element size, count byte offset, protocol maximum, +2 pad when odd)
pub fn counted_layout(variant: &str) -> (usize, usize, usize, usize, bool) {
    match variant {
        "Nlp" => (4, 6, 3, 40, true),
        "Mci" => (4, 28, 3, 16, false),
        "Axm" => (8, 8, 3, 60, false),
        "Plh" => (4, 4, 3, 40, false),
        "Mal" => (8, 4, 3, 120, false),
        "Ipb" => (8, 4, 3, 120, false),
        "RelayHos" => (4, 40, 3, 6, false),
        _ => unreachable!(),
    }
}

pub fn counted_packet(variant: &str, n: usize, t: &mut Tape) -> Option<Packet> {
    let r = RequestId(t.u8());
    Some(match variant {
        "Nlp" => Packet::Nlp(Nlp {
            reqi: r,
            info: (0..n).map(|i| NodeLapInfo { node: t.u16(), lap: t.u16(), plid: PlayerId(i as u8), position: t.u8() }).collect(),
        }),
        "Mci" => Packet::Mci(Mci {
            reqi: r,
            info: (0..n)
                .map(|i| CompCar {
                    node: t.u16(),
                    lap: t.u16(),
                    plid: PlayerId(i as u8),
                    position: t.u8(),
                    info: CompCarInfo::from_bits_truncate(t.u8()),
                    xyz: insim_core::point::Point { x: t.u32() as i32, y: t.u32() as i32, z: t.u32() as i32 },
                    speed: t.u16(),
                    direction: t.u16(),
                    heading: t.u16(),
                    angvel: t.u16() as i16,
                })
                .collect(),
        }),
        "Axm" => Packet::Axm(Axm {
            reqi: r,
            ucid: ConnectionId(t.u8()),
            pmoaction: PmoAction::AddObjects,
            pmoflags: PmoFlags::from_bits_truncate(t.u8() as _),
            info: (0..n).map(|_| ObjectInfo { x: t.u16() as i16, y: t.u16() as i16, z: t.u8(), flags: t.u8(), index: t.u8(), heading: t.u8() }).collect(),
        }),
        "Plh" => Packet::Plh(Plh {
            reqi: r,
            hcaps: (0..n)
                .map(|i| PlayerHandicap { plid: PlayerId(i as u8), h_mass: t.u8() % 201, h_tres: t.u8() % 51, ..Default::default() })
                .collect(),
        }),
        "Mal" => {
            let mut m = Mal::default();
            m.reqi = r;
            m.ucid = ConnectionId(t.u8());
            for i in 0..n {
                let id = 0x0100_0000u32 | ((t.u16() as u32) << 8) | (i as u32 & 0xff) | ((i as u32 >> 8) << 28);
                let _ = m.insert(Vehicle::Mod(id));
            }
            Packet::Mal(m)
        },
        "Ipb" => {
            let mut b = Ipb::default();
            b.reqi = r;
            for i in 0..n {
                let id = 0x0a00_0000u32 | ((t.u16() as u32) << 8) | (i as u32 & 0xff) | ((i as u32 >> 8) << 28);
                let _ = b.insert(Ipv4Addr::from(id));
            }
            Packet::Ipb(b)
        },
        "RelayHos" => Packet::RelayHos(Hos {
            reqi: r,
            hinfo: (0..n)
                .map(|i| HostInfo {
                    hname: format!("host {i}"),
                    track: crate::generated::track_by_variant(crate::generated::TRACK_VARIANTS[t.below(crate::generated::TRACK_VARIANTS.len())]).unwrap(),
                    flags: HostInfoFlags::from_bits_truncate(t.u8()),
                    numconns: t.u8(),
                })
                .collect(),
        }),
        _ => return None,
    })
}

/// number of elements in a counted packet (through the public API)
pub fn counted_len(p: &Packet) -> Option<usize> {
    Some(match p {
        Packet::Nlp(x) => x.info.len(),
        Packet::Mci(x) => x.info.len(),
        Packet::Axm(x) => x.info.len(),
        Packet::Plh(x) => x.hcaps.len(),
        Packet::Mal(x) => x.len(),
        Packet::Ipb(x) => x.len(),
        Packet::RelayHos(x) => x.hinfo.len(),
        _ => return None,
    })
}

/// every duration-typed field: (variant, path, wire width in bytes, scale in ms, offset in the frame)
pub const DURATION_FIELDS: &[(&str, &str, usize, u64, usize)] = &[
    ("Isi", "interval", 2, 1, 10),
    ("Cpp", "time", 2, 1, 28),
    ("Con", "time", 2, 10, 6),
    ("Obh", "time", 2, 10, 6),
    ("Hlv", "time", 2, 10, 6),
    ("Lap", "ltime", 4, 1, 4),
    ("Lap", "etime", 4, 1, 8),
    ("Spx", "stime", 4, 1, 4),
    ("Spx", "etime", 4, 1, 8),
    ("Psf", "stime", 4, 1, 4),
    ("Fin", "ttime", 4, 1, 4),
    ("Fin", "btime", 4, 1, 8),
    ("Res", "ttime", 4, 1, 64),
    ("Res", "btime", 4, 1, 68),
    ("Rip", "ctime", 4, 1, 8),
    ("Rip", "ttime", 4, 1, 12),
    ("Uco", "time", 4, 10, 8),
    ("Csc", "time", 4, 10, 8),
    ("Small", "Ssp", 4, 10, 4),
    ("Small", "Ssg", 4, 10, 4),
    ("Small", "Stp", 4, 10, 4),
    ("Small", "Rtp", 4, 10, 4),
    ("Small", "Nli", 4, 1, 4),
];

pub fn duration_packet(variant: &str, path: &str, d: Duration) -> Option<Packet> {
    Some(match (variant, path) {
        ("Isi", "interval") => Packet::Isi(Isi { interval: d, ..Default::default() }),
        ("Cpp", "time") => Packet::Cpp(Cpp { time: d, ..Default::default() }),
        ("Con", "time") => Packet::Con(Con { time: d, ..Default::default() }),
        ("Obh", "time") => Packet::Obh(Obh { time: d, ..Default::default() }),
        ("Hlv", "time") => Packet::Hlv(Hlv { time: d, ..Default::default() }),
        ("Lap", "ltime") => Packet::Lap(Lap { ltime: d, ..Default::default() }),
        ("Lap", "etime") => Packet::Lap(Lap { etime: d, ..Default::default() }),
        ("Spx", "stime") => Packet::Spx(Spx { stime: d, ..Default::default() }),
        ("Spx", "etime") => Packet::Spx(Spx { etime: d, ..Default::default() }),
        ("Psf", "stime") => Packet::Psf(Psf { stime: d, ..Default::default() }),
        ("Fin", "ttime") => Packet::Fin(Fin { ttime: d, ..Default::default() }),
        ("Fin", "btime") => Packet::Fin(Fin { btime: d, ..Default::default() }),
        ("Res", "ttime") => Packet::Res(Res { ttime: d, ..Default::default() }),
        ("Res", "btime") => Packet::Res(Res { btime: d, ..Default::default() }),
        ("Rip", "ctime") => Packet::Rip(Rip { ctime: d, ..Default::default() }),
        ("Rip", "ttime") => Packet::Rip(Rip { ttime: d, ..Default::default() }),
        ("Uco", "time") => Packet::Uco(Uco { time: d, ..Default::default() }),
        ("Csc", "time") => Packet::Csc(Csc { time: d, ..Default::default() }),
        ("Small", "Ssp") => Packet::Small(Small { reqi: RequestId(1), subt: SmallType::Ssp(d) }),
        ("Small", "Ssg") => Packet::Small(Small { reqi: RequestId(1), subt: SmallType::Ssg(d) }),
        ("Small", "Stp") => Packet::Small(Small { reqi: RequestId(1), subt: SmallType::Stp(d) }),
        ("Small", "Rtp") => Packet::Small(Small { reqi: RequestId(1), subt: SmallType::Rtp(d) }),
        ("Small", "Nli") => Packet::Small(Small { reqi: RequestId(1), subt: SmallType::Nli(d) }),
        _ => return None,
    })
}


/// the same field set on a packet that already holds other values (its "surroundings"); `base` must be of the named kind
pub fn duration_packet_in(base: Packet, path: &str, d: Duration) -> Option<Packet> {
    macro_rules! set {
        ($v:ident, $p:ident, $f:ident) => {{
            let mut $p = $p;
            $p.$f = d;
            Packet::$v($p)
        }};
    }
    Some(match (base, path) {
        (Packet::Isi(p), "interval") => set!(Isi, p, interval),
        (Packet::Cpp(p), "time") => set!(Cpp, p, time),
        (Packet::Con(p), "time") => set!(Con, p, time),
        (Packet::Obh(p), "time") => set!(Obh, p, time),
        (Packet::Hlv(p), "time") => set!(Hlv, p, time),
        (Packet::Lap(p), "ltime") => set!(Lap, p, ltime),
        (Packet::Lap(p), "etime") => set!(Lap, p, etime),
        (Packet::Spx(p), "stime") => set!(Spx, p, stime),
        (Packet::Spx(p), "etime") => set!(Spx, p, etime),
        (Packet::Psf(p), "stime") => set!(Psf, p, stime),
        (Packet::Fin(p), "ttime") => set!(Fin, p, ttime),
        (Packet::Fin(p), "btime") => set!(Fin, p, btime),
        (Packet::Res(p), "ttime") => set!(Res, p, ttime),
        (Packet::Res(p), "btime") => set!(Res, p, btime),
        (Packet::Rip(p), "ctime") => set!(Rip, p, ctime),
        (Packet::Rip(p), "ttime") => set!(Rip, p, ttime),
        (Packet::Uco(p), "time") => set!(Uco, p, time),
        (Packet::Csc(p), "time") => set!(Csc, p, time),
        (Packet::Small(p), sub) => {
            let subt = match sub {
                "Ssp" => SmallType::Ssp(d),
                "Ssg" => SmallType::Ssg(d),
                "Stp" => SmallType::Stp(d),
                "Rtp" => SmallType::Rtp(d),
                "Nli" => SmallType::Nli(d),
                _ => return None,
            };
            Packet::Small(Small { reqi: p.reqi, subt })
        },
        _ => return None,
    })
}

/// the two packets that carry a race length: (variant, byte offset of the field)
pub const RACELAPS_FIELDS: &[(&str, usize)] = &[("Sta", 17), ("Rst", 4)];

pub fn racelaps_packet(variant: &str, rl: RaceLaps) -> Option<Packet> {
    Some(match variant {
        "Sta" => Packet::Sta(Sta { racelaps: rl, ..Default::default() }),
        "Rst" => Packet::Rst(Rst { racelaps: rl, ..Default::default() }),
        _ => return None,
    })
}

fn coninfo(t: &mut Tape) -> ConInfo {
    ConInfo {
        plid: PlayerId(t.u8()),
        info: CompCarInfo::from_bits_truncate(t.u8()),
        steer: t.u8(),
        thr: t.u8() & 15,
        brk: t.u8() & 15,
        clu: t.u8() & 15,
        han: t.u8() & 15,
        gearsp: t.u8() & 15,
        speed: t.u8(),
        direction: t.u8(),
        heading: t.u8(),
        accelf: t.u8(),
        accelr: t.u8(),
        x: t.u16() as i16,
        y: t.u16() as i16,
    }
}

/// kinds with hand-written codecs / sub-byte fields: typed values inside their documented domain
pub const HANDWRITTEN: &[&str] = &["Con", "Small", "Cim", "Plc", "Hcp", "Obh", "Sta", "Npl", "Lap", "Reo", "Nci", "Ver", "Tiny", "Slc"];

pub fn handwritten_packet(variant: &str, t: &mut Tape) -> Option<Packet> {
    let r = RequestId(t.u8());
    Some(match variant {
        "Con" => Packet::Con(Con { reqi: r, spclose: t.u16() & 0x0fff, time: Duration::from_millis(t.u16() as u64 * 10), a: coninfo(t), b: coninfo(t) }),
        "Small" => {
            let st = match t.below(11) {
                0 => SmallType::None,
                1 => SmallType::Ssp(Duration::from_millis(t.u32() as u64 * 10)),
                2 => SmallType::Ssg(Duration::from_millis(t.u32() as u64 * 10)),
                3 => SmallType::Vta([VtnAction::None, VtnAction::End, VtnAction::Restart, VtnAction::Qualify][t.below(4)].clone()),
                4 => SmallType::Tms(t.below(2) == 1),
                5 => SmallType::Stp(Duration::from_millis(t.u32() as u64 * 10)),
                6 => SmallType::Rtp(Duration::from_millis(t.u32() as u64 * 10)),
                7 => SmallType::Nli(Duration::from_millis(t.u32() as u64)),
                8 => {
                    let mut s = PlcAllowedCarsSet::default();
                    let bits = t.u32();
                    for (i, v) in all_builtin().into_iter().enumerate() {
                        if bits >> i & 1 == 1 {
                            let _ = s.insert(v);
                        }
                    }
                    SmallType::Alc(s)
                },
                9 => {
                    let mut f = LcsFlags::empty();
                    for c in [LcsFlags::SIGNAL_OFF, LcsFlags::SIGNAL_LEFT, LcsFlags::SIGNAL_RIGHT, LcsFlags::SIGNAL_HAZARD, LcsFlags::FLASH_OFF, LcsFlags::FLASH_ON, LcsFlags::HEADLIGHTS_OFF, LcsFlags::HEADLIGHTS_ON, LcsFlags::HORN_OFF, LcsFlags::HORN_1, LcsFlags::HORN_3, LcsFlags::HORN_5, LcsFlags::SIREN_OFF, LcsFlags::SIREN_FAST, LcsFlags::SIREN_SLOW] {
                        if t.below(5) == 0 {
                            f |= c;
                        }
                    }
                    SmallType::Lcs(f)
                },
                _ => {
                    let mut f = LclFlags::empty();
                    for c in [LclFlags::SIGNAL_OFF, LclFlags::SIGNAL_LEFT, LclFlags::SIGNAL_RIGHT, LclFlags::SIGNAL_HAZARD, LclFlags::LIGHT_OFF, LclFlags::LIGHT_SIDE, LclFlags::LIGHT_LOW, LclFlags::LIGHT_HIGH, LclFlags::FOG_REAR_OFF, LclFlags::FOG_REAR, LclFlags::FOG_FRONT_OFF, LclFlags::FOG_FRONT, LclFlags::EXTRA_OFF, LclFlags::EXTRA] {
                        if t.below(5) == 0 {
                            f |= c;
                        }
                    }
                    SmallType::Lcl(f)
                },
            };
            Packet::Small(Small { reqi: r, subt: st })
        },
        "Cim" => {
            let mode = match t.below(7) {
                0 => CimMode::Normal([CimSubModeNormal::Normal, CimSubModeNormal::WheelTemps, CimSubModeNormal::WheelDamage, CimSubModeNormal::LiveSettings, CimSubModeNormal::PitInstructions][t.below(5)]),
                1 => CimMode::Options,
                2 => CimMode::HostOptions,
                3 => CimMode::Garage(
                    [CimSubModeGarage::Info, CimSubModeGarage::Colours, CimSubModeGarage::BrakeTC, CimSubModeGarage::Susp, CimSubModeGarage::Steer, CimSubModeGarage::Drive, CimSubModeGarage::Tyres, CimSubModeGarage::Aero, CimSubModeGarage::Pass][t.below(9)],
                ),
                4 => CimMode::CarSelect,
                5 => CimMode::TrackSelect,
                _ => CimMode::ShiftU { submode: [CimSubModeShiftU::Plain, CimSubModeShiftU::Buttons, CimSubModeShiftU::Edit][t.below(3)], seltype: t.u8() },
            };
            Packet::Cim(Cim { reqi: r, ucid: ConnectionId(t.u8()), mode })
        },
        "Plc" => {
            let mut s = PlcAllowedCarsSet::default();
            let bits = t.u32();
            for (i, v) in all_builtin().into_iter().enumerate() {
                if bits >> i & 1 == 1 {
                    let _ = s.insert(v);
                }
            }
            Packet::Plc(Plc { reqi: r, ucid: ConnectionId(t.u8()), cars: s })
        },
        "Hcp" => {
            let mut h = Hcp { reqi: r, ..Default::default() };
            for i in 0..32 {
                h.info[i] = HcpCarHandicap { h_mass: t.u8() % 201, h_tres: t.u8() % 51 };
            }
            Packet::Hcp(h)
        },
        "Obh" => Packet::Obh(Obh {
            reqi: r,
            plid: PlayerId(t.u8()),
            spclose: t.u16() & 0x0fff,
            time: Duration::from_millis(t.u16() as u64 * 10),
            c: CarContact { direction: t.u8(), heading: t.u8(), speed: t.u8(), z: t.u8(), x: t.u16() as i16, y: t.u16() as i16 },
            x: t.u16() as i16,
            y: t.u16() as i16,
            zbyte: t.u8(),
            index: t.u8(),
            flags: ObhFlags::from_bits_truncate(t.u8()),
        }),
        "Sta" => Packet::Sta(Sta {
            reqi: r,
            replayspeed: f32::from_bits(t.u32()),
            flags: StaFlags::from_bits_truncate(t.u16()),
            ingamecam: [CameraView::Follow, CameraView::Heli, CameraView::Cam, CameraView::Driver, CameraView::Custom, CameraView::Another][t.below(6)].clone(),
            viewplid: PlayerId(t.u8()),
            nump: t.u8(),
            numconns: t.u8(),
            numfinished: t.u8(),
            raceinprog: [RaceInProgress::No, RaceInProgress::Racing, RaceInProgress::Qualifying][t.below(3)].clone(),
            qualmins: t.u8(),
            racelaps: RaceLaps::from(t.below(239) as u8),
            serverstatus: t.u8(),
            track: crate::generated::track_by_variant(crate::generated::TRACK_VARIANTS[t.below(crate::generated::TRACK_VARIANTS.len())]).unwrap(),
            weather: t.u8(),
            wind: [insim_core::wind::Wind::None, insim_core::wind::Wind::Weak, insim_core::wind::Wind::Strong][t.below(3)],
        }),
        "Npl" => Packet::Npl(Npl {
            reqi: r,
            plid: PlayerId(t.u8()),
            ucid: ConnectionId(t.u8()),
            ptype: PlayerType::from_bits_truncate(t.u8()),
            flags: PlayerFlags::from_bits_truncate(t.u16()),
            pname: "^1Some^7one".into(),
            plate: "plate".into(),
            cname: vehicle_from(t),
            sname: "skin".into(),
            tyres: [tyre(t), tyre(t), tyre(t), tyre(t)],
            h_mass: t.u8(),
            h_tres: t.u8(),
            model: t.u8(),
            pass: Passengers::from_bits_truncate(t.u8()),
            rwadj: t.u8(),
            fwadj: t.u8(),
            setf: SetFlags::from_bits_truncate(t.u8()),
            nump: t.u8(),
            config: t.u8(),
            fuel: if t.below(3) == 0 { Fuel::No } else { Fuel::Percentage(t.u8() % 255) },
        }),
        "Lap" => Packet::Lap(Lap {
            reqi: r,
            plid: PlayerId(t.u8()),
            ltime: Duration::from_millis(t.u32() as u64),
            etime: Duration::from_millis(t.u32() as u64),
            lapsdone: t.u16(),
            flags: PlayerFlags::from_bits_truncate(t.u16()),
            penalty: [PenaltyInfo::None, PenaltyInfo::Dt, PenaltyInfo::DtValid, PenaltyInfo::Sg, PenaltyInfo::SgValid, PenaltyInfo::Seconds30, PenaltyInfo::Seconds45][t.below(7)],
            numstops: t.u8(),
            fuel200: if t.below(3) == 0 { Fuel200::No } else { Fuel200::Percentage(t.u8() % 255) },
        }),
        "Reo" => {
            let mut p = Reo { reqi: r, nump: t.u8(), ..Default::default() };
            for i in 0..40 {
                p.plid[i] = PlayerId(t.u8());
            }
            Packet::Reo(p)
        },
        "Nci" => Packet::Nci(Nci {
            reqi: r,
            ucid: ConnectionId(t.u8()),
            userid: t.u32(),
            ipaddress: Ipv4Addr::from(t.u32()),
            license: [insim_core::license::License::Demo, insim_core::license::License::S1, insim_core::license::License::S2, insim_core::license::License::S3][t.below(4)],
            ..Default::default()
        }),
        "Ver" => {
            let major = ["0.7", "0.6", "0.04", "1.25", "0.5"][t.below(5)];
            let letter = (b'A' + t.below(26) as u8) as char;
            let rev = if t.below(2) == 0 { String::new() } else { t.below(100).to_string() };
            let v: insim_core::game_version::GameVersion = format!("{major}{letter}{rev}").parse().ok()?;
            Packet::Ver(Ver { reqi: r, version: v, product: ["DEMO", "S1", "S2", "S3"][t.below(4)].into(), insimver: t.u8() })
        },
        "Tiny" => {
            let subs = [TinyType::None, TinyType::Ver, TinyType::Close, TinyType::Ping, TinyType::Reply, TinyType::Vtc, TinyType::Scp, TinyType::Sst, TinyType::Gth, TinyType::Mpe, TinyType::Ism, TinyType::Ren, TinyType::Clr, TinyType::Ncn, TinyType::Npl, TinyType::Res, TinyType::Nlp, TinyType::Mci, TinyType::Reo, TinyType::Rst, TinyType::Axi, TinyType::Axc, TinyType::Rip, TinyType::Nci, TinyType::Alc, TinyType::Axm, TinyType::Slc, TinyType::Mal, TinyType::Plh, TinyType::Ipb];
            Packet::Tiny(Tiny { reqi: r, subt: subs[t.below(subs.len())].clone() })
        },
        "Slc" => Packet::Slc(Slc { reqi: r, ucid: ConnectionId(t.u8()), cname: vehicle_from(t) }),
        _ => return None,
    })
}

fn tyre(t: &mut Tape) -> TyreCompound {
    [TyreCompound::R1, TyreCompound::R2, TyreCompound::R3, TyreCompound::R4, TyreCompound::RoadSuper, TyreCompound::RoadNormal, TyreCompound::Hybrid, TyreCompound::Knobbly, TyreCompound::NoChange][t.below(9)].clone()
}

pub fn all_builtin() -> Vec<Vehicle> {
    vec![
        Vehicle::Xfg, Vehicle::Xrg, Vehicle::Xrt, Vehicle::Rb4, Vehicle::Fxo, Vehicle::Lx4, Vehicle::Lx6, Vehicle::Mrt, Vehicle::Uf1, Vehicle::Rac,
        Vehicle::Fz5, Vehicle::Fox, Vehicle::Xfr, Vehicle::Ufr, Vehicle::Fo8, Vehicle::Fxr, Vehicle::Xrr, Vehicle::Fzr, Vehicle::Bf1, Vehicle::Fbm,
    ]
}

fn vehicle_from(t: &mut Tape) -> Vehicle {
    match t.below(24) {
        k if k < 20 => all_builtin()[k].clone(),
        20 => Vehicle::Unknown,
        _ => {
            let mut v = t.u32().to_le_bytes();
            if v[3] == 0 && v[..3].iter().all(|c| c.is_ascii_alphanumeric()) {
                v[3] = 1;
            }
            if v == [0, 0, 0, 0] {
                v[0] = 1;
            }
            Vehicle::Mod(u32::from_le_bytes(v))
        },
    }
}
