//! Table-driven reference codec: builds spec-conformant frame images from an entropy tape (or from a
//! one-hot selection) together with the rendering each typed field is expected to show after decoding.

use std::time::Duration;

use insim::net::Mode;

use super::cp;
use super::spec::{spec, Field, Kind, PacketSpec, Tag};
use crate::props::c13::BUILTIN;

pub struct Tape<'a> {
    data: &'a [u8],
    pos: usize,
}

impl<'a> Tape<'a> {
    pub fn new(data: &'a [u8]) -> Self {
        Tape { data, pos: 0 }
    }
    pub fn u8(&mut self) -> u8 {
        let v = self.data.get(self.pos).copied().unwrap_or(0);
        self.pos += 1;
        v
    }
    pub fn u16(&mut self) -> u16 {
        u16::from_le_bytes([self.u8(), self.u8()])
    }
    pub fn u32(&mut self) -> u32 {
        u32::from_le_bytes([self.u8(), self.u8(), self.u8(), self.u8()])
    }
    /// monotone map of the next byte(s) into 0..n
    pub fn below(&mut self, n: usize) -> usize {
        if n <= 1 {
            return 0;
        }
        if n <= 256 {
            (self.u8() as usize * n) >> 8
        } else {
            (self.u16() as usize * n) >> 16
        }
    }
    pub fn consumed(&self) -> usize {
        self.pos
    }
}

#[derive(Debug, Clone, PartialEq)]
pub enum Want {
    Text(String),
    Flags { ty: String, names: Vec<String> },
    /// elements of a set / list rendering, in order
    Seq(Vec<String>),
    /// elements of a set rendering, any order
    Set(Vec<String>),
    /// numeric value of the SMALL LCS / LCL flag word
    SmallBits(u32),
    /// number of elements of the list at this path
    Len(usize),
}

#[derive(Debug, Clone)]
pub struct Expect {
    pub path: String,
    pub want: Want,
    pub tag: Tag,
}

#[derive(Debug, Clone)]
pub struct TextRange {
    pub start: usize,
    pub end: usize,
    pub text: String,
    pub ascii: bool,
    pub raw: bool,
}

#[derive(Debug, Clone)]
pub struct Inst {
    pub variant: String,
    pub ty: u8,
    pub image: Vec<u8>,
    pub expects: Vec<Expect>,
    /// encode(decode(image)) must reproduce the image byte for byte (outside non-ASCII text ranges)
    pub encode_comparable: bool,
    pub texts: Vec<TextRange>,
    /// what made this instance interesting (class label for the evidence)
    pub label: String,
    /// (start, end, path) of every leaf field in the image
    pub spans: Vec<(usize, usize, String)>,
}

impl Inst {
    /// the spec field that covers byte `off` of the image
    pub fn field_at(&self, off: usize) -> String {
        if off == 0 {
            return "<size byte>".into();
        }
        if off == 1 {
            return "<type byte>".into();
        }
        for (a, b, p) in &self.spans {
            if off >= *a && off < *b {
                return p.clone();
            }
        }
        "<beyond the specified layout>".into()
    }
}

/// `info[3].xyz.x` -> `info[].xyz.x` (root-cause signature of a field, independent of the element index)
pub fn generic_path(p: &str) -> String {
    let mut out = String::new();
    let mut skip = false;
    for c in p.chars() {
        if c == '[' {
            out.push('[');
            skip = true;
        } else if c == ']' {
            out.push(']');
            skip = false;
        } else if !skip {
            out.push(c);
        }
    }
    out
}

pub enum Pick {
    Zero,
    Nth(usize),
    Random,
}

pub struct Ctx<'a> {
    pub tape: Option<Tape<'a>>,
    /// one-hot target: (leaf path, choice index)
    pub target: Option<(String, usize)>,
    /// second target of a pairwise instance
    pub target2: Option<(String, usize)>,
    pub mode_limit: usize,
    pub expects: Vec<Expect>,
    pub texts: Vec<TextRange>,
    pub encode_comparable: bool,
    pub label: Vec<String>,
    /// when enumerating sweep targets: collects (leaf path, number of choices)
    pub collect: Option<Vec<(String, usize)>>,
    /// non-ASCII text allowed?
    pub allow_codepages: bool,
    pub spans: Vec<(usize, usize, String)>,
}

impl<'a> Ctx<'a> {
    fn pick(&mut self, path: &str, nchoices: usize) -> Pick {
        if let Some(c) = &mut self.collect {
            c.push((path.to_string(), nchoices));
            return Pick::Zero;
        }
        if let Some((t, k)) = &self.target {
            if t == path {
                return Pick::Nth(*k);
            }
            if let Some((t2, k2)) = &self.target2 {
                if t2 == path {
                    return Pick::Nth(*k2);
                }
            }
            return Pick::Zero;
        }
        if self.tape.is_some() {
            Pick::Random
        } else {
            Pick::Zero
        }
    }
    fn t(&mut self) -> &mut Tape<'a> {
        self.tape.as_mut().expect("tape")
    }
    fn expect(&mut self, path: &str, want: Want, tag: &Tag) {
        self.expects.push(Expect { path: path.to_string(), want, tag: tag.clone() });
    }
    fn text(&mut self, path: &str, s: String, tag: &Tag) {
        self.expect(path, Want::Text(s), tag);
    }
}

fn join(prefix: &str, path: &str) -> String {
    if path == "." || path.is_empty() {
        prefix.to_string()
    } else if prefix.is_empty() {
        path.to_string()
    } else {
        format!("{prefix}.{path}")
    }
}

// every single bit, the usual edges, and the masks a special case might be keyed on (top two bits, nibbles, alternating bits)
const U8_CHOICES: [u64; 19] = [1, 2, 0x7f, 0x80, 0xff, 0x55, 4, 8, 0x10, 0x20, 0x40, 0xc0, 0x3f, 0xaa, 0x0f, 0xf0, 0xfe, 3, 100];
const U16_CHOICES: [u64; 11] = [1, 0x100, 0x7fff, 0x8000, 0xffff, 0x1234, 0xff, 0xff00, 0xfffe, 2, 1000];
const U32_CHOICES: [u64; 12] = [1, 0x100, 0x1_0000, 0x100_0000, 0x7fff_ffff, 0x8000_0000, 0xffff_ffff, 0x1234_5678, 0xffff, 0xffff_fffe, 1000, 3_600_000];
const F32_CHOICES: [u32; 8] = [0x3f80_0000, 0xbf80_0000, 0x3f00_0000, 0x7fc0_0000, 0x8000_0000, 1, 0x7f80_0000, 0x1234_5678];

fn int_value(ctx: &mut Ctx, path: &str, bytes: usize, max: Option<u64>) -> u64 {
    let full: u64 = match bytes {
        1 => 0xff,
        2 => 0xffff,
        _ => 0xffff_ffff,
    };
    let top = max.unwrap_or(full);
    let choices: Vec<u64> = if max.is_some() {
        vec![1, top]
    } else {
        match bytes {
            1 => U8_CHOICES.to_vec(),
            2 => U16_CHOICES.to_vec(),
            _ => U32_CHOICES.to_vec(),
        }
    };
    match ctx.pick(path, choices.len()) {
        Pick::Zero => 0,
        Pick::Nth(k) => choices[k],
        Pick::Random => {
            let t = ctx.t();
            let v = match t.below(8) {
                0 => 0,
                1 => 1,
                2 => top,
                3 => top - 1,
                4 => 1u64 << t.below(bytes * 8),
                _ => match bytes {
                    1 => t.u8() as u64,
                    2 => t.u16() as u64,
                    _ => t.u32() as u64,
                },
            };
            v.min(top)
        },
    }
}

fn put(img: &mut Vec<u8>, off: usize, bytes: &[u8]) {
    if img.len() < off + bytes.len() {
        img.resize(off + bytes.len(), 0);
    }
    img[off..off + bytes.len()].copy_from_slice(bytes);
}

const ASCII_NO_CARET: &[u8] = b" !\"#$%&'()*+,-./0123456789:;<=>?@ABCDEFGHIJKLMNOPQRSTUVWXYZ[\\]_`abcdefghijklmnopqrstuvwxyz{|}~";

/// generate text that fits into `cap` encoded bytes: (wire bytes, expected decoded string, ascii?)
fn gen_text(ctx: &mut Ctx, path: &str, cap: usize, raw: bool, min_len: usize) -> (Vec<u8>, String, bool) {
    let ascii_of = |n: usize, seed: usize| -> Vec<u8> { (0..n).map(|i| ASCII_NO_CARET[(seed + i * 7) % ASCII_NO_CARET.len()]).collect() };
    let pick = ctx.pick(path, 6);
    let allow_cp = ctx.allow_codepages && !raw;
    // ASCII-only text that nevertheless carries codepage markers (LFS emits them freely, e.g. "^7Race ^EServer"): the markers
    // are consumed by the decoder, colours stay. (wire bytes, decoded text)
    let marked = |letters: &[u8], cap: usize| -> (Vec<u8>, String) {
        let mut b = vec![];
        let mut s = String::new();
        for (i, l) in letters.iter().enumerate() {
            let word = [&b"ab"[..], b"Race", b"x", b"Srv 1"][i % 4];
            if b.len() + word.len() + 2 > cap {
                break;
            }
            b.extend_from_slice(word);
            s.push_str(std::str::from_utf8(word).unwrap());
            b.push(b'^');
            b.push(*l);
            if l.is_ascii_digit() {
                s.push('^');
                s.push(*l as char);
            }
        }
        if b.len() < cap {
            b.push(b'z');
            s.push('z');
        }
        (b, s)
    };
    match pick {
        Pick::Nth(4) if allow_cp && cap >= 6 => {
            let (b, s) = marked(b"E", cap);
            (b, s, false)
        },
        Pick::Nth(5) if allow_cp && cap >= 12 => {
            let (b, s) = marked(b"7L8", cap);
            (b, s, false)
        },
        Pick::Nth(4) | Pick::Nth(5) => {
            let b = ascii_of(cap.min(2).max(min_len), 21);
            let s = String::from_utf8(b.clone()).unwrap();
            (b, s, true)
        },
        Pick::Zero => {
            let b = ascii_of(min_len, 33);
            let s = String::from_utf8(b.clone()).unwrap();
            (b, s, true)
        },
        Pick::Nth(0) => (b"A".to_vec(), "A".into(), true),
        Pick::Nth(1) => {
            let b = ascii_of(cap, 1);
            let s = String::from_utf8(b.clone()).unwrap();
            (b, s, true)
        },
        Pick::Nth(3) => {
            // ASCII, a multiple of 4 long
            let b = ascii_of(4.min(cap), 17);
            let s = String::from_utf8(b.clone()).unwrap();
            (b, s, true)
        },
        Pick::Nth(_) => {
            if !allow_cp || cap < 4 {
                let b = ascii_of(cap.min(3).max(min_len), 5);
                let s = String::from_utf8(b.clone()).unwrap();
                return (b, s, true);
            }
            // ^E + ě + "x"
            let t = cp::table("cp1250");
            let mut b = b"^E".to_vec();
            b.extend_from_slice(&t.encode[&'ě']);
            b.push(b'x');
            (b, "ěx".into(), false)
        },
        Pick::Random => {
            let class = ctx.t().below(10);
            match class {
                8 | 9 if allow_cp && cap >= 6 => {
                    let n = 1 + ctx.t().below(3);
                    let letters: Vec<u8> = (0..n).map(|_| b"LGCETBJHSK8790"[ctx.t().below(14)]).collect();
                    let (b, s) = marked(&letters, cap);
                    if b.len() >= min_len {
                        (b, s, false)
                    } else {
                        let b = ascii_of(min_len, 13);
                        let s = String::from_utf8(b.clone()).unwrap();
                        (b, s, true)
                    }
                },
                8 | 9 => {
                    let b = ascii_of(cap.min(3).max(min_len), 15);
                    let s = String::from_utf8(b.clone()).unwrap();
                    (b, s, true)
                },
                0 => {
                    let b = ascii_of(min_len, 3);
                    let s = String::from_utf8(b.clone()).unwrap();
                    (b, s, true)
                },
                1..=4 => {
                    let n = match class {
                        1 => 1 + ctx.t().below(cap.min(12)),
                        2 => cap,
                        3 => cap.saturating_sub(1),
                        _ => ctx.t().below(cap + 1),
                    }
                    .max(min_len)
                    .min(cap);
                    let seed = ctx.t().u8() as usize;
                    let mut b = ascii_of(n, seed);
                    if raw && n > 0 && ctx.t().below(4) == 0 {
                        b[0] = b'^';
                    }
                    let s = String::from_utf8(b.clone()).unwrap();
                    (b, s, true)
                },
                _ => {
                    if !allow_cp || cap < 4 {
                        let n = cap.min(3).max(min_len);
                        let b = ascii_of(n, 9);
                        let s = String::from_utf8(b.clone()).unwrap();
                        return (b, s, true);
                    }
                    let nseg = if class == 7 { 2 } else { 1 };
                    let mut b: Vec<u8> = vec![];
                    let mut s = String::new();
                    let mut any = false;
                    for _ in 0..nseg {
                        let m = ctx.t().below(10); // L..H, never '8' here (C10 owns ^8)
                        let (letter, name) = cp::MARKERS[m];
                        let t = cp::table(name);
                        if b.len() + 2 + 2 > cap {
                            break;
                        }
                        b.push(b'^');
                        b.push(letter);
                        let k = 1 + ctx.t().below(6);
                        for _ in 0..k {
                            let idx = ctx.t().below(t.entries.len());
                            let e = &t.entries[idx];
                            // avoid a double-byte trail byte 0x5E here: marker-scan subtleties belong to C10
                            if e.0.len() == 2 && e.0[1] == b'^' {
                                continue;
                            }
                            if b.len() + e.0.len() > cap {
                                break;
                            }
                            b.extend_from_slice(&e.0);
                            s.push(e.1);
                            any = true;
                        }
                        if b.len() < cap && ctx.t().below(2) == 0 {
                            b.push(b'a');
                            s.push('a');
                        }
                    }
                    if !any && b.len() < min_len {
                        let b = ascii_of(min_len, 11);
                        let s = String::from_utf8(b.clone()).unwrap();
                        return (b, s, true);
                    }
                    let ascii = s.is_ascii() && !b.contains(&b'^');
                    (b, s, ascii)
                },
            }
        },
    }
}

fn render_vehicle(b: [u8; 4]) -> String {
    if b == [0, 0, 0, 0] {
        return "Unknown".into();
    }
    if b[3] == 0 {
        for n in BUILTIN {
            if n.as_bytes() == &b[..3] {
                return n.to_string();
            }
        }
    }
    format!("MOD({:06X})", u32::from_le_bytes(b))
}

fn gen_vehicle(ctx: &mut Ctx, path: &str) -> [u8; 4] {
    // choices: 20 built-ins, zero, two mods
    let nth = |k: usize| -> [u8; 4] {
        if k < 20 {
            let n = BUILTIN[k].as_bytes();
            [n[0], n[1], n[2], 0]
        } else if k == 20 {
            [0, 0, 0, 0]
        } else if k == 21 {
            0x00AB_CDEFu32.to_le_bytes()
        } else if k == 22 {
            0x8123_4567u32.to_le_bytes()
        } else if k == 23 {
            // a mod id that starts like a car name: two alphanumerics, then a non-alphanumeric byte, top byte 0
            [b'A', b'7', 0x9c, 0]
        } else if k == 24 {
            [b'X', 0x80, b'G', 0]
        } else {
            [0xe9, b'F', b'G', 0]
        }
    };
    match ctx.pick(path, 26) {
        Pick::Zero => nth(0),
        Pick::Nth(k) => nth(k),
        Pick::Random => {
            let c = ctx.t().below(40);
            if c < 26 {
                nth(c)
            } else if c < 32 {
                // top byte 0 (24-bit skin id), exactly one of the three low bytes not alphanumeric
                let t = ctx.t();
                let mut v = [b'A' + (t.u8() % 26), b'0' + (t.u8() % 10), b'a' + (t.u8() % 26), 0];
                let pos = t.below(3);
                v[pos] = [0x00u8, 0x20, 0x2d, 0x5f, 0x7f, 0x80, 0x9c, 0xe9, 0xff][t.below(9)];
                if v == [0, 0, 0, 0] {
                    v[1] = b'Q';
                }
                v
            } else {
                let mut v = ctx.t().u32().to_le_bytes();
                // keep it outside the built-in shape (3 alphanumerics + NUL) so that it is a mod id
                if v[3] == 0 && v[..3].iter().all(|c| c.is_ascii_alphanumeric()) {
                    v[3] = 1;
                }
                if v == [0, 0, 0, 0] {
                    v[0] = 1;
                }
                v
            }
        },
    }
}

fn mod_id(t: &mut Tape, i: usize) -> u32 {
    // distinct by construction: the index lives in the low 7 bits... ids must be unique within one packet
    let r = t.u16() as u32;
    ((r << 8) | i as u32) | 0x0100_0000
}

fn track_variants() -> &'static [&'static str] {
    crate::generated::TRACK_VARIANTS
}

struct Gen<'s> {
    spec: &'s super::spec::Spec,
}

impl<'s> Gen<'s> {
    /// write `fields` at base offset `base`, paths under `prefix`
    fn fields(&self, ctx: &mut Ctx, img: &mut Vec<u8>, fields: &[Field], base: usize, prefix: &str) {
        for f in fields {
            self.field(ctx, img, f, base, prefix);
        }
    }

    fn field(&self, ctx: &mut Ctx, img: &mut Vec<u8>, f: &Field, base: usize, prefix: &str) {
        let off = base + f.off;
        let path = join(prefix, &f.path);
        let tag = &f.tag;
        let before = img.len();
        match &f.kind {
            Kind::Array { .. } | Kind::Struct { .. } | Kind::Counted { .. } => {},
            Kind::Zero { len } => ctx.spans.push((off, off + len, format!("<spare byte @{}>", f.off))),
            k => match self.spec.width(k) {
                Some(w) => ctx.spans.push((off, off + w, path.clone())),
                None => ctx.spans.push((off, usize::MAX, path.clone())),
            },
        }
        let _ = before;
        match &f.kind {
            Kind::Zero { len } => put(img, off, &vec![0u8; *len]),
            Kind::Id(ty) => {
                let v = int_value(ctx, &path, 1, None) as u8;
                put(img, off, &[v]);
                ctx.text(&path, format!("{ty}({v})"), tag);
            },
            Kind::U8 { max } => {
                let v = int_value(ctx, &path, 1, max.map(|m| m as u64)) as u8;
                put(img, off, &[v]);
                ctx.text(&path, v.to_string(), tag);
            },
            Kind::U16 => {
                let v = int_value(ctx, &path, 2, None) as u16;
                put(img, off, &v.to_le_bytes());
                ctx.text(&path, v.to_string(), tag);
            },
            Kind::U32 => {
                let v = int_value(ctx, &path, 4, None) as u32;
                put(img, off, &v.to_le_bytes());
                ctx.text(&path, v.to_string(), tag);
            },
            Kind::I16 => {
                let v = int_value(ctx, &path, 2, None) as u16 as i16;
                put(img, off, &v.to_le_bytes());
                ctx.text(&path, v.to_string(), tag);
            },
            Kind::I32 => {
                let v = int_value(ctx, &path, 4, None) as u32 as i32;
                put(img, off, &v.to_le_bytes());
                ctx.text(&path, v.to_string(), tag);
            },
            Kind::U12 => {
                let v = match ctx.pick(&path, 3) {
                    Pick::Zero => 0u16,
                    Pick::Nth(k) => [1u16, 0xfff, 0x800][k],
                    Pick::Random => ctx.t().u16() & 0x0fff,
                };
                put(img, off, &v.to_le_bytes());
                ctx.text(&path, v.to_string(), tag);
            },
            Kind::F32 => {
                let bits = match ctx.pick(&path, F32_CHOICES.len()) {
                    Pick::Zero => 0,
                    Pick::Nth(k) => F32_CHOICES[k],
                    Pick::Random => {
                        let t = ctx.t();
                        match t.below(4) {
                            0 => F32_CHOICES[t.below(F32_CHOICES.len())],
                            _ => t.u32(),
                        }
                    },
                };
                put(img, off, &bits.to_le_bytes());
                ctx.text(&path, format!("{:?}", f32::from_bits(bits)), tag);
            },
            Kind::Bool => {
                let v = match ctx.pick(&path, 1) {
                    Pick::Zero => 0u8,
                    Pick::Nth(_) => 1,
                    Pick::Random => ctx.t().u8() & 1,
                };
                put(img, off, &[v]);
                ctx.text(&path, (v != 0).to_string(), tag);
            },
            Kind::Char => {
                let v = match ctx.pick(&path, 4) {
                    Pick::Zero => 0u8,
                    Pick::Nth(k) => [b'!', b'A', 0x7f, 0xe9][k],
                    Pick::Random => ctx.t().u8(),
                };
                put(img, off, &[v]);
                ctx.text(&path, format!("{:?}", v as char), tag);
            },
            Kind::Enum(name) => {
                let e = &self.spec.enums[name];
                let k = match ctx.pick(&path, e.len()) {
                    Pick::Zero => 0,
                    Pick::Nth(k) => k,
                    Pick::Random => ctx.t().below(e.len()),
                };
                put(img, off, &[e[k].1]);
                ctx.text(&path, e[k].0.clone(), tag);
            },
            Kind::Bits(name) => {
                let (width, defs) = &self.spec.flags[name];
                let mask: u32 = match ctx.pick(&path, defs.len() + 1) {
                    Pick::Zero => 0,
                    Pick::Nth(k) if k < defs.len() => 1 << defs[k].1,
                    Pick::Nth(_) => defs.iter().fold(0, |a, d| a | (1 << d.1)),
                    Pick::Random => {
                        let t = ctx.t();
                        match t.below(6) {
                            0 => 0,
                            1 => defs.iter().fold(0, |a, d| a | (1 << d.1)),
                            2 => 1 << defs[t.below(defs.len())].1,
                            _ => {
                                let r = t.u32();
                                defs.iter().enumerate().fold(0, |a, (i, d)| if r >> (i % 32) & 1 == 1 { a | (1 << d.1) } else { a })
                            },
                        }
                    },
                };
                let bytes = (*width / 8) as usize;
                put(img, off, &mask.to_le_bytes()[..bytes]);
                let names: Vec<String> = defs.iter().filter(|d| mask >> d.1 & 1 == 1).map(|d| d.0.clone()).collect();
                ctx.expect(&path, Want::Flags { ty: name.clone(), names }, tag);
            },
            Kind::Dur { bytes, scale } => {
                let v = int_value(ctx, &path, *bytes, None);
                put(img, off, &v.to_le_bytes()[..*bytes]);
                ctx.text(&path, format!("{:?}", Duration::from_millis(v * scale)), tag);
            },
            Kind::Str { len, raw, nulterm } => {
                let cap = if *nulterm { len - 1 } else { *len };
                let (b, s, ascii) = gen_text(ctx, &path, cap, *raw, 0);
                let mut field = b.clone();
                field.resize(*len, 0);
                put(img, off, &field);
                ctx.texts.push(TextRange { start: off, end: off + len, text: s.clone(), ascii, raw: *raw });
                ctx.text(&path, format!("{s:?}"), tag);
            },
            Kind::StrVar { max, nulterm } => {
                // LFS always terminates: the text occupies 1..=max-1 bytes, padded with NULs to a multiple of 4
                let (b, s, ascii) = gen_text(ctx, &path, max - 1, false, 1);
                let padded = (b.len() / 4 + 1) * 4;
                let mut field = b.clone();
                field.resize(padded.min(*max), 0);
                put(img, off, &field);
                // without a mandatory terminator the crate's canonical form for len % 4 == 0 has no pad: decode-only then
                if !*nulterm && b.len() % 4 == 0 {
                    ctx.encode_comparable = false;
                    ctx.label.push("strvar-len-multiple-of-4".into());
                }
                if !ascii {
                    // the encoder may choose other (shorter or longer) marker sequences: frame length not comparable
                    ctx.encode_comparable = false;
                }
                ctx.texts.push(TextRange { start: off, end: off + field.len(), text: s.clone(), ascii, raw: false });
                ctx.text(&path, format!("{s:?}"), tag);
            },
            Kind::Vehicle => {
                let v = gen_vehicle(ctx, &path);
                put(img, off, &v);
                ctx.text(&path, render_vehicle(v), tag);
            },
            Kind::Track => {
                let tv = track_variants();
                let k = match ctx.pick(&path, 6) {
                    Pick::Zero => 0,
                    Pick::Nth(k) => [1, tv.len() / 5, tv.len() / 3, tv.len() / 2, tv.len() - 2, tv.len() - 1][k],
                    Pick::Random => ctx.t().below(tv.len()),
                };
                let code = tv[k].to_ascii_uppercase();
                let mut w = [0u8; 6];
                w[..code.len()].copy_from_slice(code.as_bytes());
                put(img, off, &w);
                ctx.text(&path, tv[k].to_string(), tag);
            },
            Kind::RaceLaps => {
                let v = match ctx.pick(&path, 6) {
                    Pick::Zero => 0u8,
                    Pick::Nth(k) => [1u8, 99, 100, 190, 191, 238][k],
                    Pick::Random => ctx.t().below(239) as u8,
                };
                put(img, off, &[v]);
                let r = match v {
                    0 => "Practice".to_string(),
                    1..=99 => format!("Laps({v})"),
                    100..=190 => format!("Laps({})", (v as usize - 100) * 10 + 100),
                    _ => format!("Hours({})", v - 190),
                };
                ctx.text(&path, r, tag);
            },
            Kind::Fuel => {
                let v = match ctx.pick(&path, 4) {
                    Pick::Zero => 0u8,
                    Pick::Nth(k) => [1u8, 100, 254, 255][k],
                    Pick::Random => {
                        let t = ctx.t();
                        if t.below(4) == 0 {
                            255
                        } else {
                            t.u8()
                        }
                    },
                };
                put(img, off, &[v]);
                ctx.text(&path, if v == 255 { "No".into() } else { format!("Percentage({v})") }, tag);
            },
            Kind::GameVer => {
                // canonical wire forms D.D[D]L[D[D]] (last digit of the number non-zero, upper-case letter, no leading zero)
                let (d1, d2, d3, letter, rev): (u8, u8, Option<u8>, u8, Option<u8>) = match ctx.pick(&path, 4) {
                    Pick::Zero => (0, 7, None, b'A', None),
                    Pick::Nth(k) => [(0, 7, None, b'F', None), (0, 0, Some(4), b'K', None), (0, 6, None, b'W', Some(60)), (1, 2, Some(3), b'Z', Some(9))][k],
                    Pick::Random => {
                        let t = ctx.t();
                        let d1 = t.below(10) as u8;
                        let has3 = t.below(3) == 0;
                        let (d2, d3) = if has3 { (t.below(10) as u8, Some(1 + t.below(9) as u8)) } else { (1 + t.below(9) as u8, None) };
                        let letter = b'A' + t.below(26) as u8;
                        let rev = if t.below(2) == 0 { None } else { Some(t.below(100) as u8) };
                        (d1, d2, d3, letter, rev)
                    },
                };
                let mut s = format!("{d1}.{d2}");
                if let Some(d) = d3 {
                    s.push_str(&d.to_string());
                }
                let number: f32 = s.parse().unwrap();
                s.push(letter as char);
                if let Some(r) = rev {
                    s.push_str(&r.to_string());
                }
                let mut w = [0u8; 8];
                w[..s.len()].copy_from_slice(s.as_bytes());
                put(img, off, &w);
                let patch = match rev {
                    None => "None".to_string(),
                    Some(r) => format!("Some({r})"),
                };
                ctx.text(&join(&path, "major"), format!("{number:?}"), tag);
                ctx.text(&join(&path, "minor"), format!("{:?}", letter as char), tag);
                ctx.text(&join(&path, "patch"), patch, tag);
            },
            Kind::Ipv4 => {
                let v = int_value(ctx, &path, 4, None) as u32;
                put(img, off, &v.to_le_bytes());
                // octet order is not pinned down by InSim.txt: round-trip only
            },
            Kind::Nib { lo_path } => {
                let lo_full = join(prefix, lo_path);
                let (hi, lo) = match ctx.pick(&path, 4) {
                    Pick::Zero => (0u8, 0u8),
                    Pick::Nth(k) => [(15, 0), (0, 15), (5, 10), (1, 1)][k],
                    Pick::Random => {
                        let b = ctx.t().u8();
                        (b >> 4, b & 15)
                    },
                };
                put(img, off, &[hi << 4 | lo]);
                ctx.text(&path, hi.to_string(), tag);
                ctx.text(&lo_full, lo.to_string(), tag);
            },
            Kind::NibHi => {
                let v = match ctx.pick(&path, 3) {
                    Pick::Zero => 0u8,
                    Pick::Nth(k) => [1u8, 15, 8][k],
                    Pick::Random => ctx.t().u8() & 15,
                };
                put(img, off, &[v << 4]);
                ctx.text(&path, v.to_string(), tag);
            },
            Kind::Array { n, stride, fields } => {
                for i in 0..*n {
                    let p = format!("{path}[{i}]");
                    self.fields(ctx, img, fields, off + i * stride, &p);
                }
            },
            Kind::Struct { fields } => self.fields(ctx, img, fields, off, &path),
            Kind::Counted { count_at, stride, max, padto4, fields } => {
                let fit = (ctx.mode_limit.saturating_sub(off)) / stride;
                let top = (*max).min(fit).min(255);
                // a one-hot target inside the collection needs that element to exist
                let target_inside = ctx
                    .target
                    .as_ref()
                    .and_then(|(t, _)| t.strip_prefix(&format!("{path}[")).and_then(|r| r.split(']').next().unwrap().parse::<usize>().ok()));
                let collecting = ctx.collect.is_some();
                let n = match ctx.pick(&path, 5) {
                    Pick::Zero => {
                        if collecting {
                            1
                        } else {
                            target_inside.map(|i| i + 1).unwrap_or(0)
                        }
                    },
                    Pick::Nth(k) => [1, 2, 3, top.saturating_sub(1), top][k].min(top),
                    Pick::Random => {
                        let t = ctx.t();
                        match t.below(6) {
                            0 => 0,
                            1 => 1,
                            2 => top,
                            3 => (1 + 2 * t.below(4)).min(top), // odd
                            _ => t.below(top + 1),
                        }
                    },
                };
                put(img, *count_at, &[n as u8]);
                let mut end = off + n * stride;
                for i in 0..n {
                    let p = format!("{path}[{i}]");
                    self.fields(ctx, img, fields, off + i * stride, &p);
                }
                if *padto4 && end % 4 != 0 {
                    end = (end + 3) & !3;
                    ctx.label.push("odd-count-pad".into());
                }
                if img.len() < end {
                    img.resize(end, 0);
                }
                ctx.expect(&path, Want::Len(n), tag);
                if n > 0 {
                    ctx.label.push(format!("n={}", if n == top { "max".to_string() } else if n > 2 { "many".into() } else { n.to_string() }));
                }
            },
            Kind::Small => self.small(ctx, img, off, &path, tag),
            Kind::Cim => self.cim(ctx, img, off, &path, tag),
            Kind::MsoText { max } => self.msotext(ctx, img, off, prefix, *max, tag),
            Kind::CarSet => {
                let mask = self.carset_mask(ctx, &path);
                put(img, off, &mask.to_le_bytes());
                ctx.expect(&join(&path, "inner"), Want::Set(self.car_names(mask)), tag);
            },
            Kind::ModSet { count_at, max } => {
                let fit = (ctx.mode_limit.saturating_sub(off)) / 4;
                let top = (*max).min(fit);
                // ids a peer may legally send but that look like something else: zero, a built-in car's code, an
                // unknown built-in-style code (the field is an opaque 32-bit skin id)
                const SPECIAL: [u32; 4] = [0, 0x0047_5258, 0x0043_4241, 0x004d_4246];
                let mut special_from: Option<usize> = None;
                let n = match ctx.pick(&path, 5) {
                    Pick::Zero => 0,
                    Pick::Nth(4) => {
                        special_from = Some(0);
                        4.min(top)
                    },
                    Pick::Nth(k) => [1, 2, top - 1, top][k],
                    Pick::Random => {
                        let t = ctx.t();
                        if t.below(4) == 0 {
                            special_from = Some(t.below(3));
                        }
                        match t.below(4) {
                            0 => 0,
                            1 => top,
                            _ => t.below(top + 1),
                        }
                    },
                };
                put(img, *count_at, &[n as u8]);
                let mut names = vec![];
                for i in 0..n {
                    let id = match (special_from, ctx.tape.as_mut()) {
                        (Some(from), _) if i >= from && i - from < SPECIAL.len() => SPECIAL[i - from],
                        (_, Some(t)) => mod_id(t, i),
                        (_, None) => 0x0100_0000 | ((i as u32 + 1) << 8) | i as u32,
                    };
                    put(img, off + 4 * i, &id.to_le_bytes());
                    names.push(format!("MOD({:06X})", id));
                }
                if img.len() < off {
                    img.resize(off, 0);
                }
                ctx.expect(&path, Want::Seq(names), tag);
            },
            Kind::IpSet { count_at, max } => {
                let fit = (ctx.mode_limit.saturating_sub(off)) / 4;
                let top = (*max).min(fit);
                let n = match ctx.pick(&path, 4) {
                    Pick::Zero => 0,
                    Pick::Nth(k) => [1, 2, top - 1, top][k],
                    Pick::Random => {
                        let t = ctx.t();
                        match t.below(4) {
                            0 => 0,
                            1 => top,
                            _ => t.below(top + 1),
                        }
                    },
                };
                put(img, *count_at, &[n as u8]);
                for i in 0..n {
                    let id = match ctx.tape.as_mut() {
                        Some(t) => mod_id(t, i),
                        None => 0x0a00_0000 | ((i as u32 + 1) << 8) | i as u32,
                    };
                    put(img, off + 4 * i, &id.to_le_bytes());
                }
                if img.len() < off {
                    img.resize(off, 0);
                }
                ctx.expect(&path, Want::Len(n), &Tag::Sure);
            },
        }
    }

    fn car_names(&self, mask: u32) -> Vec<String> {
        self.spec.flags["CarSet"].1.iter().filter(|d| mask >> d.1 & 1 == 1).map(|d| d.0.clone()).collect()
    }

    fn carset_mask(&self, ctx: &mut Ctx, path: &str) -> u32 {
        let defs = &self.spec.flags["CarSet"].1;
        let all = defs.iter().fold(0u32, |a, d| a | 1 << d.1);
        match ctx.pick(path, defs.len() + 1) {
            Pick::Zero => 0,
            Pick::Nth(k) if k < defs.len() => 1 << defs[k].1,
            Pick::Nth(_) => all,
            Pick::Random => {
                let t = ctx.t();
                match t.below(5) {
                    0 => 0,
                    1 => all,
                    2 => 1 << defs[t.below(defs.len())].1,
                    _ => t.u32() & all,
                }
            },
        }
    }

    /// IS_SMALL: SubT @off, UVal @off+1
    fn small(&self, ctx: &mut Ctx, img: &mut Vec<u8>, off: usize, path: &str, tag: &Tag) {
        // (subtype number, name, list of one-hot UVal choices)
        let one_hot: Vec<(u8, u32)> = vec![
            (0, 0),
            (1, 1), (1, 100), (1, 0xffff_ffff), (2, 1), (2, 0x1999_9999), (2, 0x8000_0000),
            (3, 0), (3, 1), (3, 2), (3, 3),
            (4, 0), (4, 1),
            (5, 1), (5, 0xffff_ffff), (6, 1), (6, 360_000), (6, 0xffff_fff7),
            (7, 1), (7, 40), (7, 8000), (7, 0xffff_ffff),
            (8, 0), (8, 1), (8, 1 << 19), (8, 0xf_ffff),
            // LCS: set-bit | value
            (9, 0), (9, 1), (9, 1 | 1 << 8), (9, 1 | 2 << 8), (9, 1 | 3 << 8), (9, 2), (9, 2 | 1 << 10), (9, 4), (9, 4 | 1 << 11),
            (9, 8), (9, 8 | 1 << 16), (9, 8 | 5 << 16), (9, 0x10), (9, 0x10 | 1 << 20), (9, 0x10 | 2 << 20),
            // LCL
            (10, 0), (10, 1), (10, 1 | 1 << 16), (10, 1 | 3 << 16), (10, 4), (10, 4 | 1 << 18), (10, 4 | 2 << 18), (10, 4 | 3 << 18),
            (10, 0x10), (10, 0x10 | 1 << 20), (10, 0x20), (10, 0x20 | 1 << 21), (10, 0x40), (10, 0x40 | 1 << 22),
        ];
        let (st, uval) = match ctx.pick(path, one_hot.len()) {
            Pick::Zero => (0u8, 0u32),
            Pick::Nth(k) => one_hot[k],
            Pick::Random => {
                let t = ctx.t();
                let st = t.below(11) as u8;
                let uval = match st {
                    0 => 0,
                    1 | 2 | 5 | 6 | 7 => match t.below(6) {
                        0 => 0,
                        1 => 1,
                        2 => 0xffff_ffff,
                        3 => 0x1999_9999 + t.below(3) as u32,
                        _ => t.u32(),
                    },
                    3 => t.below(4) as u32,
                    4 => t.below(2) as u32,
                    8 => {
                        let all = 0xf_ffff;
                        match t.below(4) {
                            0 => 0,
                            1 => all,
                            _ => t.u32() & all,
                        }
                    },
                    9 => {
                        let mut v = 0u32;
                        let r = t.u32();
                        if r & 1 != 0 {
                            v |= 1 | ((r >> 8) & 3) << 8;
                        }
                        if r & 2 != 0 {
                            v |= 2 | ((r >> 10) & 1) << 10;
                        }
                        if r & 4 != 0 {
                            v |= 4 | ((r >> 11) & 1) << 11;
                        }
                        if r & 8 != 0 {
                            v |= 8 | (((r >> 16) & 7).min(5)) << 16;
                        }
                        if r & 16 != 0 {
                            v |= 0x10 | (((r >> 20) & 3).min(2)) << 20;
                        }
                        v
                    },
                    _ => {
                        let mut v = 0u32;
                        let r = t.u32();
                        if r & 1 != 0 {
                            v |= 1 | ((r >> 16) & 3) << 16;
                        }
                        if r & 4 != 0 {
                            v |= 4 | ((r >> 18) & 3) << 18;
                        }
                        if r & 0x10 != 0 {
                            v |= 0x10 | ((r >> 20) & 1) << 20;
                        }
                        if r & 0x20 != 0 {
                            v |= 0x20 | ((r >> 21) & 1) << 21;
                        }
                        if r & 0x40 != 0 {
                            v |= 0x40 | ((r >> 22) & 1) << 22;
                        }
                        v
                    },
                };
                (st, uval)
            },
        };
        put(img, off, &[st]);
        put(img, off + 1, &uval.to_le_bytes());
        ctx.label.push(format!("small-{st}"));
        let unit = Tag::Unit;
        match st {
            0 => ctx.text(path, "None".into(), tag),
            1 => ctx.text(path, format!("Ssp({:?})", Duration::from_millis(uval as u64 * 10)), &unit),
            2 => ctx.text(path, format!("Ssg({:?})", Duration::from_millis(uval as u64 * 10)), &unit),
            3 => ctx.text(path, format!("Vta({})", ["None", "End", "Restart", "Qualify"][uval as usize]), tag),
            4 => ctx.text(path, format!("Tms({})", uval != 0), tag),
            5 => ctx.text(path, format!("Stp({:?})", Duration::from_millis(uval as u64 * 10)), tag),
            6 => ctx.text(path, format!("Rtp({:?})", Duration::from_millis(uval as u64 * 10)), tag),
            7 => ctx.text(path, format!("Nli({:?})", Duration::from_millis(uval as u64)), tag),
            8 => ctx.expect(&join(path, "inner"), Want::Set(self.car_names(uval)), tag),
            _ => ctx.expect(path, Want::SmallBits(uval), tag),
        }
    }

    /// IS_CIM: Mode @off, SubMode @off+1, SelType @off+2
    fn cim(&self, ctx: &mut Ctx, img: &mut Vec<u8>, off: usize, path: &str, tag: &Tag) {
        const NORMAL: [&str; 5] = ["Normal", "WheelTemps", "WheelDamage", "LiveSettings", "PitInstructions"];
        const GARAGE: [&str; 9] = ["Info", "Colours", "BrakeTC", "Susp", "Steer", "Drive", "Tyres", "Aero", "Pass"];
        const SHIFTU: [&str; 3] = ["Plain", "Buttons", "Edit"];
        let mut all: Vec<(u8, u8, u8)> = vec![];
        for s in 0..5 {
            all.push((0, s, 0));
        }
        all.push((1, 0, 0));
        all.push((2, 0, 0));
        for s in 0..9 {
            all.push((3, s, 0));
        }
        all.push((4, 0, 0));
        all.push((5, 0, 0));
        for s in 0..3 {
            all.push((6, s, 0));
            all.push((6, s, 149));
        }
        let (m, s, sel) = match ctx.pick(path, all.len()) {
            Pick::Zero => (0, 0, 0),
            Pick::Nth(k) => all[k],
            Pick::Random => {
                let t = ctx.t();
                let mut x = all[t.below(all.len())];
                if x.0 == 6 {
                    x.2 = t.u8();
                }
                x
            },
        };
        put(img, off, &[m, s, sel]);
        let r = match m {
            0 => format!("Normal({})", NORMAL[s as usize]),
            1 => "Options".into(),
            2 => "HostOptions".into(),
            3 => format!("Garage({})", GARAGE[s as usize]),
            4 => "CarSelect".into(),
            5 => "TrackSelect".into(),
            _ => format!("ShiftU {{ submode: {}, seltype: {sel} }}", SHIFTU[s as usize]),
        };
        ctx.label.push(format!("cim-{m}"));
        ctx.text(path, r, tag);
    }

    /// IS_MSO: TextStart @off, Msg from off+1 to the end of the frame (4-aligned, NUL terminated)
    fn msotext(&self, ctx: &mut Ctx, img: &mut Vec<u8>, off: usize, prefix: &str, max: usize, tag: &Tag) {
        let ts_path = join(prefix, "textstart");
        let msg_path = join(prefix, "msg");
        let has_name = match ctx.pick(&ts_path, 2) {
            Pick::Zero => false,
            Pick::Nth(_) => true,
            Pick::Random => ctx.t().below(2) == 1,
        };
        let (name_b, name_s, name_ascii) = if has_name {
            // "name : " style prefix, up to 40 bytes
            let (mut b, mut s, a) = gen_text(ctx, &join(prefix, "msg#name"), 24, false, 1);
            b.extend_from_slice(b" : ");
            s.push_str(" : ");
            (b, s, a)
        } else {
            (vec![], String::new(), true)
        };
        let room = max - 1 - name_b.len();
        let (msg_b, msg_s, msg_ascii) = gen_text(ctx, &join(prefix, "msg#text"), room, false, 1);
        let mut text = name_b.clone();
        text.extend_from_slice(&msg_b);
        let padded = (text.len() / 4 + 1) * 4;
        let mut field = text.clone();
        field.resize(padded.min(max), 0);
        put(img, off, &[name_b.len() as u8]);
        put(img, off + 1, &field);
        let full = format!("{name_s}{msg_s}");
        let ascii = name_ascii && msg_ascii;
        ctx.texts.push(TextRange { start: off + 1, end: off + 1 + field.len(), text: full.clone(), ascii, raw: false });
        if !ascii {
            // TextStart is re-derived from the encoder's own byte count: only comparable for ASCII
            ctx.encode_comparable = false;
        }
        if text.len() % 4 == 0 {
            // the crate's canonical form carries no terminator when the text is a multiple of 4 long
            ctx.encode_comparable = false;
            ctx.label.push("mso-len-multiple-of-4".into());
        }
        ctx.text(&ts_path, name_s.len().to_string(), tag);
        ctx.text(&msg_path, format!("{full:?}"), tag);
        if has_name {
            ctx.label.push("mso-with-name".into());
        }
    }
}

fn limit(mode: &Mode) -> usize {
    match mode {
        Mode::Uncompressed => 255,
        Mode::Compressed => 1020,
    }
}

fn finish(p: &PacketSpec, mode: &Mode, mut img: Vec<u8>, ctx: Ctx) -> Inst {
    if img.len() < p.min {
        img.resize(p.min, 0);
    }
    let len = img.len();
    img[0] = match mode {
        Mode::Uncompressed => len as u8,
        Mode::Compressed => (len / 4) as u8,
    };
    img[1] = p.ty;
    let mut label = ctx.label.clone();
    label.sort();
    label.dedup();
    Inst {
        variant: p.variant.clone(),
        ty: p.ty,
        image: img,
        expects: ctx.expects,
        encode_comparable: ctx.encode_comparable,
        texts: ctx.texts,
        label: label.join(","),
        spans: ctx.spans,
    }
}

/// Build one instance of packet kind `p` from an entropy tape.
pub fn from_tape(p: &PacketSpec, mode: &Mode, tape: &[u8], allow_codepages: bool) -> Inst {
    let mut ctx = Ctx {
        tape: Some(Tape::new(tape)),
        target: None,
        target2: None,
        mode_limit: limit(mode),
        expects: vec![],
        texts: vec![],
        encode_comparable: true,
        label: vec![],
        collect: None,
        allow_codepages,
        spans: vec![],
    };
    let g = Gen { spec: spec() };
    let mut img = vec![0u8; 2];
    g.fields(&mut ctx, &mut img, &p.fields, 0, "");
    finish(p, mode, img, ctx)
}

/// The one-hot targets of a packet kind: (leaf path, number of choices)
pub fn targets(p: &PacketSpec) -> Vec<(String, usize)> {
    let mut ctx = Ctx {
        tape: None,
        target: None,
        target2: None,
        mode_limit: 1020,
        expects: vec![],
        texts: vec![],
        encode_comparable: true,
        label: vec![],
        collect: Some(vec![]),
        allow_codepages: true,
        spans: vec![],
    };
    let g = Gen { spec: spec() };
    let mut img = vec![0u8; 2];
    g.fields(&mut ctx, &mut img, &p.fields, 0, "");
    ctx.collect.unwrap()
}

/// Build the instance where two leaves take chosen values at once and everything else is zero / first enumerant.
pub fn two_hot(p: &PacketSpec, mode: &Mode, a: (&str, usize), b: (&str, usize)) -> Inst {
    let mut ctx = Ctx {
        tape: None,
        target: Some((a.0.to_string(), a.1)),
        target2: Some((b.0.to_string(), b.1)),
        mode_limit: limit(mode),
        expects: vec![],
        texts: vec![],
        encode_comparable: true,
        label: vec![],
        collect: None,
        allow_codepages: true,
        spans: vec![],
    };
    let g = Gen { spec: spec() };
    let mut img = vec![0u8; 2];
    g.fields(&mut ctx, &mut img, &p.fields, 0, "");
    finish(p, mode, img, ctx)
}

/// Build the instance where leaf `path` takes its `k`-th choice and everything else is zero / first enumerant.
pub fn one_hot(p: &PacketSpec, mode: &Mode, path: Option<(&str, usize)>) -> Inst {
    let mut ctx = Ctx {
        tape: None,
        target: Some(path.map(|(p, k)| (p.to_string(), k)).unwrap_or(("\u{0}none".into(), 0))),
        target2: None,
        mode_limit: limit(mode),
        expects: vec![],
        texts: vec![],
        encode_comparable: true,
        label: vec![],
        collect: None,
        allow_codepages: true,
        spans: vec![],
    };
    let g = Gen { spec: spec() };
    let mut img = vec![0u8; 2];
    g.fields(&mut ctx, &mut img, &p.fields, 0, "");
    finish(p, mode, img, ctx)
}
