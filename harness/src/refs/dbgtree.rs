//! Parser for Rust `{:?}` renderings (derived Debug): turns
//! `Npl { reqi: RequestId(1), tyres: [R1, R2], pname: "a\"b" }` into a tree so that the value at a
//! path (`tyres[1]`, `a.info`) can be compared with the rendering the specification table expects.

#[derive(Debug, Clone, PartialEq)]
pub enum Node {
    /// `Name { a: .., b: .. }`
    Struct(String, Vec<(String, Node)>),
    /// `Name(a, b)`
    Tuple(String, Vec<Node>),
    /// `[a, b]`
    List(Vec<Node>),
    /// `{a, b}` (sets; maps are not needed)
    Set(Vec<Node>),
    /// anything else, verbatim (numbers, `"strings"`, `'c'`, `1.5s`, `A | B`, `NaN`, identifiers)
    Atom(String),
}

pub struct Parser<'a> {
    s: &'a [u8],
    i: usize,
}

impl<'a> Parser<'a> {
    pub fn new(s: &'a str) -> Self {
        Parser { s: s.as_bytes(), i: 0 }
    }

    fn ws(&mut self) {
        while self.i < self.s.len() && self.s[self.i] == b' ' {
            self.i += 1;
        }
    }

    fn peek(&self) -> Option<u8> {
        self.s.get(self.i).copied()
    }

    /// read one atom-ish token run up to a top-level delimiter, honouring string / char literals
    fn raw_until_delim(&mut self) -> String {
        let start = self.i;
        while self.i < self.s.len() {
            match self.s[self.i] {
                b'"' => self.skip_string(),
                b'\'' => self.skip_char(),
                b',' | b')' | b']' | b'}' | b'(' | b'{' | b'[' => break,
                _ => self.i += 1,
            }
        }
        String::from_utf8_lossy(&self.s[start..self.i]).trim_end().to_string()
    }

    fn skip_string(&mut self) {
        // at opening quote
        self.i += 1;
        while self.i < self.s.len() {
            match self.s[self.i] {
                b'\\' => self.i += 2,
                b'"' => {
                    self.i += 1;
                    return;
                },
                _ => self.i += 1,
            }
        }
    }

    fn skip_char(&mut self) {
        // a char literal: '\''  '\\'  'x'  '\u{..}' ; a lone apostrophe cannot occur in derived Debug
        let save = self.i;
        self.i += 1;
        let mut n = 0;
        while self.i < self.s.len() && n < 12 {
            match self.s[self.i] {
                b'\\' => self.i += 2,
                b'\'' => {
                    self.i += 1;
                    return;
                },
                _ => self.i += 1,
            }
            n += 1;
        }
        self.i = save + 1;
    }

    fn list_until(&mut self, close: u8) -> Result<Vec<Node>, String> {
        let mut v = vec![];
        loop {
            self.ws();
            if self.peek() == Some(close) {
                self.i += 1;
                return Ok(v);
            }
            v.push(self.node()?);
            self.ws();
            match self.peek() {
                Some(b',') => self.i += 1,
                Some(c) if c == close => {},
                other => return Err(format!("expected , or {} at {} got {:?}", close as char, self.i, other.map(|c| c as char))),
            }
        }
    }

    pub fn node(&mut self) -> Result<Node, String> {
        self.ws();
        match self.peek() {
            None => Err("unexpected end".into()),
            Some(b'[') => {
                self.i += 1;
                Ok(Node::List(self.list_until(b']')?))
            },
            Some(b'{') => {
                self.i += 1;
                Ok(Node::Set(self.list_until(b'}')?))
            },
            _ => {
                let head = self.raw_until_delim();
                match self.peek() {
                    Some(b'(') => {
                        self.i += 1;
                        // flags render as `Name(A | B)`: a single atom with bars; list_until handles it as one element
                        let items = self.list_until(b')')?;
                        Ok(Node::Tuple(head, items))
                    },
                    Some(b'{') => {
                        self.i += 1;
                        let mut fields = vec![];
                        loop {
                            self.ws();
                            if self.peek() == Some(b'}') {
                                self.i += 1;
                                break;
                            }
                            // field name up to ':'
                            let start = self.i;
                            while self.i < self.s.len() && self.s[self.i] != b':' {
                                self.i += 1;
                            }
                            let name = String::from_utf8_lossy(&self.s[start..self.i]).trim().to_string();
                            self.i += 1;
                            let val = self.node()?;
                            fields.push((name, val));
                            self.ws();
                            if self.peek() == Some(b',') {
                                self.i += 1;
                            }
                        }
                        Ok(Node::Struct(head, fields))
                    },
                    _ => Ok(Node::Atom(head)),
                }
            },
        }
    }
}

pub fn parse(s: &str) -> Result<Node, String> {
    let mut p = Parser::new(s);
    let n = p.node()?;
    p.ws();
    if p.i != s.len() {
        return Err(format!("trailing text at {}: {:?}", p.i, &s[p.i..]));
    }
    Ok(n)
}

impl Node {
    /// canonical text of this node (equals the original substring up to spacing)
    pub fn text(&self) -> String {
        match self {
            Node::Atom(a) => a.clone(),
            Node::Tuple(n, v) => format!("{n}({})", v.iter().map(|x| x.text()).collect::<Vec<_>>().join(", ")),
            Node::List(v) => format!("[{}]", v.iter().map(|x| x.text()).collect::<Vec<_>>().join(", ")),
            Node::Set(v) => format!("{{{}}}", v.iter().map(|x| x.text()).collect::<Vec<_>>().join(", ")),
            Node::Struct(n, f) => {
                if f.is_empty() {
                    n.clone()
                } else {
                    format!("{n} {{ {} }}", f.iter().map(|(k, v)| format!("{k}: {}", v.text())).collect::<Vec<_>>().join(", "))
                }
            },
        }
    }

    /// canonical text where the elements of sets are sorted (set equality does not depend on insertion order)
    pub fn canon(&self) -> String {
        match self {
            Node::Atom(a) => a.clone(),
            Node::Tuple(n, v) => format!("{n}({})", v.iter().map(|x| x.canon()).collect::<Vec<_>>().join(", ")),
            Node::List(v) => format!("[{}]", v.iter().map(|x| x.canon()).collect::<Vec<_>>().join(", ")),
            Node::Set(v) => {
                let mut items: Vec<String> = v.iter().map(|x| x.canon()).collect();
                items.sort();
                format!("{{{}}}", items.join(", "))
            },
            Node::Struct(n, f) => format!("{n} {{ {} }}", f.iter().map(|(k, v)| format!("{k}: {}", v.canon())).collect::<Vec<_>>().join(", ")),
        }
    }

    /// follow a path like `a.info`, `tyres[2]`, `info[3].xyz.x`. Tuple payloads are transparent for
    /// single-element tuples when a named step follows (e.g. the `Packet` variant wrapper `Npl(Npl {..})`).
    pub fn get(&self, path: &str) -> Option<&Node> {
        let mut cur = self;
        if path.is_empty() || path == "." {
            return Some(cur);
        }
        for step in path.split('.') {
            if step.is_empty() {
                continue;
            }
            let (name, idx) = match step.find('[') {
                Some(p) => (&step[..p], Some(step[p + 1..step.len() - 1].parse::<usize>().ok()?)),
                None => (step, None),
            };
            if !name.is_empty() {
                loop {
                    match cur {
                        Node::Struct(_, fields) => {
                            cur = &fields.iter().find(|(k, _)| k == name)?.1;
                            break;
                        },
                        Node::Tuple(_, items) if items.len() == 1 => cur = &items[0],
                        _ => return None,
                    }
                }
            }
            if let Some(i) = idx {
                match cur {
                    Node::List(v) | Node::Set(v) => cur = v.get(i)?,
                    Node::Tuple(_, v) => cur = v.get(i)?,
                    _ => return None,
                }
            }
        }
        Some(cur)
    }

    /// name of the outermost variant / struct
    pub fn head(&self) -> &str {
        match self {
            Node::Struct(n, _) | Node::Tuple(n, _) => n,
            Node::Atom(a) => a,
            _ => "",
        }
    }

    /// every field name in the tree (used to detect fields the spec table does not know)
    pub fn leaf_paths(&self, prefix: &str, out: &mut Vec<String>) {
        match self {
            Node::Struct(_, f) => {
                for (k, v) in f {
                    let p = if prefix.is_empty() { k.clone() } else { format!("{prefix}.{k}") };
                    v.leaf_paths(&p, out);
                }
            },
            Node::List(v) => {
                for (i, x) in v.iter().enumerate() {
                    x.leaf_paths(&format!("{prefix}[{i}]"), out);
                }
            },
            Node::Tuple(_, v) if v.len() == 1 && matches!(v[0], Node::Struct(..)) => v[0].leaf_paths(prefix, out),
            _ => out.push(prefix.to_string()),
        }
    }
}

#[cfg(test)]
mod tests {
    use super::*;
    #[test]
    fn basic() {
        let n = parse("Npl(Npl { reqi: RequestId(1), ptype: PlayerType(AI | REMOTE), pname: \"a\\\"b{c}, \", tyres: [R1, NoChange], c: '\\'', s: {XFG, FBM}, d: 1.5s, m: Normal(Normal), sh: ShiftU { submode: Edit, seltype: 9 } })").unwrap();
        assert_eq!(n.get("reqi").unwrap().text(), "RequestId(1)");
        assert_eq!(n.get("ptype").unwrap().text(), "PlayerType(AI | REMOTE)");
        assert_eq!(n.get("pname").unwrap().text(), "\"a\\\"b{c}, \"");
        assert_eq!(n.get("tyres[1]").unwrap().text(), "NoChange");
        assert_eq!(n.get("c").unwrap().text(), "'\\''");
        assert_eq!(n.get("s").unwrap().text(), "{XFG, FBM}");
        assert_eq!(n.get("sh.seltype").unwrap().text(), "9");
        assert_eq!(n.head(), "Npl");
    }
}
