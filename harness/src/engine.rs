//! Engine: case runners (proptest / enumeration, multi-threaded), outcome capture,
//! evidence, known findings, replay files, counting allocator.

use std::alloc::{GlobalAlloc, Layout, System};
use std::cell::Cell;
use std::collections::{BTreeMap, HashSet};
use std::fmt::Debug;
use std::hash::{Hash, Hasher};
use std::panic::{catch_unwind, AssertUnwindSafe};
use std::sync::atomic::{AtomicBool, Ordering};
use std::sync::Mutex;
use std::time::Instant;

use proptest::strategy::{Strategy, ValueTree};
use proptest::test_runner::{Config, RngSeed, TestCaseError, TestError, TestRunner};
use serde_json::{json, Value};

pub const VERIF_ROOT: &str = "/verif";
pub const THREADS: usize = 16;

// ---------------------------------------------------------------------------------------
// counting allocator (C04 / C17 "allocates beyond what the input can justify")
// ---------------------------------------------------------------------------------------

pub struct CountingAlloc;

thread_local! {
    static A_ON: Cell<bool> = const { Cell::new(false) };
    static A_CUR: Cell<usize> = const { Cell::new(0) };
    static A_PEAK: Cell<usize> = const { Cell::new(0) };
    static A_MAXREQ: Cell<usize> = const { Cell::new(0) };
}

unsafe impl GlobalAlloc for CountingAlloc {
    unsafe fn alloc(&self, l: Layout) -> *mut u8 {
        let _ = A_ON.try_with(|on| {
            if on.get() {
                let _ = A_CUR.try_with(|c| {
                    let v = c.get() + l.size();
                    c.set(v);
                    let _ = A_PEAK.try_with(|p| {
                        if v > p.get() {
                            p.set(v)
                        }
                    });
                });
                let _ = A_MAXREQ.try_with(|m| {
                    if l.size() > m.get() {
                        m.set(l.size())
                    }
                });
            }
        });
        System.alloc(l)
    }
    unsafe fn dealloc(&self, p: *mut u8, l: Layout) {
        let _ = A_ON.try_with(|on| {
            if on.get() {
                let _ = A_CUR.try_with(|c| c.set(c.get().saturating_sub(l.size())));
            }
        });
        System.dealloc(p, l)
    }
    unsafe fn realloc(&self, p: *mut u8, l: Layout, new: usize) -> *mut u8 {
        let _ = A_ON.try_with(|on| {
            if on.get() {
                let _ = A_CUR.try_with(|c| {
                    let v = c.get().saturating_sub(l.size()) + new;
                    c.set(v);
                    let _ = A_PEAK.try_with(|pk| {
                        if v > pk.get() {
                            pk.set(v)
                        }
                    });
                });
                let _ = A_MAXREQ.try_with(|m| {
                    if new > m.get() {
                        m.set(new)
                    }
                });
            }
        });
        System.realloc(p, l, new)
    }
}

/// Run `f` measuring (peak live bytes above the starting level, largest single request).
pub fn measure_alloc<T>(f: impl FnOnce() -> T) -> (T, usize, usize) {
    A_CUR.with(|c| c.set(0));
    A_PEAK.with(|c| c.set(0));
    A_MAXREQ.with(|c| c.set(0));
    A_ON.with(|c| c.set(true));
    let r = f();
    A_ON.with(|c| c.set(false));
    (r, A_PEAK.with(|c| c.get()), A_MAXREQ.with(|c| c.get()))
}

// ---------------------------------------------------------------------------------------
// panic capture
// ---------------------------------------------------------------------------------------

thread_local! {
    static LAST_PANIC: std::cell::RefCell<String> = const { std::cell::RefCell::new(String::new()) };
    static GUARD_DEPTH: Cell<u32> = const { Cell::new(0) };
}

pub fn install_panic_hook() {
    std::panic::set_hook(Box::new(|info| {
        let guarded = GUARD_DEPTH.try_with(|d| d.get() > 0).unwrap_or(false);
        if !guarded {
            // a panic outside a guarded call is a harness bug: show it
            eprintln!("HARNESS PANIC: {}", describe_panic(info));
        }
        note_panic(info);
    }));
}

fn describe_panic(info: &std::panic::PanicHookInfo<'_>) -> String {
    let msg = if let Some(s) = info.payload().downcast_ref::<&str>() {
        s.to_string()
    } else if let Some(s) = info.payload().downcast_ref::<String>() {
        s.clone()
    } else {
        "<non-string panic>".to_string()
    };
    let loc = info.location().map(|l| format!("{}:{}", l.file(), l.line())).unwrap_or_default();
    format!("{msg} @ {loc}")
}

/// remember the panic message for `guard` (used by the harness' own hook and by the fuzz targets' hook)
pub fn note_panic(info: &std::panic::PanicHookInfo<'_>) {
    let text = describe_panic(info);
    let _ = LAST_PANIC.try_with(|p| {
        if let Ok(mut p) = p.try_borrow_mut() {
            *p = text;
        }
    });
}

/// Call code under test; a panic becomes `Err(message)`.
pub fn guard<T>(f: impl FnOnce() -> T) -> Result<T, String> {
    GUARD_DEPTH.with(|d| d.set(d.get() + 1));
    let r = catch_unwind(AssertUnwindSafe(f));
    GUARD_DEPTH.with(|d| d.set(d.get().saturating_sub(1)));
    match r {
        Ok(v) => Ok(v),
        Err(_) => Err(LAST_PANIC.with(|p| p.borrow().clone())),
    }
}

// ---------------------------------------------------------------------------------------
// failures / evidence
// ---------------------------------------------------------------------------------------

#[derive(Debug, Clone)]
pub struct Fail {
    /// root-cause classifier, used to match known findings
    pub sig: String,
    pub msg: String,
    /// optional smaller case to store in the replay file instead of the generated one
    /// (used by block-wise enumerations to name the single failing point)
    pub min_case: Option<Value>,
}

impl Fail {
    pub fn new(sig: impl Into<String>, msg: impl Into<String>) -> Self {
        Fail {
            sig: sig.into(),
            msg: msg.into(),
            min_case: None,
        }
    }
    pub fn with_case(mut self, v: Value) -> Self {
        self.min_case = Some(v);
        self
    }
}

#[macro_export]
macro_rules! fail {
    ($sig:expr, $($arg:tt)*) => {
        return Err($crate::engine::Fail::new($sig, format!($($arg)*)))
    };
}

#[macro_export]
macro_rules! ensure {
    ($cond:expr, $sig:expr, $($arg:tt)*) => {
        if !($cond) {
            return Err($crate::engine::Fail::new($sig, format!($($arg)*)));
        }
    };
}

pub fn hash_of<T: Hash + ?Sized>(t: &T) -> u64 {
    let mut h = std::collections::hash_map::DefaultHasher::new();
    t.hash(&mut h);
    h.finish()
}

/// Per-thread evidence accumulator handed to every check call.
#[derive(Default)]
pub struct Local {
    pub evaluations: u64,
    pub nontrivial_hashes: HashSet<u64>,
    /// non-trivial cases that are distinct by construction (complete enumerations)
    pub nontrivial_exact: u64,
    pub classes: BTreeMap<String, u64>,
    pub samples: Vec<Value>,
    pub sample_cap: usize,
    pub excluded_known: BTreeMap<String, u64>,
    pub frozen: bool,
    pub maxima: BTreeMap<String, u64>,
    pub minima: BTreeMap<String, u64>,
}

impl Local {
    pub fn new() -> Self {
        Local {
            sample_cap: 4,
            ..Default::default()
        }
    }
    #[inline]
    pub fn eval(&mut self) {
        if !self.frozen {
            self.evaluations += 1;
        }
    }
    #[inline]
    pub fn add_evals(&mut self, n: u64) {
        if !self.frozen {
            self.evaluations += n;
        }
    }
    #[inline]
    pub fn add_nontrivial_distinct(&mut self, n: u64) {
        if !self.frozen {
            self.nontrivial_exact += n;
        }
    }
    #[inline]
    pub fn nontrivial<T: Hash + ?Sized>(&mut self, t: &T) {
        if !self.frozen {
            self.nontrivial_hashes.insert(hash_of(t));
        }
    }
    #[inline]
    pub fn nontrivial_distinct(&mut self) {
        if !self.frozen {
            self.nontrivial_exact += 1;
        }
    }
    #[inline]
    pub fn class(&mut self, c: &str) {
        if !self.frozen {
            if let Some(v) = self.classes.get_mut(c) {
                *v += 1;
            } else {
                self.classes.insert(c.to_string(), 1);
            }
        }
    }
    pub fn class_n(&mut self, c: &str, n: u64) {
        if !self.frozen {
            *self.classes.entry(c.to_string()).or_insert(0) += n;
        }
    }
    pub fn max(&mut self, k: &str, v: u64) {
        if !self.frozen {
            let e = self.maxima.entry(k.to_string()).or_insert(0);
            if v > *e {
                *e = v
            }
        }
    }
    pub fn min(&mut self, k: &str, v: u64) {
        if !self.frozen {
            let e = self.minima.entry(k.to_string()).or_insert(u64::MAX);
            if v < *e {
                *e = v
            }
        }
    }
    /// keep a few sample cases (lazily rendered)
    pub fn sample(&mut self, f: impl FnOnce() -> Value) {
        if !self.frozen && self.samples.len() < self.sample_cap {
            self.samples.push(f());
        }
    }
    pub fn wants_sample(&self) -> bool {
        !self.frozen && self.samples.len() < self.sample_cap
    }
    fn merge(&mut self, o: Local) {
        self.evaluations += o.evaluations;
        self.nontrivial_hashes.extend(o.nontrivial_hashes);
        self.nontrivial_exact += o.nontrivial_exact;
        for (k, v) in o.classes {
            *self.classes.entry(k).or_insert(0) += v;
        }
        for (k, v) in o.excluded_known {
            *self.excluded_known.entry(k).or_insert(0) += v;
        }
        for (k, v) in o.maxima {
            let e = self.maxima.entry(k).or_insert(0);
            if v > *e {
                *e = v
            }
        }
        for (k, v) in o.minima {
            let e = self.minima.entry(k).or_insert(u64::MAX);
            if v < *e {
                *e = v
            }
        }
        for s in o.samples {
            if self.samples.len() < 8 {
                self.samples.push(s);
            }
        }
    }
}

/// One executable sub-check of a property ("part").
pub trait Part: Sync {
    type Case: Clone + Debug + Send + Sync;
    fn name(&self) -> &'static str;
    /// The oracle. Must be a pure function of the case and the code under test.
    fn check(&self, c: &Self::Case, ev: &mut Local) -> Result<(), Fail>;
    fn to_json(&self, c: &Self::Case) -> Value;
    fn from_json(&self, v: &Value) -> Option<Self::Case>;
}

pub trait DynPart: Sync {
    fn dyn_name(&self) -> &'static str;
    fn replay(&self, v: &Value) -> Result<Result<(), Fail>, String>;
}

impl<P: Part> DynPart for P {
    fn dyn_name(&self) -> &'static str {
        self.name()
    }
    fn replay(&self, v: &Value) -> Result<Result<(), Fail>, String> {
        // a case that only fails after other cases ran before it on the same thread (state kept in a thread-local or a static)
        // is stored with that history: {"history": [case, ...], "then": case}
        if let (Some(h), Some(last)) = (v.get("history").and_then(|h| h.as_array()), v.get("then")) {
            let mut cases = vec![];
            for x in h {
                cases.push(self.from_json(x).ok_or_else(|| format!("cannot parse a history case for part {}", self.name()))?);
            }
            let c = self.from_json(last).ok_or_else(|| format!("cannot parse case for part {}", self.name()))?;
            let noise = v.get("noise").and_then(|n| n.as_bool()).unwrap_or(false);
            return Ok(run_after(self, noise, &cases, &c));
        }
        let c = self
            .from_json(v)
            .ok_or_else(|| format!("cannot parse case for part {}", self.name()))?;
        Ok(in_fresh_thread(|| {
            let mut ev = Local::new();
            run_check(self, &c, &mut ev)
        }))
    }
}

/// run `f` on a thread of its own (pristine thread-local state)
pub fn in_fresh_thread<T: Send>(f: impl FnOnce() -> T + Send) -> T {
    std::thread::scope(|sc| sc.spawn(f).join().expect("check threads do not panic (run_check guards)"))
}

/// On a fresh thread: evaluate the history cases (their verdicts are ignored), then the case itself.
pub fn run_after_history<P: Part + ?Sized>(p: &P, history: &[P::Case], c: &P::Case) -> Result<(), Fail> {
    run_after(p, false, history, c)
}

/// On a fresh thread: the noise routine (if asked), the history cases (verdicts ignored), then the case itself.
pub fn run_after<P: Part + ?Sized>(p: &P, noise: bool, history: &[P::Case], c: &P::Case) -> Result<(), Fail> {
    in_fresh_thread(|| {
        let mut ev = Local::new();
        ev.frozen = true;
        if noise {
            crate::noise::run();
        }
        for h in history {
            let _ = run_check(p, h, &mut ev);
        }
        run_check(p, c, &mut ev).map_err(|f| {
            if history.is_empty() && !noise {
                f
            } else {
                Fail::new(
                    f.sig.clone(),
                    format!(
                        "[only after {}{} other case(s) of this part were evaluated on the same thread - state leaks between independent operations; alone the case passes] {}",
                        if noise { "unrelated (partly refused) operations on the public API and " } else { "" },
                        history.len(),
                        f.msg
                    ),
                )
            }
        })
    })
}

/// every worker runs the noise routine before its first case and again after this many cases
const NOISE_EVERY: u64 = 256;

/// how many of a worker's most recent cases are kept for the history of a failure that does not reproduce alone
const HISTORY: usize = 48;


/// check with a harness-level panic guard: a panic escaping the oracle itself is reported as
/// a failure with signature `harness-panic` (the oracles guard the code under test themselves
/// and classify those panics more precisely).
pub fn run_check<P: Part + ?Sized>(p: &P, c: &P::Case, ev: &mut Local) -> Result<(), Fail> {
    match guard(|| p.check(c, ev)) {
        Ok(r) => r,
        Err(m) => Err(Fail::new("unclassified-panic", format!("panic: {m}"))),
    }
}

#[derive(Debug, Clone)]
pub struct Known {
    pub property: String,
    pub sig: String,
    pub text: String,
}

#[derive(Debug, Clone)]
pub struct Violation {
    pub part: String,
    pub fail: Fail,
    pub replay_path: String,
}

#[derive(Clone, Copy, PartialEq, Eq, Debug)]
pub enum Tier {
    Quick,
    Thorough,
}

pub struct Run {
    pub id: &'static str,
    pub tier: Tier,
    pub seed: u64,
    pub total: Local,
    pub parts: Vec<Value>,
    pub violations: Vec<Violation>,
    pub known: Vec<Known>,
    pub known_hit: BTreeMap<String, u64>,
    pub rule: String,
    pub assumptions: Vec<String>,
    pub extra: BTreeMap<String, Value>,
    pub all_exhaustive: bool,
    /// set by the property when its complete-enumeration parts cover the property's whole input space
    pub claims_exhaustive: bool,
    pub any_part: bool,
    pub started: Instant,
    pub replay_only: bool,
    /// shrink budget for proptest parts (expensive cases such as socket sessions lower it)
    pub max_shrink_iters: u32,
    /// parts whose failure is the harness' own (it could not build or observe a case, or the verdict did not reproduce):
    /// reported as INCONCLUSIVE (exit 2), never as a violation
    pub inconclusive: Vec<String>,
}

impl Run {
    pub fn new(id: &'static str, tier: Tier, seed: u64) -> Self {
        let known = load_known(id);
        Run {
            id,
            tier,
            seed,
            total: Local::new(),
            parts: vec![],
            violations: vec![],
            known,
            known_hit: BTreeMap::new(),
            rule: String::new(),
            assumptions: vec![],
            extra: BTreeMap::new(),
            all_exhaustive: true,
            claims_exhaustive: false,
            any_part: false,
            started: Instant::now(),
            replay_only: false,
            max_shrink_iters: 4096,
            inconclusive: vec![],
        }
    }

    pub fn quick(&self) -> bool {
        self.tier == Tier::Quick
    }

    /// pick the budget for the tier
    pub fn budget(&self, quick: u64, thorough: u64) -> u64 {
        if self.quick() {
            quick
        } else {
            thorough
        }
    }

    fn is_known(&self, sig: &str) -> bool {
        self.known.iter().any(|k| k.sig == sig)
    }

    fn record_part(
        &mut self,
        name: &str,
        kind: &str,
        exhaustive: bool,
        local: Local,
        wall: f64,
        failure: Option<(Fail, Value)>,
    ) {
        self.any_part = true;
        if !exhaustive && kind == "complete enumeration" {
            self.all_exhaustive = false;
        }
        let nontrivial = local.nontrivial_hashes.len() as u64 + local.nontrivial_exact;
        for (k, v) in &local.excluded_known {
            *self.known_hit.entry(k.clone()).or_insert(0) += *v;
        }
        let mut pj = json!({
            "part": name,
            "generator": kind,
            "exhaustive": exhaustive,
            "evaluations": local.evaluations,
            "distinct_nontrivial": nontrivial,
            "classes": local.classes,
            "wall_s": (wall * 1000.0).round() / 1000.0,
        });
        if !local.maxima.is_empty() {
            pj["maxima"] = json!(local.maxima);
        }
        if !local.minima.is_empty() {
            pj["minima"] = json!(local.minima);
        }
        if !local.excluded_known.is_empty() {
            pj["excluded_known_findings"] = json!(local.excluded_known);
        }
        let failure = match failure {
            // the harness could not build / observe the case (a renamed field, a changed Debug rendering, ...) or the
            // verdict did not reproduce on the shrunk case: that says nothing about the property
            Some((f, case)) if f.sig.starts_with("harness") || f.sig == "flaky" => {
                let case = f.min_case.clone().unwrap_or(case);
                let path = write_replay(self.id, name, &case, &f);
                pj["inconclusive"] = json!({"signature": f.sig, "message": f.msg, "replay": path});
                println!("  [{}] part {name}: INCONCLUSIVE {}: {}", self.id, f.sig, f.msg);
                self.inconclusive.push(format!("{name}: {}", f.sig));
                None
            },
            other => other,
        };
        if let Some((f, case)) = failure {
            let case = f.min_case.clone().unwrap_or(case);
            let path = write_replay(self.id, name, &case, &f);
            pj["violation"] = json!({"signature": f.sig, "message": f.msg, "replay": path});
            println!("  [{}] part {name}: FAIL {}: {}", self.id, f.sig, f.msg);
            self.violations.push(Violation {
                part: name.to_string(),
                fail: f,
                replay_path: path,
            });
        }
        self.parts.push(pj);
        let mut l = local;
        // prefix samples with the part name
        let samples: Vec<Value> = l
            .samples
            .drain(..)
            .map(|s| json!({"part": name, "case": s}))
            .collect();
        l.samples = vec![];
        // class names are prefixed by part in the total
        let classes = std::mem::take(&mut l.classes);
        for (k, v) in classes {
            l.classes.insert(format!("{name}/{k}"), v);
        }
        self.total.merge(l);
        let per_part_cap = 3;
        for s in samples.into_iter().take(per_part_cap) {
            if self.total.samples.len() < 40 {
                self.total.samples.push(s);
            }
        }
    }

    /// Run a part over proptest-generated cases: `cases` in total, split over THREADS runners
    /// with seeds derived from (VERIF_SEED, part name, worker index). Shrinks the first failure.
    pub fn prop<P, S>(&mut self, part: &P, strat: S, cases: u64)
    where
        P: Part,
        S: Strategy<Value = P::Case> + Sync,
    {
        // VP_KEEP_GOING=1 (diagnostic aid, not used by registered commands): after a failure, ignore its
        // signature and run again, so that one run lists every distinct root cause.
        if std::env::var("VP_KEEP_GOING").is_ok() {
            for _ in 0..40 {
                let before = self.violations.len();
                self.prop_once(part, &strat, cases);
                if self.violations.len() == before {
                    break;
                }
                let sig = self.violations.last().unwrap().fail.sig.clone();
                self.known.push(Known { property: self.id.to_string(), sig, text: "(keep-going)".into() });
                let _ = self.parts.pop();
            }
            return;
        }
        self.prop_once(part, &strat, cases);
    }

    fn prop_once<P, S>(&mut self, part: &P, strat: &S, cases: u64)
    where
        P: Part,
        S: Strategy<Value = P::Case> + Sync,
    {
        let t0 = Instant::now();
        let threads = if cases < 64 { 1 } else { THREADS };
        let per = (cases as usize).div_ceil(threads);
        let stop = AtomicBool::new(false);
        let results: Mutex<Vec<(Local, Option<(Fail, Value)>)>> = Mutex::new(vec![]);
        let known: Vec<String> = self.known.iter().map(|k| k.sig.clone()).collect();
        let seed = self.seed;
        let shrink_iters = self.max_shrink_iters;
        std::thread::scope(|sc| {
            for w in 0..threads {
                let stop = &stop;
                let results = &results;
                let known = &known;
                sc.spawn(move || {
                    let mut h = std::collections::hash_map::DefaultHasher::new();
                    (seed, part.name(), w as u64).hash(&mut h);
                    let cfg = Config {
                        cases: per as u32,
                        failure_persistence: None,
                        rng_seed: RngSeed::Fixed(h.finish()),
                        max_shrink_iters: shrink_iters,
                        max_global_rejects: u32::MAX,
                        max_local_rejects: u32::MAX,
                        ..Config::default()
                    };
                    let mut runner = TestRunner::new(cfg);
                    let ev = std::cell::RefCell::new(Local::new());
                    // the worker's most recent cases, and the first failing case with the cases that preceded it
                    let recent: std::cell::RefCell<std::collections::VecDeque<P::Case>> = std::cell::RefCell::new(std::collections::VecDeque::with_capacity(HISTORY + 1));
                    let first_failure: std::cell::RefCell<Option<(Vec<P::Case>, P::Case)>> = std::cell::RefCell::new(None);
                    let counter = std::cell::Cell::new(0u64);
                    let res = runner.run(strat, |c| {
                        if stop.load(Ordering::Relaxed) && !ev.borrow().frozen {
                            // another worker already failed: finish quickly
                            return Ok(());
                        }
                        let mut evb = ev.borrow_mut();
                        if !evb.frozen {
                            if counter.get() % NOISE_EVERY == 0 {
                                crate::noise::run();
                            }
                            counter.set(counter.get() + 1);
                        }
                        evb.eval();
                        let verdict = run_check(part, &c, &mut evb);
                        if !evb.frozen {
                            if verdict.is_err() {
                                *first_failure.borrow_mut() = Some((recent.borrow().iter().cloned().collect(), c.clone()));
                            }
                            let mut r = recent.borrow_mut();
                            if r.len() == HISTORY {
                                r.pop_front();
                            }
                            r.push_back(c.clone());
                        }
                        match verdict {
                            Ok(()) => Ok(()),
                            Err(f) => {
                                if known.iter().any(|k| *k == f.sig) {
                                    *evb.excluded_known.entry(f.sig.clone()).or_insert(0) += 1;
                                    Ok(())
                                } else {
                                    evb.frozen = true;
                                    stop.store(true, Ordering::Relaxed);
                                    Err(TestCaseError::fail(f.sig.clone()))
                                }
                            },
                        }
                    });
                    let mut local = ev.into_inner();
                    let failure = match res {
                        Ok(()) => None,
                        Err(TestError::Fail(_, c)) => {
                            local.frozen = true;
                            // the verdict that counts is the one a fresh thread gives (what a replay of the stored case will
                            // see): first the shrunk case alone, then the original failing case alone, then the original case
                            // after the cases that preceded it on this worker (shortest suffix of them that still fails)
                            let alone = |c: &P::Case| run_after_history(part, &[], c);
                            match alone(&c) {
                                Err(f) => Some((f, part.to_json(&c))),
                                Ok(()) => {
                                    let ff = first_failure.borrow_mut().take();
                                    let mut found = None;
                                    if let Some((hist, orig)) = ff {
                                        let store = |noise: bool, h: &[P::Case]| json!({"noise": noise, "history": h.iter().map(|x| part.to_json(x)).collect::<Vec<_>>(), "then": part.to_json(&orig)});
                                        if let Err(f) = alone(&orig) {
                                            found = Some((f, part.to_json(&orig)));
                                        } else if let Err(f) = run_after(part, false, &hist, &orig) {
                                            // binary search for the shortest suffix (assumes the leak is monotone in the history)
                                            let (mut lo, mut hi) = (1usize, hist.len());
                                            while lo < hi {
                                                let mid = (lo + hi) / 2;
                                                if run_after(part, false, &hist[hist.len() - mid..], &orig).is_err() {
                                                    hi = mid;
                                                } else {
                                                    lo = mid + 1;
                                                }
                                            }
                                            let h = &hist[hist.len() - hi..];
                                            found = Some(match run_after(part, false, h, &orig) {
                                                Err(f) => (f, store(false, h)),
                                                Ok(()) => (f, store(false, &hist)),
                                            });
                                        } else if let Err(f) = run_after(part, true, &[], &orig) {
                                            found = Some((f, store(true, &[])));
                                        } else if let Err(f) = run_after(part, true, &hist, &orig) {
                                            found = Some((f, store(true, &hist)));
                                        }
                                    }
                                    Some(found.unwrap_or_else(|| (Fail::new("flaky", "the failing case passes when evaluated again on a fresh thread, alone and after the cases that preceded it (non-deterministic oracle, or state older than the kept history?)"), part.to_json(&c))))
                                },
                            }
                        },
                        Err(TestError::Abort(r)) => Some((
                            Fail::new("harness-abort", format!("proptest aborted: {r}")),
                            Value::Null,
                        )),
                    };
                    local.frozen = false;
                    results.lock().unwrap().push((local, failure));
                });
            }
        });
        let mut total = Local::new();
        total.sample_cap = 8;
        let mut failure = None;
        let mut rs = results.into_inner().unwrap();
        // deterministic merge order is not needed for counts; pick the smallest failing case
        rs.sort_by_key(|(_, f)| f.as_ref().map(|(_, v)| v.to_string().len()).unwrap_or(0));
        for (l, f) in rs {
            total.merge(l);
            if let Some(f) = f {
                if failure.is_none() {
                    failure = Some(f);
                }
            }
        }
        if let Some((f, _)) = &failure {
            if f.sig == "harness-abort" {
                eprintln!("HARNESS ERROR in {}: {}", part.name(), f.msg);
                std::process::exit(2);
            }
        }
        self.record_part(
            part.name(),
            "proptest",
            false,
            total,
            t0.elapsed().as_secs_f64(),
            failure,
        );
    }

    /// Run a part over a complete enumeration `0..n`, `make(i)` producing the i-th case.
    /// Stops at the smallest failing index found per worker (no shrinking needed: the
    /// enumeration order is by size).
    pub fn enumerate<P, F>(&mut self, part: &P, n: u64, exhaustive: bool, make: F)
    where
        P: Part,
        F: Fn(u64) -> Option<P::Case> + Sync,
    {
        if std::env::var("VP_KEEP_GOING").is_ok() {
            for _ in 0..60 {
                let before = self.violations.len();
                self.enumerate_once(part, n, exhaustive, &make);
                if self.violations.len() == before {
                    break;
                }
                let sig = self.violations.last().unwrap().fail.sig.clone();
                self.known.push(Known { property: self.id.to_string(), sig, text: "(keep-going)".into() });
                let _ = self.parts.pop();
            }
            return;
        }
        self.enumerate_once(part, n, exhaustive, &make);
    }

    fn enumerate_once<P, F>(&mut self, part: &P, n: u64, exhaustive: bool, make: &F)
    where
        P: Part,
        F: Fn(u64) -> Option<P::Case> + Sync,
    {
        let t0 = Instant::now();
        let threads = if n < 256 { 1 } else { THREADS as u64 };
        let stop = AtomicBool::new(false);
        let results: Mutex<Vec<(Local, Option<(u64, Fail, Value)>)>> = Mutex::new(vec![]);
        let known: Vec<String> = self.known.iter().map(|k| k.sig.clone()).collect();
        std::thread::scope(|sc| {
            for w in 0..threads {
                let stop = &stop;
                let results = &results;
                let known = &known;
                sc.spawn(move || {
                    let mut ev = Local::new();
                    let mut failure = None;
                    // interleaved chunks so that all workers see small indices first
                    let chunk = 256u64;
                    let mut base = w * chunk;
                    'outer: while base < n {
                        if stop.load(Ordering::Relaxed) {
                            break;
                        }
                        crate::noise::run();
                        let end = (base + chunk).min(n);
                        for i in base..end {
                            let Some(c) = make(i) else { continue };
                            ev.eval();
                            if let Err(f) = run_check(part, &c, &mut ev) {
                                if known.iter().any(|k| *k == f.sig) {
                                    *ev.excluded_known.entry(f.sig.clone()).or_insert(0) += 1;
                                } else {
                                    // the verdict that counts is the one a fresh thread gives: the case alone, else after the
                                    // noise routine, else after the cases of this chunk that preceded it
                                    let confirmed = match run_after(part, false, &[], &c) {
                                        Err(f) => (f, part.to_json(&c)),
                                        Ok(()) => match run_after(part, true, &[], &c) {
                                            Err(f) => (f, json!({"noise": true, "history": [], "then": part.to_json(&c)})),
                                            Ok(()) => {
                                                let hist: Vec<P::Case> = (base..i).filter_map(|k| make(k)).collect();
                                                match run_after(part, true, &hist, &c) {
                                                    Err(f) => (f, json!({"noise": true, "history": hist.iter().map(|x| part.to_json(x)).collect::<Vec<_>>(), "then": part.to_json(&c)})),
                                                    Ok(()) => (Fail::new("flaky", format!("the failing case ({}) passes when evaluated again on a fresh thread, alone and after the operations that preceded it", f.sig)), part.to_json(&c)),
                                                }
                                            },
                                        },
                                    };
                                    failure = Some((i, confirmed.0, confirmed.1));
                                    stop.store(true, Ordering::Relaxed);
                                    break 'outer;
                                }
                            }
                        }
                        base += threads * chunk;
                    }
                    results.lock().unwrap().push((ev, failure));
                });
            }
        });
        let mut total = Local::new();
        total.sample_cap = 8;
        let mut failure: Option<(u64, Fail, Value)> = None;
        for (l, f) in results.into_inner().unwrap() {
            total.merge(l);
            if let Some(f) = f {
                if failure.as_ref().map(|x| f.0 < x.0).unwrap_or(true) {
                    failure = Some(f);
                }
            }
        }
        let complete = exhaustive && failure.is_none();
        self.record_part(
            part.name(),
            if exhaustive {
                "complete enumeration"
            } else {
                "systematic enumeration (sampled space)"
            },
            complete,
            total,
            t0.elapsed().as_secs_f64(),
            failure.map(|(_, f, v)| (f, v)),
        );
    }

    /// Run a part over an explicit list of cases (regression inputs, golden vectors).
    pub fn list<P: Part>(&mut self, part: &P, label: &'static str, cases: Vec<P::Case>) {
        struct Wrap<'a, P: Part>(&'a P, &'static str);
        impl<'a, P: Part> Part for Wrap<'a, P> {
            type Case = P::Case;
            fn name(&self) -> &'static str {
                self.1
            }
            fn check(&self, c: &Self::Case, ev: &mut Local) -> Result<(), Fail> {
                self.0.check(c, ev)
            }
            fn to_json(&self, c: &Self::Case) -> Value {
                self.0.to_json(c)
            }
            fn from_json(&self, v: &Value) -> Option<Self::Case> {
                self.0.from_json(v)
            }
        }
        let n = cases.len() as u64;
        let w = Wrap(part, label);
        self.enumerate(&w, n, false, |i| Some(cases[i as usize].clone()));
        // replay files written for list parts must name the real part
        if let Some(v) = self.violations.last_mut() {
            if v.part == label {
                // rewrite replay with the real part name
                if let Ok(txt) = std::fs::read_to_string(&v.replay_path) {
                    if let Ok(mut j) = serde_json::from_str::<Value>(&txt) {
                        j["part"] = json!(part.name());
                        let _ = std::fs::write(&v.replay_path, serde_json::to_string_pretty(&j).unwrap());
                    }
                }
            }
        }
    }

    /// Replay all saved regression inputs of this property (regress/<ID>/*.json).
    pub fn regress(&mut self, parts: &[&dyn DynPart]) {
        let dir = format!("{VERIF_ROOT}/regress/{}", self.id);
        let Ok(rd) = std::fs::read_dir(&dir) else {
            return;
        };
        let mut files: Vec<_> = rd.flatten().map(|e| e.path()).collect();
        files.sort();
        let t0 = Instant::now();
        let mut local = Local::new();
        let mut failure = None;
        for f in files {
            if f.extension().and_then(|e| e.to_str()) != Some("json") {
                continue;
            }
            let txt = std::fs::read_to_string(&f).unwrap_or_default();
            let Ok(j) = serde_json::from_str::<Value>(&txt) else {
                eprintln!("HARNESS ERROR: unreadable regress file {f:?}");
                std::process::exit(2);
            };
            let pname = j["part"].as_str().unwrap_or("");
            let Some(p) = parts.iter().find(|p| p.dyn_name() == pname) else {
                eprintln!("HARNESS ERROR: regress file {f:?} names unknown part {pname}");
                std::process::exit(2);
            };
            local.eval();
            local.class(&format!("regress/{pname}"));
            match p.replay(&j["case"]) {
                Err(e) => {
                    eprintln!("HARNESS ERROR: {f:?}: {e}");
                    std::process::exit(2);
                },
                Ok(Ok(())) => {},
                Ok(Err(fl)) => {
                    if self.is_known(&fl.sig) {
                        *local.excluded_known.entry(fl.sig.clone()).or_insert(0) += 1;
                    } else if failure.is_none() {
                        failure = Some((fl, j["case"].clone(), pname.to_string()));
                    }
                },
            }
        }
        if local.evaluations == 0 {
            return;
        }
        let ex = self.all_exhaustive;
        let (fl, pn) = match failure {
            Some((f, c, p)) => (Some((f, c)), p),
            None => (None, String::new()),
        };
        let name = if pn.is_empty() { "regress".to_string() } else { pn };
        // regress entries count as evaluations but are not part of the "exhaustive" claim
        self.record_part(
            if fl.is_some() { Box::leak(name.into_boxed_str()) } else { "regress" },
            "saved inputs",
            true,
            local,
            t0.elapsed().as_secs_f64(),
            fl,
        );
        self.all_exhaustive = ex;
    }

    /// Finish: write evidence, print KNOWN-FINDING / VIOLATION lines, return exit code.
    pub fn finish(mut self) -> i32 {
        let wall = self.started.elapsed().as_secs_f64();
        if !self.any_part {
            eprintln!("HARNESS ERROR: no part ran for {}", self.id);
            return 2;
        }
        for k in &self.known {
            let n = self.known_hit.get(&k.sig).copied().unwrap_or(0);
            println!(
                "KNOWN-FINDING: property={} signature={} {} (cases excluded this run: {n})",
                k.property, k.sig, k.text
            );
        }
        let nontrivial = self.total.nontrivial_hashes.len() as u64 + self.total.nontrivial_exact;
        let mut coverage = json!({
            "evaluations": self.total.evaluations,
            "distinct_nontrivial": nontrivial,
            "rule": self.rule,
            "samples": self.total.samples,
            "exhaustive": self.claims_exhaustive && self.all_exhaustive && self.violations.is_empty(),
            "parts": self.parts,
            "classes": self.total.classes,
        });
        if !self.known_hit.is_empty() {
            coverage["excluded_known_findings"] = json!(self.known_hit);
        }
        for (k, v) in std::mem::take(&mut self.extra) {
            coverage[k] = v;
        }
        // results of the libFuzzer campaigns and of the dev-profile re-run that ./check ran before this process
        if let Ok(p) = std::env::var("VP_THOROUGH_EXTRAS") {
            if let Ok(txt) = std::fs::read_to_string(&p) {
                if let Ok(v) = serde_json::from_str::<Value>(&txt) {
                    coverage["thorough_extras"] = v;
                }
            }
        }
        if let Ok(p) = std::env::var("VP_QUICK_EXTRAS") {
            if let Ok(txt) = std::fs::read_to_string(&p) {
                if let Ok(v) = serde_json::from_str::<Value>(&txt) {
                    coverage["quick_extras"] = v;
                }
            }
        }
        let ev = json!({
            "property_id": self.id,
            "tier": if self.tier == Tier::Quick { "quick" } else { "thorough" },
            "seed": self.seed,
            "level": "exploration",
            "coverage": coverage,
            "assumptions": self.assumptions,
            "wall_s": (wall * 1000.0).round() / 1000.0,
            "violations": self.violations.len(),
        });
        let dir = format!("{VERIF_ROOT}/evidence");
        let _ = std::fs::create_dir_all(&dir);
        let path = format!("{dir}/{}.json", self.id);
        // the dev-profile re-run of the thorough tier only contributes its verdict
        if std::env::var("VP_NO_EVIDENCE").is_err() {
            if let Err(e) = std::fs::write(&path, serde_json::to_string_pretty(&ev).unwrap()) {
                eprintln!("HARNESS ERROR: cannot write evidence {path}: {e}");
                return 2;
            }
        }
        println!(
            "[{}] {} evaluations, {} distinct non-trivial, {} parts, {:.1}s",
            self.id,
            self.total.evaluations,
            nontrivial,
            self.parts.len(),
            wall
        );
        if self.violations.is_empty() {
            if !self.inconclusive.is_empty() {
                println!("INCONCLUSIVE property={}: the harness could not judge {:?}", self.id, self.inconclusive);
                return 2;
            }
            0
        } else {
            for v in &self.violations {
                println!("VIOLATION property={} replay={}", self.id, v.replay_path);
            }
            1
        }
    }
}

fn write_replay(id: &str, part: &str, case: &Value, f: &Fail) -> String {
    let dir = format!("{VERIF_ROOT}/evidence/replay");
    let _ = std::fs::create_dir_all(&dir);
    let body = json!({
        "property": id,
        "part": part,
        "signature": f.sig,
        "message": f.msg,
        "case": case,
    });
    let txt = serde_json::to_string_pretty(&body).unwrap();
    let h = hash_of(&case.to_string());
    let path = format!("{dir}/{id}-{part}-{:08x}.json", h as u32);
    let _ = std::fs::write(&path, txt);
    path
}

pub fn load_known(id: &str) -> Vec<Known> {
    let path = format!("{VERIF_ROOT}/known_findings.txt");
    let Ok(txt) = std::fs::read_to_string(path) else {
        return vec![];
    };
    let mut out = vec![];
    for line in txt.lines() {
        let line = line.trim();
        let Some(rest) = line.strip_prefix("known:") else {
            continue;
        };
        let rest = rest.trim();
        let mut prop = "";
        let mut sig = "";
        let mut text_start = 0;
        let mut off = 0;
        for tok in rest.split_whitespace() {
            let pos = rest[off..].find(tok).unwrap() + off;
            off = pos + tok.len();
            if let Some(p) = tok.strip_prefix("property=") {
                prop = p;
                text_start = off;
            } else if let Some(s) = tok.strip_prefix("signature=") {
                sig = s;
                text_start = off;
            } else {
                break;
            }
        }
        if prop == id && !sig.is_empty() {
            out.push(Known {
                property: prop.to_string(),
                sig: sig.to_string(),
                text: rest[text_start..].trim().to_string(),
            });
        }
    }
    out
}

/// Replay entry: returns exit code.
pub fn replay_file(id: &str, path: &str, parts: &[&dyn DynPart]) -> i32 {
    let Ok(txt) = std::fs::read_to_string(path) else {
        eprintln!("cannot read {path}");
        return 2;
    };
    let Ok(j) = serde_json::from_str::<Value>(&txt) else {
        eprintln!("cannot parse {path}");
        return 2;
    };
    let pname = j["part"].as_str().unwrap_or("");
    let Some(p) = parts.iter().find(|p| p.dyn_name() == pname) else {
        eprintln!("unknown part {pname} for {id}");
        return 2;
    };
    match p.replay(&j["case"]) {
        Err(e) => {
            eprintln!("{e}");
            2
        },
        Ok(Ok(())) => {
            println!("replay {path}: property holds on this input");
            0
        },
        Ok(Err(f)) => {
            let known = load_known(id);
            if known.iter().any(|k| k.sig == f.sig) {
                println!("KNOWN-FINDING: property={id} signature={} {}", f.sig, f.msg);
                0
            } else {
                println!("replay {path}: {} : {}", f.sig, f.msg);
                println!("VIOLATION property={id} replay={path}");
                1
            }
        },
    }
}

// ---------------------------------------------------------------------------------------
// small helpers shared by the property modules
// ---------------------------------------------------------------------------------------

pub fn hex(b: &[u8]) -> String {
    let mut s = String::with_capacity(b.len() * 2);
    for x in b {
        s.push_str(&format!("{x:02x}"));
    }
    s
}

pub fn unhex(s: &str) -> Option<Vec<u8>> {
    if s.len() % 2 != 0 {
        return None;
    }
    (0..s.len() / 2)
        .map(|i| u8::from_str_radix(&s[2 * i..2 * i + 2], 16).ok())
        .collect()
}

/// proptest value generation outside a runner (for deterministic sampling helpers)
pub fn sample_strategy<S: Strategy>(s: &S, seed: u64) -> S::Value {
    let mut r = TestRunner::new(Config {
        rng_seed: RngSeed::Fixed(seed),
        failure_persistence: None,
        ..Config::default()
    });
    s.new_tree(&mut r).unwrap().current()
}


/// A `Read + Seek` over a byte slice that hands out at most `pattern[i % len]` bytes per `read` call, as a `BufReader` at a
/// buffer boundary, a socket or a pipe does. The public `BinRead` types must decode the same from it as from a `Cursor`.
pub struct Trickle<'a> {
    pub inner: std::io::Cursor<&'a [u8]>,
    pub pattern: &'a [usize],
    pub calls: usize,
}

impl<'a> Trickle<'a> {
    pub fn new(bytes: &'a [u8], pattern: &'a [usize]) -> Self {
        Trickle { inner: std::io::Cursor::new(bytes), pattern, calls: 0 }
    }
}

impl std::io::Read for Trickle<'_> {
    fn read(&mut self, buf: &mut [u8]) -> std::io::Result<usize> {
        let k = self.pattern[self.calls % self.pattern.len()].max(1);
        self.calls += 1;
        let n = buf.len().min(k);
        self.inner.read(&mut buf[..n])
    }
}

impl std::io::Seek for Trickle<'_> {
    fn seek(&mut self, pos: std::io::SeekFrom) -> std::io::Result<u64> {
        self.inner.seek(pos)
    }
}


/// A `tracing` subscriber that enables every callsite and discards everything: with it installed the arguments of every
/// `trace!` / `debug!` / `#[instrument]` in the library are evaluated, as they are when a user turns on trace logging.
/// Installed process-wide when VP_TRACE is set (the dev-profile pass of the quick tier sets it).
pub struct EverythingEnabled;

impl tracing::Subscriber for EverythingEnabled {
    fn enabled(&self, _: &tracing::Metadata<'_>) -> bool {
        true
    }
    fn new_span(&self, _: &tracing::span::Attributes<'_>) -> tracing::span::Id {
        tracing::span::Id::from_u64(1)
    }
    fn record(&self, _: &tracing::span::Id, _: &tracing::span::Record<'_>) {}
    fn record_follows_from(&self, _: &tracing::span::Id, _: &tracing::span::Id) {}
    fn event(&self, event: &tracing::Event<'_>) {
        // visit the fields so that lazily formatted arguments are really formatted (into nothing)
        struct Sink;
        impl tracing::field::Visit for Sink {
            fn record_debug(&mut self, _: &tracing::field::Field, value: &dyn std::fmt::Debug) {
                use std::fmt::Write;
                struct Null;
                impl Write for Null {
                    fn write_str(&mut self, _: &str) -> std::fmt::Result {
                        Ok(())
                    }
                }
                let _ = write!(Null, "{value:?}");
            }
        }
        event.record(&mut Sink);
    }
    fn enter(&self, _: &tracing::span::Id) {}
    fn exit(&self, _: &tracing::span::Id) {}
}

pub fn maybe_install_trace_subscriber() {
    if std::env::var("VP_TRACE").is_ok() {
        let _ = tracing::subscriber::set_global_default(EverythingEnabled);
    }
}


/// A `Write + Seek` sink that accepts at most `pattern[i % len]` bytes per `write` call (a pipe, a socket wrapper, a
/// chunking writer): whoever ignores the count `write` returns loses bytes here. `fail_after`: total bytes after which
/// every write fails (a full disk, a too-small buffer).
pub struct TrickleSink<'a> {
    pub inner: std::io::Cursor<Vec<u8>>,
    pub pattern: &'a [usize],
    pub calls: usize,
    pub fail_after: Option<usize>,
}

impl<'a> TrickleSink<'a> {
    pub fn new(pattern: &'a [usize]) -> Self {
        TrickleSink { inner: std::io::Cursor::new(Vec::new()), pattern, calls: 0, fail_after: None }
    }
    pub fn failing_after(n: usize) -> Self {
        TrickleSink { inner: std::io::Cursor::new(Vec::new()), pattern: &[usize::MAX], calls: 0, fail_after: Some(n) }
    }
    pub fn bytes(&self) -> &[u8] {
        self.inner.get_ref()
    }
}

impl std::io::Write for TrickleSink<'_> {
    fn write(&mut self, buf: &[u8]) -> std::io::Result<usize> {
        let k = self.pattern[self.calls % self.pattern.len()].max(1);
        self.calls += 1;
        let mut n = buf.len().min(k);
        if let Some(limit) = self.fail_after {
            let room = limit.saturating_sub(self.inner.position() as usize);
            if room == 0 && !buf.is_empty() {
                return Err(std::io::Error::new(std::io::ErrorKind::WriteZero, "sink is full"));
            }
            n = n.min(room);
        }
        self.inner.write(&buf[..n])
    }
    fn flush(&mut self) -> std::io::Result<()> {
        Ok(())
    }
}

impl std::io::Seek for TrickleSink<'_> {
    fn seek(&mut self, pos: std::io::SeekFrom) -> std::io::Result<u64> {
        self.inner.seek(pos)
    }
}
