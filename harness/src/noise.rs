//! "Noise": a fixed routine of unrelated operations on the public API - refused and failing ones above all - that every worker
//! thread executes before its first case and again every 256 cases. On a library without state outside its objects it changes
//! nothing. If a text conversion, a codec, a parser or a connection keeps something in a thread-local or a static, the cases that
//! follow see it; a failure that needs the routine is confirmed on a fresh thread (routine, then the case) and stored as such.

use std::io::Cursor;
use std::str::FromStr;

use insim::net::{Codec, Mode};
use insim_core::binrw::{BinRead, BinWrite};

use crate::engine::{guard, TrickleSink};
use crate::refs::build;
use crate::transport::{ReadStep, Transport};

pub fn run() {
    let _ = guard(|| {
        for mode in [Mode::Uncompressed, Mode::Compressed] {
            let codec = Codec::new(mode.clone());
            // packets the encoder refuses: too large, a field out of range half-way through the packet, a duration that does not fit
            for pseudo in [0xFFu8, 0xFE, 0xFD, 0xFC] {
                if let Some(p) = crate::props::c03::seq_packet(&[pseudo], &mode) {
                    let _ = guard(|| codec.encode(&p).map(|b| b.len()).map_err(|e| e.to_string()));
                }
            }
            let isi = insim::insim::Isi { interval: std::time::Duration::from_secs(70), iname: "Ж日本€".into(), ..Default::default() };
            let _ = guard(|| codec.encode(&insim::Packet::Isi(isi)).map(|b| b.len()).map_err(|e| e.to_string()));
            // texts in several codepages through several fields, one of them into a sink that fails inside the text
            for (v, f, text) in [("Msl", "msg", "日本語のテキスト ^ Жук €€€€€€€€€€€€€€€€€€€€€€€€"), ("Npl", "plate", "a美美美"), ("Iii", "msg", "ŁUK Ж"), ("Rip", "rname", "ŁUK Ж"), ("Mst", "msg", "한글 ^^ ａ")] {
                if let Some(p) = build::text_packet(v, f, text, 1) {
                    let _ = guard(|| codec.encode(&p).map(|b| b.len()).map_err(|e| e.to_string()));
                    let mut sink = TrickleSink::failing_after(9);
                    let _ = guard(|| p.write(&mut sink).map_err(|e| e.to_string()));
                }
            }
            // frames a peer should not send: bytes behind a text's terminator, a text cut inside a double-byte character, unknown
            // enumeration values, an unknown vehicle / track, an IS_VER of an older protocol
            let sz = |n: usize| if matches!(mode, Mode::Compressed) { (n / 4) as u8 } else { n as u8 };
            let frames: Vec<Vec<u8>> = vec![
                [vec![sz(80), 14, 0, 0, 0, 0, 0, 0, b'a', 0], vec![b'Z'; 70]].concat(),
                [vec![sz(12), 14, 0, 0, 0, 0, 0, 0], b"^J\x94".to_vec(), vec![0]].concat(),
                vec![sz(16), 52, 0, 0, 9, 0, 1, 0, 0, 0, 0, 0, 0, 0, 0, 0],
                [vec![sz(8), 62, 0, 0], b"QQQ\0".to_vec()].concat(),
                [vec![sz(20), 2, 1, 0], b"0.6U\0\0\0\0".to_vec(), b"S2\0\0\0\0".to_vec(), vec![8, 0]].concat(),
            ];
            for f in &frames {
                let mut b = bytes::BytesMut::from(&f[..]);
                let _ = guard(|| codec.decode(&mut b).map(|p| p.is_some()).map_err(|e| e.to_string()));
            }
            // a blocking and a tokio connection with verification off that read the old IS_VER and are dropped with unread bytes
            let stream: Vec<u8> = [frames[4].clone(), vec![sz(4), 3, 0, 0], vec![sz(8), 3, 1]].concat();
            let _ = guard(|| {
                let t = Transport::new(vec![ReadStep::Data(stream.clone())], vec![]);
                let mut framed = insim::net::blocking_impl::Framed::new(Box::new(t), Codec::new(mode.clone()));
                framed.verify_version(false);
                let _ = framed.read();
                let _ = framed.write(insim::insim::Tiny { reqi: insim::identifiers::RequestId(1), subt: insim::insim::TinyType::Ping });
            });
            let _ = guard(|| {
                let rt = crate::transport::tokio_runtime();
                rt.block_on(async {
                    let t = Transport::new(vec![ReadStep::Data(stream.clone())], vec![]);
                    let mut framed = insim::net::tokio_impl::Framed::new(Box::new(t), Codec::new(mode.clone()));
                    framed.verify_version(false);
                    let _ = framed.read().await;
                    let _ = framed.write(insim::insim::Tiny { reqi: insim::identifiers::RequestId(1), subt: insim::insim::TinyType::Ping }).await;
                });
            });
        }
        // text conversions on their own
        for w in [&b"^J\x94"[..], b"^K\xff\xff\xff\xff\xff\xff\xb0\xa1", b"^H\x80\x80\x80\x80\x80\x80\x80\x80\xa4\xa4", b"^Ca^8\xe9^^J"] {
            let _ = guard(|| insim_core::string::codepages::to_lossy_string(w).len());
        }
        for t in ["Я\u{1042f}", "漢字 Жук ελ ěš", "^^K ^8 ｱｲｳ"] {
            let _ = guard(|| insim_core::string::codepages::to_lossy_bytes(&insim_core::string::escaping::escape(t)).len());
        }
        // version strings that are refused half-way
        for s in [format!("0.7A{}", "9".repeat(300)), format!("0.6U{}", "\u{0663}".repeat(200)), "1.2.3".to_string(), format!("{}.A", "0".repeat(400))] {
            let _ = guard(|| insim_core::game_version::GameVersion::from_str(&s).is_ok());
        }
        // identifiers and files
        let _ = guard(|| insim_core::track::Track::read_le(&mut Cursor::new(&b"AS8\0\0\0"[..])).is_ok());
        let _ = guard(|| insim_core::vehicle::Vehicle::read_le(&mut Cursor::new(&b"QQQ\0"[..])).is_ok());
        let mut smx = b"LFSSMX".to_vec();
        smx.extend_from_slice(&[0, 0, 1, 0, 0, 0, 0, 0, 0, 0]);
        smx.extend_from_slice("^J日本の道".as_bytes());
        smx.resize(60, 0);
        let _ = guard(|| insim_smx::Smx::read(&mut Cursor::new(&smx[..])).is_ok());
        let _ = guard(|| insim_pth::Pth::read(&mut Cursor::new(&b"LFSPTH\0\0\x05\0\0\0\0\0\0\0"[..])).is_ok());
    });
}
