//! Extracts, from /repo's sources at build time, the lists the harness must not hard-code:
//! the Track enum's variants (C14) and the Packet enum's variants with their magic numbers.
use std::{env, fs, path::Path};

fn main() {
    // VP_REPO lets the seed-trial tooling build the harness against a scratch copy of the repository; registered
    // checks never set it and always use /repo
    println!("cargo:rerun-if-env-changed=VP_REPO");
    let repo = env::var("VP_REPO").unwrap_or_else(|_| "/repo".to_string());
    let track_src = &format!("{repo}/insim_core/src/track.rs");
    let packet_src = &format!("{repo}/insim/src/packet.rs");
    println!("cargo:rerun-if-changed={track_src}");
    println!("cargo:rerun-if-changed={packet_src}");
    println!("cargo:rerun-if-changed=build.rs");
    let mut out = String::new();

    // --- Track variants: the body of `pub enum Track { ... }`
    let t = fs::read_to_string(track_src).expect("track.rs");
    let start = t.find("pub enum Track {").expect("enum Track");
    let body = &t[start + "pub enum Track {".len()..];
    let end = body.find("\n}").expect("end of enum Track");
    let body = &body[..end];
    let mut variants = vec![];
    for line in body.lines() {
        let l = line.trim();
        if l.is_empty() || l.starts_with("//") || l.starts_with("#[") {
            continue;
        }
        let name = l.trim_end_matches(',').trim();
        if name.chars().all(|c| c.is_ascii_alphanumeric()) && !name.is_empty() {
            variants.push(name.to_string());
        } else {
            panic!("unexpected line in enum Track: {l:?}");
        }
    }
    out.push_str("pub const TRACK_VARIANTS: &[&str] = &[\n");
    for v in &variants {
        out.push_str(&format!("    \"{v}\",\n"));
    }
    out.push_str("];\n");
    out.push_str("pub fn track_by_variant(name: &str) -> Option<insim_core::track::Track> {\n    use insim_core::track::Track;\n    Some(match name {\n");
    for v in &variants {
        out.push_str(&format!("        \"{v}\" => Track::{v},\n"));
    }
    out.push_str("        _ => return None,\n    })\n}\n");

    // --- Packet variants + magic
    let p = fs::read_to_string(packet_src).expect("packet.rs");
    let start = p.find("pub enum Packet {").expect("enum Packet");
    let body = &p[start..];
    let end = body.find("\n}").expect("end of enum Packet");
    let body = &body[..end];
    let mut kinds: Vec<(String, u32)> = vec![];
    let mut magic: Option<u32> = None;
    for line in body.lines() {
        let l = line.trim();
        if let Some(rest) = l.strip_prefix("#[brw(magic = ") {
            let num: String = rest.chars().take_while(|c| c.is_ascii_digit()).collect();
            magic = Some(num.parse().expect("magic number"));
        } else if let Some(m) = magic {
            if l.starts_with("//") || l.starts_with("#[") || l.is_empty() {
                continue;
            }
            let name: String = l.chars().take_while(|c| c.is_ascii_alphanumeric()).collect();
            kinds.push((name, m));
            magic = None;
        }
    }
    out.push_str("pub const PACKET_KINDS: &[(&str, u8)] = &[\n");
    for (n, m) in &kinds {
        out.push_str(&format!("    (\"{n}\", {m}),\n"));
    }
    out.push_str("];\n");

    let dest = Path::new(&env::var("OUT_DIR").unwrap()).join("gen.rs");
    fs::write(dest, out).unwrap();
}
